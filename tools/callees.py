#!/usr/bin/env python3-vt
"""List extern callees (needing summaries) reachable from given root bodies. usage: callees.py root1 root2 ..."""
import sys, collections
sys.path.insert(0, '/verif')
from mirsym.engine import Engine
eng = Engine(sys.argv[1], sys.argv[2].split(','))
roots = sys.argv[3:]
seen = set(); todo = []
for r in roots:
    c = [n for n in eng.bodies if n == r or n.endswith('::' + r)]
    todo += c
ext = collections.Counter(); where = {}
while todo:
    n = todo.pop()
    if n in seen: continue
    seen.add(n)
    b = eng.body(n)
    for k, blk in b.blocks.items():
        t = blk[1]
        if t and t[0] == 'call':
            ci = eng.parse_callee(t[2])
            if ci.target:
                todo.append(ci.target)
            else:
                h = eng.lookup_summary(ci)
                if not h:
                    ext[ci.norm + ' | ' + (ci.selfty or '')[:50]] += 1; where.setdefault(ci.norm, n)
        for st in blk[0]:
            if st[0] == 'assign' and st[2][0] in ('closure', 'coroutine') and len(st[2]) > 4:
                todo.append(st[2][4])
    # closures defined inside
    for m in eng.bodies:
        if m.startswith(n + '::{closure#') and m not in seen: todo.append(m)
print('bodies:', len(seen))
for k, v in sorted(ext.items()): print(v, k)
