#!/bin/sh
# One-time, offline: warm the build caches used by the checks (they work without it, only slower).
#  - nightly target dir + MIR dump of /repo's current tree
#  - replay target dir (stable toolchain, repository lockfile): test profile of the crate with the replay modules
set -e
cd "$(dirname "$0")/.."
export CARGO_NET_OFFLINE=true PYTHONDONTWRITEBYTECODE=1
mkdir -p .cache evidence
python3-vt lib/prep.py >/dev/null
python3-vt - <<'PY'
import sys
sys.path.insert(0, '.')
from lib.replay import Replayer
r = Replayer(lambda m: print(m, file=sys.stderr))
payload, raw, rc = r.run('helpers', 'normpath_batch', ['612f2f62'])
r.cleanup()
if rc != 0 or payload != ['0 612f62 612f62']:
    print(raw[-3000:], file=sys.stderr)
    sys.exit('replay build failed')
PY
# - scenario target dir: the real binaries (several checks replay or validate with them on every run)
python3-vt - <<'PY'
import sys
sys.path.insert(0, '.')
from lib.scenario import Scenario
s = Scenario(lambda m: print(m, file=sys.stderr))
rc, out = s.run({'a.do': 'echo hi\n'}, 'redo-ifchange a && cat a')
s.cleanup()
if rc != 0 or 'hi' not in out:
    print(out[-2000:], file=sys.stderr)
    sys.exit('scenario build failed')
PY
echo "setup ok"
