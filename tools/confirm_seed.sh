#!/bin/sh
# usage: confirm_seed.sh <scratch worktree of /repo> <seed dir with patch.diff + demo.sh>
# Confirms independently: the change applies, builds, the existing test suite passes with it, the demonstration fails with it
# and passes without it.  Prints one CONFIRM line.
wt="$1"; sd="$2"
export CARGO_NET_OFFLINE=true
cd "$wt" || exit 2
git checkout -q -- . || exit 2
git apply "$sd/patch.diff" || { echo "CONFIRM $sd apply=FAIL"; exit 1; }
cargo build --offline >/dev/null 2>&1 || { echo "CONFIRM $sd build=FAIL"; git checkout -q -- .; exit 1; }
tests=$(cargo test --workspace --no-fail-fast --offline 2>&1 | grep -E "^test result" | awk '{p+=$4; f+=$6} END {print p"/"f}')
( cd "$sd" && sh ./demo.sh >"$sd/confirm-with.log" 2>&1 ); with=$?
git checkout -q -- .
cargo build --offline >/dev/null 2>&1
( cd "$sd" && sh ./demo.sh >"$sd/confirm-without.log" 2>&1 ); without=$?
echo "CONFIRM $sd tests(pass/fail)=$tests demo_with_change_rc=$with demo_without_rc=$without"
