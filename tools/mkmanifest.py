#!/usr/bin/env python3
"""Regenerate MANIFEST.json from the table below (kept in one place so that claims, not_applicable and specs stay in sync)."""
import json, os
V = os.path.dirname(os.path.dirname(os.path.abspath(__file__)))
props = [json.loads(l) for l in open(os.path.join(V, 'properties.jsonl'))]
TECH = 'symbolic execution of rustc MIR + z3 (SMT) per path class; native replay of counterexamples'
TRUST = ('Trusted: rustc MIR lowering (nightly dump vs stable binary), z3, the std/nix/rusqlite summaries and the environment model '
         '(listed in the evidence file; summaries are validated against the compiled code where a pure function is involved).')
CHECKS = {
 'C15': ('Bounded symbolic execution of the real MIR of normpath/LazyBuf/OsBytes/relpath/realdirpath/abs_path: for EVERY byte string up to the length bound z3 shows idempotence, canonical form, location preservation, relpath == reference key, and re-join. Nothing is claimed beyond the bounds, about symlinked directories, or about two spellings on one parallel command line.',
         'World: no symlinks; canonicalize = NotFound | lexical identity; cwd /c/w. ' + TRUST, 'DESIGN.md §5 C15'),
 'C08': ('Bounded symbolic execution of the real jobserver MIR (block_on, ServerState, start, wait_all, ensure_token_or_cheat coroutine, do_force_return_tokens) driven by the call patterns of builder::run over an environment model in which every number of child exits, token arrival/theft, cheating children, select timeouts and cheat answers per wake-up is explored; the token ledger (pipe + other holders - cheat bytes + own) is decided on every path; ServerState methods additionally from an arbitrary symbolic state; JobServer::setup (which token / cheat pipe, how many tokens) for every -j and inherited MAKEFLAGS / REDO_CHEATFDS; the cheat callback of builder::run. builder::run itself is not executed.',
         'Environment contract and bounds are in evidence.assumptions/bounds. ' + TRUST, 'DESIGN.md §5 C08'),
 'C09': ('Same exploration as C08, judged for aborts (every panic/assert/overflow/borrow error inside the jobserver code), for block_on giving up with "JobServer deadlock" and for select() blocking with nothing that can ever become ready. Claimed for the jobserver state machine under call sequences that respect its documented preconditions; lock hand-over between processes and the scheduling inside builder::run are outside.',
         'Environment contract and bounds are in evidence.assumptions/bounds. ' + TRUST, 'DESIGN.md §5 C09'),
}
DEPS_NOTE = 'One step from an arbitrary state (no history exploration, no representation invariant). Stamps: 3 recorded x 4 on-disk classes; run ids as integers; SQL statements succeed. ' + TRUST
CHECKS.update({
 'C01': ('For EVERY state of the Files/Deps tables and the filesystem over N files (every column symbolic, every edge shape incl. cycles, created-mode edges and the ALWAYS pseudo-file) the verdict of the real deps::is_dirty - executed from its MIR together with the real File methods and the SQL text they issue - equals the documented dirtiness semantics, so a file that is failed / never built / older than a dependency / different on disk / above a dirty dependency is never answered Clean; plus: redo-unlocked re-evaluates the primary target under the caller\'s lock. Histories, concurrency and the scheduling in builder::run are outside.', DEPS_NOTE, 'DESIGN.md §5 C01'),
 'C02': ('Kernel agreement as in C01 (no over- and no under-reporting w.r.t. the reference semantics), a quiescent state is answered Clean and a file checked in this run is answered without touching the disk, and the two-phase replacement of a target\'s dependency list (zap_deps1 / add_dep / zap_deps2 through the real SQL text) leaves exactly the declared edges, or the old ones if the job never finished. Which .do processes actually start is decided in builder::run and is outside.', DEPS_NOTE, 'DESIGN.md §5 C02'),
 'C03': ('Kernel agreement incl. the uncertain verdict (NeedTargets) for checksummed targets at depth 1..N, ifchange::should_build\'s handling of it, redo-stamp\'s changed-vs-checked marking for equal / different digests, and the out-of-band path re-evaluating the primary target. SHA-1 itself and process plumbing are outside.', DEPS_NOTE, 'DESIGN.md §5 C03'),
 'C05': ('Kernel only: a failed target is never Clean (kernel agreement), set_failed records the failure in the current run and keeps is_generated iff the file still exists, ifchange::should_build refuses a target that already failed in this run with exit 32, the job completion blocks of builder::run turn every non-zero status (symbolic i32, negative for signals) into an error, scripts run under sh -e for every -v/-x combination. The stop / keep-going scheduling in builder::run is NOT claimed.', DEPS_NOTE, 'DESIGN.md §5 C05'),
 'C12': ('Detectors only: the recorded-graph walk reports CyclicDependency exactly on the cycles it reaches (kernel agreement over all graphs on N files), cycles::add/check through the real REDO_CYCLES encoding, and Lock::try_lock / wait_lock consult it before any fcntl. Bounded-time termination of blocked processes is NOT claimed.', DEPS_NOTE, 'DESIGN.md §5 C12'),
 'C14': ('Kernel agreement incl. created-mode edges (dirty iff the path exists) and the ALWAYS pseudo-file (changed in every run); redo-ifcreate refuses an existing path and otherwise commits a created-mode edge; redo-always commits an edge to ALWAYS and stamps it changed in this run. "Exactly once per run with several parallel dependents" is NOT claimed.', DEPS_NOTE, 'DESIGN.md §5 C14'),
 'C17': ('is_source / is_target never both, pseudo files neither, existing non-generated file is a source, generated file as recorded is a target (every row x filesystem state); redo-ood runs the same kernel (agreement as in C01) and leaves every row as it found it (no commit). The over-approximation bounds relative to the builder are argued from the shared kernel, not separately decided.', DEPS_NOTE, 'DESIGN.md §5 C17'),
})
CHECKS['C13'] = ('For EVERY ASCII file name up to the length bound at every directory depth up to the bound, the candidate list produced by the real possible_do_files / DefaultDoFiles / RecursiveDoFilesState / path_splits MIR equals the order written in the property statement (do_dir, do_file, $2 base name, matched extension), and do_dir/(base_name+ext) is the target; find_do_file probes candidates in that order, stops at the first existing one, records an m-edge on it and a c-edge on every earlier candidate. The invocation of the chosen script is decided on the real child closure of BuildJob::start_self executed up to execvp (cwd = script directory, $1 relative to it, $2 without the matched extension, $3 beside the target, #! line, REDO_TARGET, cycle list) for 9 target/.do shapes, and redo-whichdo prints exactly the candidates considered up to the first existing one. That adding or removing a candidate later triggers a rebuild follows from the recorded edges together with the kernel obligations of C02/C14.',
  'Symbolic names are ASCII; unclean spellings by template; ouroboros plumbing stubbed; the child closure is run at the modelled fork. ' + TRUST, 'DESIGN.md §5 C13')
CHECKS['C18'] = ('Record codec only: for EVERY kind / text / target name up to the length bound (every ASCII byte symbolic) and every pid / exit status (symbolic i32), Meta::parse(format(m)) returns the same kind, pid and text (including texts that look like structured records), parse rejects strings with a newline, parse_done_text inverts the "done" text for names with spaces, is_valid_log_line accepts exactly lines with one newline at the end, and log::clean_line output is always a valid line - all on the real MIR of logs.rs / log.rs. That every stderr line of every script appears once, in order, under its target at any -j (the log follower racing with writers) is NOT claimed.',
  'Integer and float formatting are opaque tokens with an injectivity axiom. ' + TRUST, 'DESIGN.md §5 C18')
BUILD_NOTE = ('One build job of one target; the forked child (sh -e x.do) is not executed - its observable outcome is an input. Filesystem, '
              'database and process model in specs/buildworld.py; builder::run (the scheduler) is not executed, the one fact taken from '
              'it (commit-on-drop of the transaction handed to BuildJob::start) is read from its source text. ' + TRUST)
CHECKS['C04'] = ('For EVERY script outcome (exit status symbolic i32; stdout / $3 / neither / both; $1 untouched / rewritten / removed), every '
  'prior target state (absent, file, directory) and prior Files row (all columns symbolic), with File::create and rename optionally failing: '
  'on every path of the real BuildJob::record_new_state the only operations that ever act on the target are rename(tmp -> target) and '
  'unlink(target), they happen only if the script exited 0 without touching $1 and without producing both outputs, the documented status '
  '(206 / 207 / script status / non-zero on internal failure) is returned, no temporary file is left, on failure the target is exactly as '
  'the script left it, on success it is the complete capture or the $3 file, and the Files row afterwards matches. What the child does '
  'with its file descriptors and SIGKILL of redo itself (C10) are outside.', BUILD_NOTE, 'DESIGN.md §5 C04')
CHECKS['C10'] = ('One whole build job (real start_self, the script as an input, the real job future with record_new_state and the final '
  'commit) x a kill immediately before every state-changing effect (unlink, create, copy, rename, commit, script effects): on the world the '
  'kill leaves behind (filesystem as of the prefix, database as of the last commit) the real is_dirty and the real start_self of the next '
  'run must not walk away from the target as if it were a user file, must not have lost dirtiness, and must remove a stale temporary file '
  'before the script starts. Power loss (synchronous=off), kills inside SQLite, locks and multi-process trees are outside.',
  BUILD_NOTE, 'DESIGN.md §5 C10')
CHECKS['C11'] = ('For EVERY prior Files row (all columns symbolic, no representation invariant assumed), filesystem state of the '
  'target, placement of .do files and stale temporary file: the real BuildJob::start_self never starts a script for, and never unlinks / '
  'renames / creates, an existing file that is not generated, is marked overridden, or whose recorded stamp differs from the disk in mtime '
  'or size; it answers success, and the committed row no longer calls it a target; once such a file is absent the job is started again; '
  '"no rule" gives success for an existing file and failure for an absent one. record_new_state (the only code that replaces or removes a '
  'target) is only reachable through a started job. What a user\'s .do script deletes itself is outside.', BUILD_NOTE, 'DESIGN.md §5 C11')
NA = {
 'C06': 'Mutual exclusion of .do executions is a statement about interleavings of independent OS processes over kernel fcntl() range locks and SQLite transactions; no function of this crate decides it in isolation, so there is nothing for a bounded symbolic execution of the real code to be run on (a hand-written process model would be a different technique). The encodable fragments are checked elsewhere: REDO_UNLOCKED is only used for the lock the caller holds (C01/C03 orchestration obligation), Lock::try_lock/wait_lock consult the cycle detector first (C12).',
 'C07': 'Quantifies over process schedules, -j and script durations inside builder::run (a 3500-line lowered coroutine driving FuturesUnordered and child processes) and compares outcomes with the serial build; the engine executes single-process MIR paths, not schedules of several processes. The single-process kernel facts it relies on (built in this run => Clean, checked in this run => answered without stat) are decided under C02/C14.',
 'C16': 'The failure mode is SQLite\'s busy/locked protocol between processes (bundled C code + kernel file locks); the Rust side only chooses the transaction mode. Whether those choices avoid SQLITE_BUSY is a statement about SQLite\'s semantics and OS scheduling, not about code that can be executed symbolically here.',
}
man = {
 'version': 1,
 'setup_cmd': './tools/setup.sh',
 'hooks': {'guard': 'redo_verif', 'enable': 'none needed: replay/harness modules are appended to a scratch copy of /repo (never to /repo); no hook commits exist',
           'baseline_off_cmd': 'cd /repo && cargo test --workspace --no-fail-fast --offline', 'source_commits': [], 'add_only': True},
 'engines': [{'name': 'mirsym', 'path': '/verif/mirsym', 'serves_properties': sorted(CHECKS),
              'kind_free_text': 'forking symbolic interpreter over rustc MIR text (-Zunpretty=mir, regenerated from /repo on every run, content-hash cached) with z3 deciding branch feasibility and property obligations per path class; counterexamples are replayed against the natively compiled crate (unit-level drivers appended to a scratch copy, or the real binaries) before being reported'}],
 'checks': [],
 'not_applicable': [],
 'notes': 'See DESIGN.md. exit 0 = held within stated bounds; 1 = VIOLATION (natively reproduced, not a listed known finding); 2 = inconclusive (never prints VIOLATION). Genuine defects repaired in /repo are listed in known_findings.json (fixed:).',
}
for p in props:
    i = p['id']
    if i in CHECKS:
        text, note, ref = CHECKS[i]
        man['checks'].append({'property_id': i, 'quick_cmd': './check %s --tier quick' % i, 'thorough_cmd': './check %s --tier thorough' % i,
                              'evidence_file': '/verif/evidence/%s.json' % i, 'replay_cmd_template': './check %s --replay {path}' % i,
                              'engine': 'mirsym', 'level_claimed': {'category': 'model_checking', 'text': text, 'design_ref': ref},
                              'level_note': note, 'technique': TECH})
    else:
        man['not_applicable'].append({'property_id': i, 'reason': NA.get(i, 'check not built yet in this round (see DESIGN.md for the plan); nothing is claimed')})
json.dump(man, open(os.path.join(V, 'MANIFEST.json'), 'w'), indent=1)
print('checks:', [c['property_id'] for c in man['checks']])
