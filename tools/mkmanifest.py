#!/usr/bin/env python3
"""Regenerate MANIFEST.json from the table below (kept in one place so that claims, not_applicable and specs stay in sync)."""
import json, os
V = os.path.dirname(os.path.dirname(os.path.abspath(__file__)))
props = [json.loads(l) for l in open(os.path.join(V, 'properties.jsonl'))]
TECH = 'symbolic execution of rustc MIR + z3 (SMT) per path class; native replay of counterexamples'
TRUST = ('Trusted: rustc MIR lowering (nightly dump vs stable binary), z3, the std/nix/rusqlite summaries and the environment model '
         '(listed in the evidence file; summaries are validated against the compiled code where a pure function is involved).')
CHECKS = {
 'C15': ('Bounded symbolic execution of the real MIR of normpath/LazyBuf/OsBytes/relpath/realdirpath/abs_path: for EVERY byte string up to the length bound z3 shows idempotence, canonical form, location preservation, relpath == reference key, and re-join. Nothing is claimed beyond the bounds, about symlinked directories, or about two spellings on one parallel command line.',
         'World: no symlinks; canonicalize = NotFound | lexical identity; cwd /c/w. ' + TRUST, 'DESIGN.md §5 C15'),
 'C08': ('Bounded symbolic execution of the real jobserver MIR (block_on, ServerState, start, wait_all, ensure_token_or_cheat coroutine, do_force_return_tokens) driven by the call patterns of builder::run over an environment model in which every number of child exits, token arrival/theft, cheating children, select timeouts and cheat answers per wake-up is explored; the token ledger (pipe + other holders - cheat bytes + own) is decided on every path; ServerState methods additionally from an arbitrary symbolic state. builder::run itself is not executed.',
         'Environment contract and bounds are in evidence.assumptions/bounds. ' + TRUST, 'DESIGN.md §5 C08'),
 'C09': ('Same exploration as C08, judged for aborts (every panic/assert/overflow/borrow error inside the jobserver code), for block_on giving up with "JobServer deadlock" and for select() blocking with nothing that can ever become ready. Claimed for the jobserver state machine under call sequences that respect its documented preconditions; lock hand-over between processes and the scheduling inside builder::run are outside.',
         'Environment contract and bounds are in evidence.assumptions/bounds. ' + TRUST, 'DESIGN.md §5 C09'),
}
NA = {
}
man = {
 'version': 1,
 'setup_cmd': './tools/setup.sh',
 'hooks': {'guard': 'redo_verif', 'enable': 'none needed: replay/harness modules are appended to a scratch copy of /repo (never to /repo); no hook commits exist',
           'baseline_off_cmd': 'cd /repo && cargo test --workspace --no-fail-fast --offline', 'source_commits': [], 'add_only': True},
 'engines': [{'name': 'mirsym', 'path': '/verif/mirsym', 'serves_properties': sorted(CHECKS),
              'kind_free_text': 'forking symbolic interpreter over rustc MIR text (-Zunpretty=mir, regenerated from /repo on every run, content-hash cached) with z3 deciding branch feasibility and property obligations per path class; counterexamples are replayed against the natively compiled crate (unit-level drivers appended to a scratch copy, or the real binaries) before being reported'}],
 'checks': [],
 'not_applicable': [],
 'notes': 'See DESIGN.md. exit 0 = held within stated bounds; 1 = VIOLATION (natively reproduced, not a listed known finding); 2 = inconclusive (never prints VIOLATION). Genuine defects repaired in /repo are listed in known_findings.json (fixed:).',
}
for p in props:
    i = p['id']
    if i in CHECKS:
        text, note, ref = CHECKS[i]
        man['checks'].append({'property_id': i, 'quick_cmd': './check %s --tier quick' % i, 'thorough_cmd': './check %s --tier thorough' % i,
                              'evidence_file': '/verif/evidence/%s.json' % i, 'replay_cmd_template': './check %s --replay {path}' % i,
                              'engine': 'mirsym', 'level_claimed': {'category': 'model_checking', 'text': text, 'design_ref': ref},
                              'level_note': note, 'technique': TECH})
    else:
        man['not_applicable'].append({'property_id': i, 'reason': NA.get(i, 'check not built yet in this round (see DESIGN.md for the plan); nothing is claimed')})
json.dump(man, open(os.path.join(V, 'MANIFEST.json'), 'w'), indent=1)
print('checks:', [c['property_id'] for c in man['checks']])
