#!/usr/bin/env python3
"""usage: keep_seed.py <seed dir> <id> <confirm line> <detected-by json>  -- store a confirmed seeded change under /verif/seeded/<id>/"""
import json, os, shutil, sys
sd, sid, confirm, det = sys.argv[1:5]
dst = os.path.join('/verif/seeded', sid)
os.makedirs(dst, exist_ok=True)
for f in ('patch.diff', 'demo.sh'):
    shutil.copy2(os.path.join(sd, f), os.path.join(dst, f))
for f in os.listdir(sd):
    if f.endswith('.c') or f.endswith('.py') or f.endswith('.rs'):
        shutil.copy2(os.path.join(sd, f), os.path.join(dst, f))
meta = json.load(open(os.path.join(sd, 'meta.json')))
out = {'id': sid, 'property': meta.get('property'), 'breaks': meta.get('summary'), 'needs': meta.get('needs'), 'files': meta.get('files'),
       'author': 'independent sub-agent (given only the property text and a scratch worktree)',
       'confirmed': {'how': 'tools/confirm_seed.sh in a scratch worktree: patch applies, cargo build ok, cargo test --workspace --no-fail-fast --offline, demo.sh with and without the change',
                     'result': confirm},
       'checks': json.loads(det), 'agent_ran': meta.get('ran')}
json.dump(out, open(os.path.join(dst, 'meta.json'), 'w'), indent=1)
print('kept', sid)
