#!/bin/sh
# run one tier of every claimed check; print one summary line each.  usage: runall.sh [quick|thorough] [logdir]
cd "$(dirname "$0")/.."
tier=${1:-quick}
logdir=${2:-/var/tmp}
mkdir -p "$logdir"
for id in $(python3 -c "import json;print(' '.join(c['property_id'] for c in json.load(open('MANIFEST.json'))['checks']))"); do
  s=$(date +%s)
  ./check $id --tier $tier > "$logdir/runall-$id.log" 2>&1
  rc=$?
  e=$(date +%s)
  echo "$id exit=$rc $((e-s))s $(grep -c '^VIOLATION' "$logdir/runall-$id.log") violations; $(grep 'INCONCLUSIVE' "$logdir/runall-$id.log" | head -2 | cut -c1-200)"
done
