#!/bin/sh
# run the quick tier of every claimed check; print one summary line each
cd "$(dirname "$0")/.."
tier=${1:-quick}
for id in $(python3 -c "import json;print(' '.join(c['property_id'] for c in json.load(open('MANIFEST.json'))['checks']))"); do
  s=$(date +%s)
  ./check $id --tier $tier > /var/tmp/runall-$id.log 2>&1
  rc=$?
  e=$(date +%s)
  echo "$id exit=$rc $((e-s))s $(grep -c '^VIOLATION' /var/tmp/runall-$id.log) violations; $(grep 'INCONCLUSIVE' /var/tmp/runall-$id.log | head -2 | cut -c1-200)"
done
