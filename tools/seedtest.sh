#!/bin/sh
# usage: seedtest.sh <patch.diff> <Cxx> [Cyy ...]   -- apply a seeded change to /repo, run the checks, undo it
patch="$1"; shift
cd /repo || exit 2
if [ -n "$(git status --porcelain --untracked-files=no)" ]; then echo "/repo not clean" >&2; exit 2; fi
git apply "$patch" || { echo "patch does not apply" >&2; exit 2; }
cd /verif
for id in "$@"; do
  ./check $id > /var/tmp/seedtest-$id.log 2>&1
  rc=$?
  echo "$id exit=$rc"
  grep "^VIOLATION\|^KNOWN" /var/tmp/seedtest-$id.log | cut -c1-220
  [ $rc -eq 2 ] && grep "INCONCLUSIVE" /var/tmp/seedtest-$id.log | head -3 | cut -c1-300
done
git -C /repo checkout -- .
