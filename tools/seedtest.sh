#!/bin/sh
# usage: seedtest.sh <patch.diff> <Cxx> [Cyy ...]
# Runs the checks against a seeded change WITHOUT touching /repo: the patch is applied to a throw-away worktree of /repo's HEAD
# and the checks are pointed at it (VERIF_REPO); evidence of these runs goes to a scratch directory.  The worktree and its
# scratch files are removed afterwards.  (Equivalent to `git -C /repo apply`, run, `git -C /repo checkout -- .`, but several
# can run side by side and long background runs on /repo are not disturbed.)
patch=$(realpath "$1"); shift
wt=/var/tmp/seedrun-$$
git -C /repo worktree add -q --detach "$wt" HEAD || exit 2
trap 'git -C /repo worktree remove --force "$wt" >/dev/null 2>&1; rm -rf "/var/tmp/redo-verif-seed-$$" "/var/tmp/seed-evidence-$$"' EXIT
git -C "$wt" apply "$patch" || { echo "patch does not apply" >&2; exit 2; }
cd /verif
for id in "$@"; do
  VERIF_REPO="$wt" VERIF_SCRATCH="/var/tmp/redo-verif-seed-$$" VERIF_EVIDENCE_DIR="/var/tmp/seed-evidence-$$" VERIF_SHOW_CAND=${VERIF_SHOW_CAND:-} ./check $id > /var/tmp/seedtest-$id-$$.log 2>&1
  rc=$?
  echo "$id exit=$rc"
  grep "^VIOLATION\|^KNOWN" /var/tmp/seedtest-$id-$$.log | cut -c1-220
  grep "  role=" /var/tmp/seedtest-$id-$$.log | cut -c1-300
  [ $rc -eq 2 ] && grep "INCONCLUSIVE" /var/tmp/seedtest-$id-$$.log | head -3 | cut -c1-300
done
