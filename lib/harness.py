"""Common driver for the per-property specs: tiers, obligations, witnesses (vacuity guards), candidate counterexamples,
native replay before reporting, known findings, evidence file, exit protocol.

exit 0  every obligation discharged on every explored path class, no bound exceeded, witnesses reached
exit 1  a counterexample that REPRODUCED natively and is not a listed known finding  (prints VIOLATION ...)
exit 2  inconclusive (engine lacks semantics somewhere, bound exceeded, solver unknown, validation or replay mismatch)
"""
import collections
import json
import os
import sys
import time
import traceback

import z3

from . import prep

VERIF = prep.VERIF
# evidence goes to /verif/evidence; tools/seedtest.sh redirects it so that runs against seeded changes never overwrite it
EVDIR = os.environ.get('VERIF_EVIDENCE_DIR', os.path.join(VERIF, 'evidence'))


def log(*a):
    print(*a, file=sys.stderr, flush=True)


class Check:
    def __init__(self, pid, technique, need_bin=False, debug_assertions=False, engine_kw=None):
        self.pid = pid
        self.technique = technique
        self.t0 = time.time()
        self.tier = os.environ.get('VERIF_TIER', 'quick')
        args = sys.argv[1:]
        if '--tier' in args:
            self.tier = args[args.index('--tier') + 1]
        if self.tier not in ('quick', 'thorough'):
            self.tier = 'quick'
        self.replay_only = args[args.index('--replay') + 1] if '--replay' in args else None
        try:
            self.seed = int(os.environ.get('VERIF_SEED', '0'))
        except ValueError:
            self.seed = 0
        self.obl = collections.OrderedDict()
        self.candidates = []
        self.witness = collections.OrderedDict()
        self.samples = []
        self.validated = 0
        self.assumptions = []
        self.bounds = {}
        self.inconclusive = []
        self.notes = []
        self.kani = None
        self.eng = prep.engine(need_bin=need_bin, debug_assertions=debug_assertions, **(engine_kw or {}))
        if os.environ.get('VERIF_MAXPATHS'):
            self.eng.max_paths = int(os.environ['VERIF_MAXPATHS'])
        self.known = load_known()

    # ------------------------------------------------------------------
    def thorough(self):
        return self.tier == 'thorough'

    def goal(self, name, reached=True):
        """vacuity guard: a witness goal that some explored path must reach"""
        if name not in self.witness:
            self.witness[name] = False
        if reached:
            self.witness[name] = True

    def explore(self, name, run_one, judge, sample=None, max_samples=3):
        """explore all feasible path classes of run_one(); judge(outcome, val, path) -> None | candidate dict
        ({'role':..., 'what':..., 'witness':{...}})."""
        eng = self.eng
        st = self.obl.setdefault(name, {'paths': 0, 'queries': 0, 'steps': 0, 'failed': 0, 'wall_s': 0.0, 'outcomes': collections.Counter()})
        q0, s0, p0 = eng.stats['queries'], eng.stats['steps'], eng.stats['paths']
        t0 = time.time()
        nsamp = [0]

        def on_end(outcome, val, path):
            st['outcomes'][outcome] += 1
            if outcome == 'unsupported':
                self.inconclusive.append('%s: unsupported: %s' % (name, val))
                return
            if outcome == 'bound':
                self.inconclusive.append('%s: bound exceeded: %s' % (name, val))
                return
            try:
                cand = judge(outcome, val, path)
            except Exception as e:  # judge itself may hit Unsupported
                from mirsym.values import Unsupported, PathDead
                if isinstance(e, PathDead):
                    return
                if isinstance(e, Unsupported):
                    self.inconclusive.append('%s: unsupported in oracle: %s' % (name, e))
                    return
                raise
            if cand:
                st['failed'] += 1
                cand = dict(cand)
                cand['obligation'] = name
                self.candidates.append(cand)
            if sample and nsamp[0] < max_samples:
                try:
                    s = sample(outcome, val, path)
                    if s is not None:
                        self.samples.append({'obligation': name, 'case': s})
                        nsamp[0] += 1
                except Exception:
                    pass

        jobs = int(os.environ.get('VERIF_JOBS', '14'))
        try:
            if jobs <= 1:
                eng.explore(run_one, on_end, label=name)
            else:
                self._explore_parallel(name, run_one, on_end, st, jobs)
        except Exception as e:
            self.inconclusive.append('%s: engine error: %s' % (name, e))
            log(traceback.format_exc())
        st['paths'] += eng.stats['paths'] - p0
        st['queries'] += eng.stats['queries'] - q0
        st['steps'] += eng.stats['steps'] - s0
        st['wall_s'] += time.time() - t0
        if os.environ.get('VERIF_PROFILE'):
            top = sorted(eng.fork_sites.items(), key=lambda kv: -kv[1])[:10]
            log('    fork sites: %s' % top)
            eng.fork_sites.clear()
        log('[%s] %-34s paths=%d queries=%d steps=%d failed=%d %.1fs %s' % (
            self.pid, name, st['paths'], st['queries'], st['steps'], st['failed'], st['wall_s'], dict(st['outcomes'])))
        return st

    def _explore_parallel(self, name, run_one, on_end, st, jobs):
        """depth-first exploration by re-execution is embarrassingly parallel: explore sequentially until enough unexplored
        decision prefixes are queued, hand disjoint sets of prefixes to forked workers, merge what they found.  Sub-trees
        differ wildly in size, so workers run in rounds of a bounded time slice and hand back the prefixes they did not get
        to; these are redistributed in the next round."""
        import pickle
        eng = self.eng
        eng.explore(run_one, on_end, label=name, stop_when_pending=4 * jobs, bfs=True)
        todo = list(eng.pending)
        eng.pending = []
        slice_s = float(os.environ.get('VERIF_SLICE_S', '5'))
        rounds = 0
        while todo:
            rounds += 1
            chunks = [todo[i::jobs] for i in range(jobs)]
            chunks = [c for c in chunks if c]
            todo = []
            kids = []
            base = {'cand': len(self.candidates), 'samples': len(self.samples), 'inc': len(self.inconclusive)}
            for c in chunks:
                r, w = os.pipe()
                pid = os.fork()
                if pid == 0:
                    os.close(r)
                    rc = 0
                    try:
                        for k in eng.stats:
                            eng.stats[k] = 0
                        outcomes0 = dict(st['outcomes'])
                        failed0 = st['failed']
                        eng.explore(run_one, on_end, label=name, pending=c, deadline=time.time() + slice_s)
                        out = {'stats': eng.stats, 'entered': eng.entered, 'used': eng.used_summaries,
                               'outcomes': {k: v - outcomes0.get(k, 0) for k, v in st['outcomes'].items()},
                               'failed': st['failed'] - failed0,
                               'cands': jsonable(self.candidates[base['cand']:][:200]), 'ncands': len(self.candidates) - base['cand'],
                               'samples': jsonable(self.samples[base['samples']:]), 'inc': self.inconclusive[base['inc']:][:50],
                               'witness': dict(self.witness), 'fork_sites': eng.fork_sites, 'leftover': list(eng.pending)}
                        data = pickle.dumps(out)
                    except BaseException as e:
                        data = pickle.dumps({'error': '%s: %s' % (type(e).__name__, e), 'tb': traceback.format_exc()})
                        rc = 1
                    with os.fdopen(w, 'wb') as fh:
                        fh.write(data)
                    os._exit(rc)
                os.close(w)
                kids.append((pid, r))
            for pid, r in kids:
                with os.fdopen(r, 'rb') as fh:
                    data = fh.read()
                os.waitpid(pid, 0)
                try:
                    out = pickle.loads(data)
                except Exception as e:
                    self.inconclusive.append('%s: worker produced no result (%s)' % (name, e))
                    continue
                if 'error' in out:
                    self.inconclusive.append('%s: worker failed: %s' % (name, out['error']))
                    log(out.get('tb', ''))
                    continue
                todo.extend(out.get('leftover', []))
                for k, v in out['stats'].items():
                    if k == 'max_query_s':
                        eng.stats[k] = max(eng.stats[k], v)
                    else:
                        eng.stats[k] += v
                eng.entered |= out['entered']
                eng.used_summaries |= out['used']
                for k, v in out['outcomes'].items():
                    st['outcomes'][k] += v
                st['failed'] += out['failed']
                self.candidates.extend(out['cands'])
                if len(self.samples) < 12:
                    self.samples.extend(out['samples'][:2])
                self.inconclusive.extend(out['inc'])
                for k, v in out['witness'].items():
                    if v:
                        self.witness[k] = True
                    else:
                        self.witness.setdefault(k, False)
                for k, v in out['fork_sites'].items():
                    eng.fork_sites[k] = eng.fork_sites.get(k, 0) + v
            # grow the slice a little so that very large explorations do not pay the fork overhead too often
            slice_s = min(slice_s * 1.5, 120.0)

    def model_values(self, path, terms):
        """concrete values for z3 terms under the path condition (for witnesses)"""
        s = path.solver
        if s.check() != z3.sat:
            return None
        m = s.model()
        out = []
        for t in terms:
            if isinstance(t, (int, bool)):
                out.append(t)
            else:
                v = m.eval(t, model_completion=True)
                out.append(z3.is_true(v) if z3.is_bool(v) else v.as_long())
        return out

    # ------------------------------------------------------------------
    def finish(self, replay=None):
        """replay(cand) -> (reproduced: bool, detail: str).  Writes evidence and exits."""
        eng = self.eng
        violations = []
        known_hits = []
        rc = 0
        for name, reached in self.witness.items():
            if not reached:
                self.inconclusive.append('witness goal not reached: %s' % name)
        if eng.stats['bound_exceeded']:
            self.inconclusive.append('bound_exceeded=%d' % eng.stats['bound_exceeded'])
        # de-duplicate candidates by role
        by_role = collections.OrderedDict()
        for c in self.candidates:
            by_role.setdefault(c.get('role', c['obligation']), []).append(c)
        os.makedirs(os.path.join(EVDIR, 'replays'), exist_ok=True)
        for role, cs in by_role.items():
            # several path classes may violate the same obligation; some need an environment fault that cannot be provoked
            # natively.  Try a few of them (those the spec prefers first) until one reproduces.
            order = sorted(range(len(cs)), key=lambda i: (cs[i].get('prio', 0), i))
            tried = 0
            c = cs[order[0]]
            reproduced, detail = (False, 'no replay driver')
            seen_lines = set()
            for i in order:
                cand = cs[i]
                key = json.dumps(jsonable(cand.get('witness', {}).get('line') or cand.get('native_scenario') or i))
                if key in seen_lines:
                    continue
                seen_lines.add(key)
                tried += 1
                if tried > int(os.environ.get('VERIF_REPLAY_TRIES', '4')):
                    break
                r, d = (False, 'no replay driver')
                if replay is not None:
                    try:
                        r, d = replay(cand)
                    except Exception as e:
                        r, d = False, 'replay driver failed: %s' % e
                        log(traceback.format_exc())
                cand['replay'] = {'reproduced': r, 'detail': d}
                if r or tried == 1:
                    c, reproduced, detail = cand, r, d
                if r:
                    break
            c['replay'] = {'reproduced': reproduced, 'detail': detail}
            c['count'] = len(cs)
            if not reproduced:
                if os.environ.get('VERIF_SHOW_CAND'):
                    log('CANDIDATE %s' % json.dumps(jsonable(c))[:3000])
                self.inconclusive.append('counterexample for %s did not reproduce natively (%s): %s' % (role, detail, c.get('what')))
                continue
            k = match_known(self.known, self.pid, role)
            rp = os.path.join(EVDIR, 'replays', '%s-%s.json' % (self.pid, safe(role)))
            with open(rp, 'w') as fh:
                json.dump(jsonable(c), fh, indent=1)
            if k is not None:
                known_hits.append((k, c))
            else:
                violations.append((c, rp))
        for k, c in known_hits:
            print('KNOWN-FINDING: property=%s %s' % (self.pid, k['what']))
        for c, rp in violations:
            print('VIOLATION property=%s replay=%s' % (self.pid, rp))
            log('  role=%s what=%s' % (c.get('role'), c.get('what')))
        if violations:
            rc = 1
        elif self.inconclusive:
            rc = 2
        self.write_evidence(violations, known_hits, rc)
        seen_inc = collections.Counter(self.inconclusive)
        for r, n in list(seen_inc.items())[:12]:
            log('[%s] INCONCLUSIVE%s: %s' % (self.pid, (' (x%d)' % n) if n > 1 else '', r))
        log('[%s] tier=%s exit=%d paths=%d queries=%d solver=%.1fs wall=%.1fs' % (
            self.pid, self.tier, rc, eng.stats['paths'], eng.stats['queries'], eng.stats['solver_s'], time.time() - self.t0))
        sys.stdout.flush()
        sys.exit(rc)

    def write_evidence(self, violations, known_hits, rc):
        eng = self.eng
        paths = sum(o['paths'] for o in self.obl.values())
        queries = sum(o['queries'] for o in self.obl.values())
        ev = {
            'property_id': self.pid,
            'tier': self.tier,
            'seed': self.seed,
            'level': 'model_checking',
            'wall_s': round(time.time() - self.t0, 2),
            'violations': len(violations),
            'coverage': {
                'states': max(paths, 1),
                'transitions': max(queries, paths, 1),
                'traces_validated_against_impl': self.validated,
                'samples': jsonable(self.samples[:12]) or [{'note': 'no sample recorded'}],
                'exhaustive': False,
                'explanation': 'states = feasible path classes of the real MIR explored by the symbolic executor (each class stands '
                               'for all inputs satisfying its path condition); transitions = SMT queries discharged (branch '
                               'feasibility + property obligations).',
                'technique': self.technique,
                'obligations': len(self.obl),
                'discharged': sum(1 for v in self.obl.values() if v['failed'] == 0 and not v['outcomes'].get('unsupported') and not v['outcomes'].get('bound')),
                'obligation_details': {k: {'paths': v['paths'], 'queries': v['queries'], 'mir_steps': v['steps'], 'failed': v['failed'],
                                    'wall_s': round(v['wall_s'], 2), 'outcomes': dict(v['outcomes'])} for k, v in self.obl.items()},
                'bounds': self.bounds,
                'bound_exceeded': eng.stats['bound_exceeded'],
                'witness_goals': dict(self.witness),
                'functions_encoded': sorted(describe_body(eng, n) for n in eng.entered),
                'summaries_used': sorted(eng.used_summaries),
                'solver': {'name': 'z3 ' + z3.get_version_string(), 'queries': eng.stats['queries'],
                           'total_s': round(eng.stats['solver_s'], 3), 'max_query_s': round(eng.stats['max_query_s'], 4)},
                'mir': {'dump': os.path.basename(getattr(eng, 'mir_dir', '')), 'regenerated_from': prep.REPO,
                        'mir_steps': eng.stats['steps']},
                'kani': self.kani,
                'known_findings_printed': [k['what'] for k, _ in known_hits],
                'inconclusive': self.inconclusive[:40],
                'exit_code': rc,
                'notes': self.notes,
            },
            'assumptions': self.assumptions,
        }
        os.makedirs(EVDIR, exist_ok=True)
        ev = jsonable(ev)
        try:
            import jsonschema
            sch = '/root/.vp/EVIDENCE.schema.json'
            if os.path.exists(sch):
                jsonschema.validate(ev, json.load(open(sch)))
        except ImportError:
            pass
        with open(os.path.join(EVDIR, self.pid + '.json'), 'w') as fh:
            json.dump(ev, fh, indent=1, sort_keys=False)


def describe_body(eng, name):
    b = eng.bodies.get(name)
    if b is not None and getattr(b, 'file', None):
        return '%s (%s:%s)' % (name, b.file, b.line)
    return name


def safe(s):
    return ''.join(ch if ch.isalnum() or ch in '-_.' else '_' for ch in s)[:80]


def jsonable(v):
    if isinstance(v, dict):
        return {str(k): jsonable(x) for k, x in v.items()}
    if isinstance(v, (list, tuple)):
        return [jsonable(x) for x in v]
    if isinstance(v, (str, int, float, bool)) or v is None:
        return v
    if isinstance(v, bytes):
        return v.decode('latin-1')
    return repr(v)


def load_known():
    p = os.path.join(VERIF, 'known_findings.json')
    if not os.path.exists(p):
        return {'findings': [], 'fixed': []}
    return json.load(open(p))


def match_known(known, pid, role):
    for k in known.get('findings', []):
        if k.get('property') == pid and k.get('role') == role:
            return k
    return None
