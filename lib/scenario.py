"""End-to-end replays with the real binaries: build `redo` from a scratch copy of /repo's working tree (stable toolchain, the
repository's lockfile), lay out a throw-away project directory and run a shell scenario in it.  Used only to confirm
solver counterexamples whose manifestation depends on the orchestration between processes."""
import fcntl
import os
import shutil
import subprocess
import time

from . import prep

BINARIES = ['redo', 'redo-always', 'redo-ifchange', 'redo-ifcreate', 'redo-log', 'redo-ood', 'redo-sources', 'redo-stamp',
            'redo-targets', 'redo-unlocked', 'redo-whichdo']


class Scenario:
    def __init__(self, log=None):
        self.src = os.path.join(prep.SCRATCH_ROOT, 'scenario-src')
        self.target = os.path.join(prep.CACHE, 'target-scenario')
        self.bindir = os.path.join(prep.SCRATCH_ROOT, 'scenario-bin')
        self.key = None
        self.log = log or (lambda m: None)

    def build(self):
        key = prep.tree_hash()
        if self.key == key and os.path.exists(os.path.join(self.bindir, 'redo')):
            return
        os.makedirs(prep.CACHE, exist_ok=True)
        lockf = open(os.path.join(prep.CACHE, '.scenario.lock'), 'w')
        fcntl.flock(lockf, fcntl.LOCK_EX)
        try:
            t0 = time.time()
            prep.make_scratch_copy(self.src)
            # cargo decides freshness by mtime: a tree whose files are OLDER than the last build in this target directory (the
            # unchanged tree after a run against a seeded change, say) would silently keep the previous binary.  Remember which
            # tree the target directory was last built from and touch the sources when it differs.
            stamp = os.path.join(self.target, '.verif-tree-hash')
            last = open(stamp).read().strip() if os.path.exists(stamp) else None
            if last != key:
                now = time.time()
                for root, _, names in os.walk(os.path.join(self.src, 'src')):
                    for n in names:
                        os.utime(os.path.join(root, n), (now, now))
            e = dict(os.environ)
            e.update({'CARGO_NET_OFFLINE': 'true', 'CARGO_TARGET_DIR': self.target})
            r = subprocess.run(['cargo', 'build', '--offline', '--bin', 'redo'], cwd=self.src, env=e, stdout=subprocess.PIPE,
                               stderr=subprocess.PIPE, timeout=3600)
            if r.returncode != 0:
                raise RuntimeError('cargo build failed: ' + r.stderr.decode()[-3000:])
            with open(stamp, 'w') as fh:
                fh.write(key)
            exe = os.path.join(self.target, 'debug', 'redo')
            shutil.rmtree(self.bindir, ignore_errors=True)
            os.makedirs(self.bindir)
            shutil.copy2(exe, os.path.join(self.bindir, 'redo'))
            for b in BINARIES[1:]:
                os.symlink('redo', os.path.join(self.bindir, b))
            self.key = key
            self.log('[scenario] built redo in %.1fs' % (time.time() - t0))
        finally:
            fcntl.flock(lockf, fcntl.LOCK_UN)
            lockf.close()

    def run(self, files, script, timeout=120):
        """files: {relative path: content}; script: sh script run in the project dir -> (rc, stdout+stderr)"""
        self.build()
        proj = os.path.join(prep.SCRATCH_ROOT, 'scn-%d-%d' % (os.getpid(), int(time.time() * 1000) % 1000000))
        os.makedirs(proj)
        try:
            for rel, content in files.items():
                p = os.path.join(proj, rel)
                os.makedirs(os.path.dirname(p), exist_ok=True)
                with open(p, 'w') as fh:
                    fh.write(content)
            e = {k: v for k, v in os.environ.items() if not (k.startswith('REDO') or k in ('MAKEFLAGS', 'DO_BUILT'))}
            e['PATH'] = self.bindir + ':' + e.get('PATH', '/usr/bin:/bin')
            e['RUST_BACKTRACE'] = '0'
            try:
                r = subprocess.run(['sh', '-c', script], cwd=proj, env=e, stdout=subprocess.PIPE, stderr=subprocess.STDOUT,
                                   timeout=timeout, stdin=subprocess.DEVNULL)
                return r.returncode, r.stdout.decode('utf-8', 'replace')
            except subprocess.TimeoutExpired as ex:
                return 124, (ex.stdout or b'').decode('utf-8', 'replace') + '\n[scenario timed out]'
        finally:
            shutil.rmtree(proj, ignore_errors=True)

    def run_sub_redo(self, proj, runid, argv, timeout=120):
        """run one of the real binaries inside an existing project directory *as a sub-redo of run `runid`* (the environment a
        .do script's redo-ifchange sees) -> (rc, output)"""
        self.build()
        e = {k: v for k, v in os.environ.items() if not (k.startswith('REDO') or k in ('MAKEFLAGS', 'DO_BUILT'))}
        e.update({'PATH': self.bindir + ':' + e.get('PATH', '/usr/bin:/bin'), 'RUST_BACKTRACE': '0', 'REDO': '1', 'REDO_BASE': proj,
                  'REDO_STARTDIR': proj, 'REDO_PWD': '', 'REDO_TARGET': '', 'REDO_RUNID': str(runid), 'REDO_LOG': '0', 'REDO_DEPTH': ''})
        try:
            r = subprocess.run(argv, cwd=proj, env=e, stdout=subprocess.PIPE, stderr=subprocess.STDOUT, timeout=timeout,
                               stdin=subprocess.DEVNULL)
            return r.returncode, r.stdout.decode('utf-8', 'replace')
        except subprocess.TimeoutExpired as ex:
            return 124, (ex.stdout or b'').decode('utf-8', 'replace') + '\n[timed out]'

    def cleanup(self):
        shutil.rmtree(self.src, ignore_errors=True)
        shutil.rmtree(self.bindir, ignore_errors=True)
