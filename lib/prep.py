"""Regenerate the MIR dumps from /repo's current working tree (content-hash cached) and build an Engine.

Every check calls `engine()`; the dump is produced from a scratch copy of /repo (never /repo itself):
  1. rsync /repo (minus target/.git/.redo) to a scratch dir outside /repo and /verif;
  2. in the copy only: bump proc-macro2 in Cargo.lock to the cached 1.0.107 and [patch] ahash with the vendored copy
     (both crates enable removed nightly feature gates otherwise; no .rs file is touched);
  3. cargo +nightly rustc -- -Zunpretty=mir -Zmir-include-spans=yes  for the lib and the `redo` bin.
The dumps are cached under /verif/.cache/mir/<sha256 of src/**, Cargo.toml, Cargo.lock>/ so that several checks on the same
tree share one dump; any edit to those files gives a new key and a fresh dump.
"""
import fcntl
import hashlib
import os
import shutil
import subprocess
import sys
import time

REPO = os.environ.get('VERIF_REPO', '/repo')
VERIF = os.path.dirname(os.path.dirname(os.path.abspath(__file__)))
CACHE = os.path.join(VERIF, '.cache')
SCRATCH_ROOT = os.environ.get('VERIF_SCRATCH', '/var/tmp/redo-verif')
RUSTFLAGS_MIR = ['-Zunpretty=mir', '-Zmir-include-spans=yes', '-C', 'overflow-checks=on']


def tree_hash(repo=REPO):
    h = hashlib.sha256()
    files = []
    for dp, dn, fn in os.walk(os.path.join(repo, 'src')):
        dn.sort()
        for f in sorted(fn):
            files.append(os.path.join(dp, f))
    for f in ('Cargo.toml', 'Cargo.lock', 'rust-toolchain'):
        p = os.path.join(repo, f)
        if os.path.exists(p):
            files.append(p)
    for p in files:
        h.update(os.path.relpath(p, repo).encode())
        h.update(b'\0')
        with open(p, 'rb') as fh:
            h.update(fh.read())
        h.update(b'\0')
    return h.hexdigest()[:24]


def _run(cmd, cwd, env=None, out=None, timeout=1800):
    e = dict(os.environ)
    e['CARGO_NET_OFFLINE'] = 'true'
    if env:
        e.update(env)
    if out:
        with open(out, 'wb') as fh:
            r = subprocess.run(cmd, cwd=cwd, env=e, stdout=fh, stderr=subprocess.PIPE, timeout=timeout)
    else:
        r = subprocess.run(cmd, cwd=cwd, env=e, stdout=subprocess.PIPE, stderr=subprocess.PIPE, timeout=timeout)
    return r


def make_scratch_copy(dst, repo=REPO):
    """copy of the working tree with the two lockfile/patch tweaks needed by nightly/Kani toolchains"""
    if os.path.exists(dst):
        shutil.rmtree(dst)
    os.makedirs(dst)
    subprocess.run(['rsync', '-a', '--exclude', 'target', '--exclude', '.git', '--exclude', '.redo', repo + '/', dst + '/'],
                   check=True)
    return dst


def patch_for_nightly(dst):
    lock = open(os.path.join(dst, 'Cargo.lock')).read()
    if 'name = "proc-macro2"\nversion = "1.0.47"' in lock:
        r = _run(['cargo', 'update', '-p', 'proc-macro2', '--precise', '1.0.107'], dst)
        if r.returncode != 0:
            raise RuntimeError('cargo update proc-macro2 failed: ' + r.stderr.decode()[-2000:])
    toml = open(os.path.join(dst, 'Cargo.toml')).read()
    if 'name = "ahash"\nversion = "0.7.6"' in lock and '[patch.crates-io]' not in toml:
        with open(os.path.join(dst, 'Cargo.toml'), 'a') as fh:
            fh.write('\n[patch.crates-io]\nahash = { path = "%s/vendor/ahash-0.7.6-nonightly" }\n' % VERIF)


def dump_mir(debug_assertions=False, log=sys.stderr):
    """-> directory holding lib.mir and bin.mir for /repo's current tree"""
    key = tree_hash() + ('-da' if debug_assertions else '')
    d = os.path.join(CACHE, 'mir', key)
    os.makedirs(os.path.join(CACHE, 'mir'), exist_ok=True)
    lockf = open(os.path.join(CACHE, 'mir', '.lock'), 'w')
    fcntl.flock(lockf, fcntl.LOCK_EX)
    try:
        if os.path.exists(os.path.join(d, 'ok')):
            os.utime(d)
            return d
        t0 = time.time()
        scratch = os.path.join(SCRATCH_ROOT, 'mir-src')   # fixed path (cargo fingerprints); guarded by the flock
        try:
            make_scratch_copy(scratch)
            patch_for_nightly(scratch)
            for f in ('src/lib.rs', 'src/bin/redo/main.rs'):
                os.utime(os.path.join(scratch, f))      # force rustc to run (and print) even if cargo thinks it is fresh
            tdir = os.path.join(CACHE, 'target-nightly')
            os.makedirs(d + '.tmp', exist_ok=True)
            flags = RUSTFLAGS_MIR + ['-C', 'debug-assertions=%s' % ('on' if debug_assertions else 'off')]
            for what, args in (('lib', ['--lib']), ('bin', ['--bin', 'redo'])):
                r = _run(['cargo', '+nightly', 'rustc', '--offline'] + args + ['--'] + flags, scratch,
                         env={'CARGO_TARGET_DIR': tdir}, out=os.path.join(d + '.tmp', what + '.mir'))
                if r.returncode != 0:
                    raise RuntimeError('MIR dump (%s) failed:\n%s' % (what, r.stderr.decode()[-4000:]))
                if os.path.getsize(os.path.join(d + '.tmp', what + '.mir')) < 1000:
                    raise RuntimeError('MIR dump (%s) is empty' % what)
            open(os.path.join(d + '.tmp', 'ok'), 'w').write('%.1f\n' % (time.time() - t0))
            if os.path.exists(d):
                shutil.rmtree(d)
            os.rename(d + '.tmp', d)
            print('[prep] MIR dumped in %.1fs -> %s' % (time.time() - t0, d), file=log)
        finally:
            shutil.rmtree(scratch, ignore_errors=True)
            shutil.rmtree(d + '.tmp', ignore_errors=True)
        # prune old dumps
        ents = sorted((os.path.getmtime(os.path.join(CACHE, 'mir', e)), e) for e in os.listdir(os.path.join(CACHE, 'mir'))
                      if not e.startswith('.') and os.path.isdir(os.path.join(CACHE, 'mir', e)))
        for _, e in ents[:-6]:
            shutil.rmtree(os.path.join(CACHE, 'mir', e), ignore_errors=True)
        return d
    finally:
        fcntl.flock(lockf, fcntl.LOCK_UN)
        lockf.close()


def engine(need_bin=False, debug_assertions=False, **kw):
    sys.path.insert(0, VERIF)
    from mirsym.engine import Engine
    d = dump_mir(debug_assertions)
    files = [os.path.join(d, 'lib.mir')]
    if need_bin:
        files.append(os.path.join(d, 'bin.mir'))
    eng = Engine(REPO, files, **kw)
    eng.mir_dir = d
    return eng


if __name__ == '__main__':
    print(dump_mir('--da' in sys.argv))
