"""Native replay: compile the repository's *own* code (scratch copy of /repo's working tree, stable toolchain, the
repository's lockfile) together with small `#[cfg(test)] mod verif_replay` child modules appended to the source files whose
private items a replay needs, and run one of those tests on concrete inputs.

Used (a) to confirm every solver counterexample before it is reported and (b) for translator validation (the symbolic
interpreter in concrete mode must agree with the compiled function on the repository's own test vectors and random inputs).
"""
import fcntl
import os
import shutil
import subprocess
import tempfile
import time

from . import prep

MODS = {
    'helpers': 'src/helpers.rs',
    'state': 'src/state.rs',
    'paths': 'src/paths.rs',
    'logs': 'src/logs.rs',
    'jobserver': 'src/jobserver.rs',
    'deps': 'src/deps.rs',
    'builder': 'src/builder.rs',
    'cycles': 'src/cycles.rs',
    'log': 'src/bin/redo/log.rs',
}
BIN_MODS = {'log'}


class Replayer:
    def __init__(self, log=None):
        self.src = os.path.join(prep.SCRATCH_ROOT, 'replay-src')
        self.target = os.path.join(prep.CACHE, 'target-replay')
        self.key = None
        self.log = log
        self.built = set()

    def _prepare(self):
        key = prep.tree_hash()
        if self.key == key:
            return
        os.makedirs(prep.CACHE, exist_ok=True)
        prep.make_scratch_copy(self.src)
        for mod, rel in MODS.items():
            rs = os.path.join(prep.VERIF, 'replay', mod + '_replay.rs')
            if os.path.exists(rs):
                with open(os.path.join(self.src, rel), 'a') as fh:
                    fh.write('\n#[cfg(test)]\n#[path = "%s"]\npub(crate) mod verif_replay;\n' % rs)
        self.key = key

    def run(self, mod, test, lines, release=False, env=None, timeout=1800):
        """run test `<mod>::verif_replay::<test>` with the given input lines; -> list of output payloads (strings after
        'VERIF-OUT '), raw output"""
        lockf = open(os.path.join(prep.CACHE, '.replay.lock'), 'w')
        fcntl.flock(lockf, fcntl.LOCK_EX)
        try:
            self._prepare()
            fd, inp = tempfile.mkstemp(prefix='verif-replay-', suffix='.in', dir=prep.SCRATCH_ROOT)
            with os.fdopen(fd, 'w') as fh:
                fh.write('\n'.join(lines) + '\n')
            e = dict(os.environ)
            e.update({'CARGO_NET_OFFLINE': 'true', 'CARGO_TARGET_DIR': self.target, 'VERIF_REPLAY_IN': inp,
                      'RUST_BACKTRACE': '0'})
            if env:
                e.update(env)
            cmd = ['cargo', 'test', '--offline'] + (['--bin', 'redo'] if mod in BIN_MODS else ['--lib'])
            if release:
                cmd.append('--release')
            cmd += ['%s::verif_replay::%s' % (mod, test), '--', '--exact', '--nocapture', '--test-threads', '1']
            t0 = time.time()
            r = subprocess.run(cmd, cwd=self.src, env=e, stdout=subprocess.PIPE, stderr=subprocess.PIPE, timeout=timeout)
            os.unlink(inp)
            out = r.stdout.decode('utf-8', 'replace')
            payload = [l[l.index('VERIF-OUT ') + 10:] for l in out.split('\n') if 'VERIF-OUT ' in l]
            if self.log:
                self.log('[replay] %s::%s %d cases rc=%d %.1fs' % (mod, test, len(lines), r.returncode, time.time() - t0))
            return payload, out + r.stderr.decode('utf-8', 'replace'), r.returncode
        finally:
            fcntl.flock(lockf, fcntl.LOCK_UN)
            lockf.close()

    def cleanup(self):
        shutil.rmtree(self.src, ignore_errors=True)
