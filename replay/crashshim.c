/* LD_PRELOAD crash injector for native replays of kill-at-a-point counterexamples (C10).
 *
 *   VERIF_CRASH = <before|after>:<rename|unlink>:<path suffix>
 *
 * The process that issues the matching call is killed with SIGKILL immediately before the call is made, or immediately after
 * it returned successfully - the two points a solver counterexample "killed just before effect k" can name for filesystem
 * effects.  Nothing else is changed; unmatched calls go straight to libc. */
#define _GNU_SOURCE
#include <dlfcn.h>
#include <signal.h>
#include <stdlib.h>
#include <string.h>
#include <unistd.h>

static int match(const char *call, const char *path, const char *when)
{
    const char *spec = getenv("VERIF_CRASH");
    if (!spec || !path)
        return 0;
    size_t wl = strlen(when), cl = strlen(call);
    if (strncmp(spec, when, wl) != 0 || spec[wl] != ':')
        return 0;
    spec += wl + 1;
    if (strncmp(spec, call, cl) != 0 || spec[cl] != ':')
        return 0;
    spec += cl + 1;
    size_t sl = strlen(spec), pl = strlen(path);
    if (sl > pl)
        return 0;
    return strcmp(path + pl - sl, spec) == 0;
}

static void die(void)
{
    kill(getpid(), SIGKILL);
    for (;;)
        pause();
}

int rename(const char *oldpath, const char *newpath)
{
    static int (*real)(const char *, const char *);
    if (!real)
        real = dlsym(RTLD_NEXT, "rename");
    if (match("rename", newpath, "before"))
        die();
    int r = real(oldpath, newpath);
    if (r == 0 && match("rename", newpath, "after"))
        die();
    return r;
}

int unlink(const char *path)
{
    static int (*real)(const char *);
    if (!real)
        real = dlsym(RTLD_NEXT, "unlink");
    if (match("unlink", path, "before"))
        die();
    int r = real(path);
    if (r == 0 && match("unlink", path, "after"))
        die();
    return r;
}

/* VERIF_FAIL_REALPATH=<substring>: realpath() of a path containing the substring fails with EIO (a failing disk / stale NFS
 * handle), to replay "canonicalize fails with something other than NotFound". */
#include <errno.h>
char *realpath(const char *path, char *resolved)
{
    static char *(*real)(const char *, char *);
    if (!real)
        real = dlsym(RTLD_NEXT, "realpath");
    const char *sub = getenv("VERIF_FAIL_REALPATH");
    if (sub && *sub && path && strstr(path, sub)) {
        errno = EIO;
        return NULL;
    }
    return real(path, resolved);
}

/* VERIF_SELECT_DELAY_MS=<n>: after every select(2) that reports a readable descriptor, sleep n ms before returning - the process
 * is "descheduled" between learning that a descriptor is ready and acting on it, so that timers armed before the call have
 * expired by the time the caller looks at them (a schedule that happens on a loaded machine; used to replay wake-ups in which a
 * timer expiry and a token arrival coincide). */
#include <sys/select.h>
int select(int nfds, fd_set *r, fd_set *w, fd_set *e, struct timeval *tv) {
    static int (*real_select)(int, fd_set *, fd_set *, fd_set *, struct timeval *);
    if (!real_select) real_select = dlsym(RTLD_NEXT, "select");
    int rc = real_select(nfds, r, w, e, tv);
    const char *d = getenv("VERIF_SELECT_DELAY_MS");
    if (rc > 0 && d && *d) usleep((useconds_t)atoi(d) * 1000);
    return rc;
}
