// Appended (as `#[cfg(test)] mod verif_replay`) to src/logs.rs of a scratch copy of the repository.
use super::*;

fn unhex(s: &str) -> Vec<u8> {
    if s == "-" {
        return Vec::new();
    }
    (0..s.len() / 2)
        .map(|i| u8::from_str_radix(&s[2 * i..2 * i + 2], 16).unwrap())
        .collect()
}

fn hex(b: &[u8]) -> String {
    let mut s = String::new();
    for x in b {
        s.push_str(&format!("{:02x}", x));
    }
    if s.is_empty() {
        s.push('-');
    }
    s
}

fn lines() -> Vec<String> {
    let p = std::env::var("VERIF_REPLAY_IN").expect("VERIF_REPLAY_IN");
    std::fs::read_to_string(p)
        .unwrap()
        .lines()
        .map(|l| l.to_string())
        .collect()
}

/// line: `meta <kindhex> <pid> <texthex>`  | `done <rv> <namehex>` | `parse <linehex>` | `valid <linehex>`
#[test]
fn codec_batch() {
    for (i, l) in lines().iter().enumerate() {
        let p: Vec<&str> = l.split(' ').collect();
        let out = std::panic::catch_unwind(|| match p[0] {
            "meta" => {
                let kind = String::from_utf8(unhex(p[1])).unwrap();
                let pid: i32 = p[2].parse().unwrap();
                let text = String::from_utf8(unhex(p[3])).unwrap();
                let m = Meta {
                    kind: &kind,
                    pid,
                    timestamp: 1234.5,
                    text: &text,
                };
                let s = format!("{}", m);
                match Meta::parse(&s) {
                    Ok(m2) => format!(
                        "OK {} {} {} {}",
                        hex(m2.kind.as_bytes()),
                        m2.pid,
                        hex(m2.text.as_bytes()),
                        m2.timestamp == 1234.5
                    ),
                    Err(_) => "ERR".to_string(),
                }
            }
            "done" => {
                let rv: i32 = p[1].parse().unwrap();
                let name = String::from_utf8(unhex(p[2])).unwrap();
                let s = format!("{} {}", rv, name);
                match Meta::parse_done_text(&s) {
                    Some((r, n)) => format!("OK {} {}", r, hex(n.as_bytes())),
                    None => "NONE".to_string(),
                }
            }
            "parse" => {
                let s = String::from_utf8(unhex(p[1])).unwrap();
                match Meta::parse(&s) {
                    Ok(m2) => format!("OK {} {} {}", hex(m2.kind.as_bytes()), m2.pid, hex(m2.text.as_bytes())),
                    Err(_) => "ERR".to_string(),
                }
            }
            "valid" => {
                let s = String::from_utf8(unhex(p[1])).unwrap();
                format!("OK {}", is_valid_log_line(&s))
            }
            _ => "?".to_string(),
        });
        match out {
            Ok(s) => println!("VERIF-OUT {} {}", i, s),
            Err(_) => println!("VERIF-OUT {} PANIC", i),
        }
    }
}
