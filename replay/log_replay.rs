// Appended (as `#[cfg(test)] mod verif_replay`) to src/bin/redo/log.rs of a scratch copy of the repository.
use super::*;

fn unhex(s: &str) -> Vec<u8> {
    if s == "-" {
        return Vec::new();
    }
    (0..s.len() / 2)
        .map(|i| u8::from_str_radix(&s[2 * i..2 * i + 2], 16).unwrap())
        .collect()
}

fn hex(b: &[u8]) -> String {
    let mut s = String::new();
    for x in b {
        s.push_str(&format!("{:02x}", x));
    }
    if s.is_empty() {
        s.push('-');
    }
    s
}

#[test]
fn clean_batch() {
    let p = std::env::var("VERIF_REPLAY_IN").expect("VERIF_REPLAY_IN");
    for (i, l) in std::fs::read_to_string(p).unwrap().lines().enumerate() {
        let s = String::from_utf8(unhex(l)).unwrap();
        let r = std::panic::catch_unwind(|| clean_line(&s).into_owned());
        match r {
            Ok(o) => println!("VERIF-OUT {} {}", i, hex(o.as_bytes())),
            Err(_) => println!("VERIF-OUT {} PANIC", i),
        }
    }
}
