// Appended (as `#[cfg(test)] mod verif_replay`) to src/helpers.rs of a scratch copy of the repository.
// Reads hex-encoded inputs from $VERIF_REPLAY_IN (one case per line), prints `VERIF-OUT <case> <result>` lines.
use super::*;
use std::ffi::OsStr;
use std::os::unix::ffi::OsStrExt;

fn unhex(s: &str) -> Vec<u8> {
    (0..s.len() / 2)
        .map(|i| u8::from_str_radix(&s[2 * i..2 * i + 2], 16).unwrap())
        .collect()
}

fn hex(b: &[u8]) -> String {
    let mut s = String::new();
    for x in b {
        s.push_str(&format!("{:02x}", x));
    }
    if s.is_empty() {
        s.push('-');
    }
    s
}

fn lines() -> Vec<String> {
    let p = std::env::var("VERIF_REPLAY_IN").expect("VERIF_REPLAY_IN");
    std::fs::read_to_string(p)
        .unwrap()
        .lines()
        .map(|l| l.to_string())
        .collect()
}

#[test]
fn normpath_batch() {
    for (i, l) in lines().iter().enumerate() {
        let inp = if l == "-" { Vec::new() } else { unhex(l) };
        let r = std::panic::catch_unwind(|| {
            let p = OsStr::from_bytes(&inp);
            let out = normpath(p);
            let out2 = normpath(out.as_ref()).into_owned();
            (
                out.as_os_str().as_bytes().to_vec(),
                out2.as_os_str().as_bytes().to_vec(),
            )
        });
        match r {
            Ok((a, b)) => println!("VERIF-OUT {} {} {}", i, hex(&a), hex(&b)),
            Err(_) => println!("VERIF-OUT {} PANIC", i),
        }
    }
}

#[test]
fn abs_path_batch() {
    for (i, l) in lines().iter().enumerate() {
        let parts: Vec<&str> = l.split(' ').collect();
        let cwd = unhex(parts[0]);
        let p = if parts[1] == "-" { Vec::new() } else { unhex(parts[1]) };
        let out = abs_path(OsStr::from_bytes(&cwd), OsStr::from_bytes(&p));
        println!("VERIF-OUT {} {}", i, hex(out.as_os_str().as_bytes()));
    }
}
