// Appended (as `#[cfg(test)] mod verif_replay`) to src/cycles.rs of a scratch copy of the repository.
// line: `<inherited REDO_CYCLES or -> <id added by this job or -> <id probed>`  ->  `CYCLIC` | `FREE`
use super::*;

#[test]
fn cycles_batch() {
    let p = std::env::var("VERIF_REPLAY_IN").expect("VERIF_REPLAY_IN");
    for (i, l) in std::fs::read_to_string(p).unwrap().lines().enumerate() {
        let parts: Vec<&str> = l.split(' ').collect();
        if parts[0] == "-" {
            std::env::remove_var(ENV_CYCLES);
        } else {
            std::env::set_var(ENV_CYCLES, parts[0]);
        }
        if parts[1] != "-" {
            add(parts[1].to_string());
        }
        let r = check(parts[2]);
        println!("VERIF-OUT {} {}", i, if r.is_err() { "CYCLIC" } else { "FREE" });
    }
}
