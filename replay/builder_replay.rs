// Appended (as `#[cfg(test)] mod verif_replay`) to src/builder.rs of a scratch copy of the repository.
//
// Replays a solver counterexample of BuildJob::record_new_state on a real database (materialised by
// state::verif_replay::build_world), real files and a real capture file.
//
// line:  the dbstate line (R= T= F= D= X=, see state_replay.rs) plus
//   RV=<script exit status>  OUT=<bytes the script wrote to stdout>  HAS3=<0|1>
//   TOUCH=<0 untouched|1 rewrote $1 (newer mtime)|2 removed $1|3 rewrote $1 keeping an older mtime>
//   FAULT=<none|create>   (create: File::create of the temporary file fails - the temporary name is put into a directory that
//                          does not exist, the only way to make the call fail for root without touching the target's directory)
// output: RET=<n|PANIC:msg> TGT=<missing|dir|previous|three|stdout|direct|other:..> INO=<same|diff|na> TMP=<0|1> ROWS=.. DEPS=..
use super::*;
use crate::state::verif_replay::{build_world, dump_rows};
use std::io::Write;
use std::os::unix::fs::MetadataExt;

fn lines() -> Vec<String> {
    let p = std::env::var("VERIF_REPLAY_IN").expect("VERIF_REPLAY_IN");
    std::fs::read_to_string(p)
        .unwrap()
        .lines()
        .map(|l| l.to_string())
        .collect()
}

fn kv<'a>(parts: &'a [&'a str], key: &str) -> Option<&'a str> {
    parts
        .iter()
        .find(|p| p.starts_with(key) && p.as_bytes().get(key.len()) == Some(&b'='))
        .map(|p| &p[key.len() + 1..])
}

fn classify(p: &Path) -> String {
    match std::fs::symlink_metadata(p) {
        Err(_) => "missing".to_string(),
        Ok(m) if m.is_dir() => "dir".to_string(),
        // the script's own dangling symbolic link, moved into place as it is
        Ok(m) if m.file_type().is_symlink() && std::fs::read_link(p).map(|t| t == Path::new("not-built-yet")).unwrap_or(false) => {
            "three".to_string()
        }
        Ok(_) => match std::fs::read(p) {
            Ok(b) if b == b"0123456789" => "previous".to_string(),
            Ok(b) if b == b"three" => "three".to_string(),
            Ok(b) if b == b"hello" => "stdout".to_string(),
            Ok(b) if b == b"direct" => "direct".to_string(),
            Ok(b) => format!("other:{}", String::from_utf8_lossy(&b).replace(' ', "_")),
            Err(_) => "unreadable".to_string(),
        },
    }
}

#[test]
fn record_batch() {
    let home = std::env::current_dir().unwrap();
    for (i, l) in lines().iter().enumerate() {
        let parts: Vec<&str> = l.split(' ').collect();
        let mut w = build_world(&parts);
        let base = w.dir.path().to_path_buf();
        let target: i64 = kv(&parts, "T").unwrap().parse().unwrap();
        let rv: i32 = kv(&parts, "RV").unwrap().parse().unwrap();
        let out: usize = kv(&parts, "OUT").unwrap().parse().unwrap();
        let has3_kind = kv(&parts, "HAS3").unwrap();
        let has3 = has3_kind != "0";
        let touch = kv(&parts, "TOUCH").unwrap();
        let fault = kv(&parts, "FAULT").unwrap_or("none");
        let tpath = base.join("tgt");
        let tmp_name = if fault == "create" {
            base.join("no-such-dir").join("tgt.redo.tmp")
        } else {
            base.join("tgt.redo.tmp")
        };
        let before_t = try_stat(&tpath).unwrap();
        let ino_before = before_t.as_ref().map(|m| m.ino());
        // ---- what the script did
        match touch {
            "1" | "3" => {
                std::fs::write(&tpath, b"direct").unwrap();
                let f = std::fs::OpenOptions::new().write(true).open(&tpath).unwrap();
                let old = before_t
                    .as_ref()
                    .and_then(|m| m.modified().ok())
                    .unwrap_or(std::time::SystemTime::UNIX_EPOCH);
                if touch == "1" {
                    f.set_modified(old + Duration::from_secs(100)).unwrap();
                } else {
                    // like `cp -p older-file $1`: an mtime older than the target had
                    let base_t = if before_t.is_some() { old } else { std::time::SystemTime::now() };
                    f.set_modified(base_t - Duration::from_secs(100000)).unwrap();
                }
            }
            "2" => {
                let _ = std::fs::remove_file(&tpath);
            }
            _ => {}
        }
        let ino_script = std::fs::symlink_metadata(&tpath).ok().map(|m| m.ino());
        if has3 && fault != "create" {
            if has3_kind == "2" {
                std::os::unix::fs::symlink("not-built-yet", &tmp_name).unwrap();
            } else {
                std::fs::write(&tmp_name, b"three").unwrap();
            }
        }
        let mut out_file = tempfile::tempfile().unwrap();
        if out > 0 {
            out_file.write_all(b"hello").unwrap();
        }
        let argv: Vec<OsString> = ["sh", "-e", "tgt.do", "tgt", "tgt", "tgt.redo.tmp"]
            .iter()
            .map(|s| OsString::from(s))
            .collect();
        let t = unsafe { RedoPathBuf::from_os_string_unchecked(tpath.clone().into_os_string()) };
        let res = panic::catch_unwind(panic::AssertUnwindSafe(|| -> i32 {
            let mut ptx = ProcessTransaction::new(&mut w.ps, TransactionBehavior::Immediate).unwrap();
            let sf = state::File::from_id(&mut ptx, target).unwrap();
            let r = BuildJob::record_new_state(&mut ptx, &t, sf, &before_t, out_file, &tmp_name, &argv, rv);
            ptx.commit().unwrap();
            r
        }));
        let ret = match res {
            Ok(r) => r.to_string(),
            Err(p) => {
                let msg = if let Some(s) = p.downcast_ref::<String>() {
                    s.clone()
                } else if let Some(s) = p.downcast_ref::<&str>() {
                    s.to_string()
                } else {
                    "?".to_string()
                };
                format!("PANIC:{}", msg.replace(' ', "_").replace('\n', "_"))
            }
        };
        let ino_after = std::fs::symlink_metadata(&tpath).ok().map(|m| m.ino());
        let ino = match (ino_script.or(ino_before), ino_after) {
            (Some(a), Some(b)) if a == b => "same",
            (Some(_), Some(_)) => "diff",
            _ => "na",
        };
        println!(
            "VERIF-OUT {} RET={} TGT={} INO={} TMP={} {}",
            i,
            ret,
            classify(&tpath),
            ino,
            if std::fs::symlink_metadata(&tmp_name).is_ok() { 1 } else { 0 },
            dump_rows(&w.ps)
        );
        std::env::set_current_dir(&home).unwrap();
    }
}
