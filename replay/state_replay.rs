// Appended (as `#[cfg(test)] mod verif_replay`) to src/state.rs of a scratch copy of the repository.
use super::*;
use std::ffi::OsStr;
use std::os::unix::ffi::OsStrExt;

fn unhex(s: &str) -> Vec<u8> {
    if s == "-" {
        return Vec::new();
    }
    (0..s.len() / 2)
        .map(|i| u8::from_str_radix(&s[2 * i..2 * i + 2], 16).unwrap())
        .collect()
}

fn hex(b: &[u8]) -> String {
    let mut s = String::new();
    for x in b {
        s.push_str(&format!("{:02x}", x));
    }
    if s.is_empty() {
        s.push('-');
    }
    s
}

fn lines() -> Vec<String> {
    let p = std::env::var("VERIF_REPLAY_IN").expect("VERIF_REPLAY_IN");
    std::fs::read_to_string(p)
        .unwrap()
        .lines()
        .map(|l| l.to_string())
        .collect()
}

/// each line: `<cwd> <t> <base>` (hex).  The test chdirs to <cwd> (created under a private temp root given by
/// $VERIF_REPLAY_ROOT, which is prepended to absolute inputs so that nothing outside it is touched).
#[test]
fn relpath_batch() {
    let root = std::env::var("VERIF_REPLAY_ROOT").unwrap_or_default();
    let rootb = root.as_bytes().to_vec();
    let under = |p: &[u8]| -> Vec<u8> {
        if p.first() == Some(&b'/') {
            let mut v = rootb.clone();
            v.extend_from_slice(p);
            v
        } else {
            p.to_vec()
        }
    };
    for (i, l) in lines().iter().enumerate() {
        let parts: Vec<&str> = l.split(' ').collect();
        let cwd = under(&unhex(parts[0]));
        let t = under(&unhex(parts[1]));
        let base = under(&unhex(parts[2]));
        std::fs::create_dir_all(OsStr::from_bytes(&cwd)).unwrap();
        std::env::set_current_dir(OsStr::from_bytes(&cwd)).unwrap();
        let r = std::panic::catch_unwind(|| relpath(OsStr::from_bytes(&t), OsStr::from_bytes(&base)));
        match r {
            Ok(Ok(p)) => println!("VERIF-OUT {} OK {}", i, hex(p.as_os_str().as_bytes())),
            Ok(Err(e)) => println!("VERIF-OUT {} ERR {:?}", i, e.kind()),
            Err(_) => println!("VERIF-OUT {} PANIC", i),
        }
    }
}

#[test]
fn realdirpath_batch() {
    for (i, l) in lines().iter().enumerate() {
        let t = unhex(l);
        match realdirpath(OsStr::from_bytes(&t)) {
            Ok(p) => println!("VERIF-OUT {} OK {}", i, hex(p.as_os_str().as_bytes())),
            Err(e) => println!("VERIF-OUT {} ERR {:?}", i, e.kind()),
        }
    }
}
