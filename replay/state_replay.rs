// Appended (as `#[cfg(test)] mod verif_replay`) to src/state.rs of a scratch copy of the repository.
use super::*;
use std::ffi::OsStr;
use std::os::unix::ffi::OsStrExt;

fn unhex(s: &str) -> Vec<u8> {
    if s == "-" {
        return Vec::new();
    }
    (0..s.len() / 2)
        .map(|i| u8::from_str_radix(&s[2 * i..2 * i + 2], 16).unwrap())
        .collect()
}

fn hex(b: &[u8]) -> String {
    let mut s = String::new();
    for x in b {
        s.push_str(&format!("{:02x}", x));
    }
    if s.is_empty() {
        s.push('-');
    }
    s
}

fn lines() -> Vec<String> {
    let p = std::env::var("VERIF_REPLAY_IN").expect("VERIF_REPLAY_IN");
    std::fs::read_to_string(p)
        .unwrap()
        .lines()
        .map(|l| l.to_string())
        .collect()
}

/// each line: `<cwd> <t> <base>` (hex).  The test chdirs to <cwd> (created under a private temp root given by
/// $VERIF_REPLAY_ROOT, which is prepended to absolute inputs so that nothing outside it is touched).
#[test]
fn relpath_batch() {
    let root = std::env::var("VERIF_REPLAY_ROOT").unwrap_or_default();
    let rootb = root.as_bytes().to_vec();
    let under = |p: &[u8]| -> Vec<u8> {
        if p.first() == Some(&b'/') {
            let mut v = rootb.clone();
            v.extend_from_slice(p);
            v
        } else {
            p.to_vec()
        }
    };
    for (i, l) in lines().iter().enumerate() {
        let parts: Vec<&str> = l.split(' ').collect();
        let cwd = under(&unhex(parts[0]));
        let t = under(&unhex(parts[1]));
        let base = under(&unhex(parts[2]));
        std::fs::create_dir_all(OsStr::from_bytes(&cwd)).unwrap();
        std::env::set_current_dir(OsStr::from_bytes(&cwd)).unwrap();
        let r = std::panic::catch_unwind(|| relpath(OsStr::from_bytes(&t), OsStr::from_bytes(&base)));
        match r {
            Ok(Ok(p)) => println!("VERIF-OUT {} OK {}", i, hex(p.as_os_str().as_bytes())),
            Ok(Err(e)) => println!("VERIF-OUT {} ERR {:?}", i, e.kind()),
            Err(_) => println!("VERIF-OUT {} PANIC", i),
        }
    }
}

#[test]
fn realdirpath_batch() {
    for (i, l) in lines().iter().enumerate() {
        let t = unhex(l);
        match realdirpath(OsStr::from_bytes(&t)) {
            Ok(p) => println!("VERIF-OUT {} OK {}", i, hex(p.as_os_str().as_bytes())),
            Err(e) => println!("VERIF-OUT {} ERR {:?}", i, e.kind()),
        }
    }
}

// ------------------------------------------------------------------------------------------------------------------
// Database-state replay: materialise a (Files, Deps, filesystem) state chosen by the solver in a real .redo/db.sqlite3 and
// real files, run the real is_dirty / File methods on it, print the verdict and the rows afterwards.
//
// line:  R=<runid> T=<target rowid> OP=<is_dirty|ood|is_source|...> [F=<id>,<namehex>,<gen>,<ovr>,<checked>,<changed>,<failed>,
//        <stamp>,<csumhex>]... [D=<target>,<source>,<m|c>,<delete_me>]... [X=<namehex>,<fs>]...
//   ints: decimal or N (NULL);  gen/ovr: 0|1|N
//   stamp: N (NULL) | M ("0") | S (recorded stamp "S1")
//   fs:    none | same (file exists with exactly the recorded stamp) | mtime (exists; mtime differs from what is recorded)
//          | mode (exists; only st_mode differs from what is recorded) | dir
fn replay_kv<'a>(parts: &'a [&'a str], key: &str) -> Vec<&'a str> {
    parts
        .iter()
        .filter(|p| p.starts_with(key) && p.as_bytes().get(key.len()) == Some(&b'='))
        .map(|p| &p[key.len() + 1..])
        .collect()
}

fn opt_i64(s: &str) -> Option<i64> {
    if s == "N" {
        None
    } else {
        Some(s.parse().unwrap())
    }
}

fn alter_field(stamp: &str, idx: usize) -> String {
    let mut f: Vec<String> = stamp.split('-').map(|s| s.to_string()).collect();
    if idx == 0 {
        f[0] = "12345.000000".to_string();
    } else {
        f[idx] = format!("{}", f[idx].parse::<u64>().unwrap() ^ 0o111);
    }
    f.join("-")
}

pub(crate) struct ReplayWorld {
    pub ps: ProcessState,
    pub dir: tempfile::TempDir,
}

pub(crate) fn build_world(parts: &[&str]) -> ReplayWorld {
    let dir = tempfile::Builder::new().prefix("verif-db").tempdir_in("/var/tmp").unwrap();
    let base = dir.path().to_path_buf();
    let runid: i64 = replay_kv(parts, "R")[0].parse().unwrap();
    for (k, _) in std::env::vars_os() {
        if k.to_str().map(|k| k.starts_with("REDO")).unwrap_or(false) {
            std::env::remove_var(k);
        }
    }
    std::env::set_var("REDO", "1");
    std::env::set_var("REDO_BASE", &base);
    std::env::set_var("REDO_STARTDIR", &base);
    std::env::set_var("REDO_PWD", "");
    std::env::set_var("REDO_TARGET", "");
    std::env::set_var("REDO_RUNID", runid.to_string());
    std::env::set_var("REDO_LOG", "0");
    std::env::set_current_dir(&base).unwrap();
    let env = Env::inherit().unwrap();
    let ps = ProcessState::init(env).unwrap();
    // filesystem first (recorded stamps are derived from the real ones)
    let mut fskind: std::collections::HashMap<Vec<u8>, String> = std::collections::HashMap::new();
    for x in replay_kv(parts, "X") {
        let f: Vec<&str> = x.split(',').collect();
        let name = unhex(f[0]);
        fskind.insert(name.clone(), f[1].to_string());
        let p = base.join(OsStr::from_bytes(&name));
        match f[1] {
            "none" => {}
            "dir" => std::fs::create_dir_all(&p).unwrap(),
            _ => {
                if let Some(d) = p.parent() {
                    std::fs::create_dir_all(d).unwrap();
                }
                std::fs::write(&p, b"0123456789").unwrap();
            }
        }
    }
    for frow in replay_kv(parts, "F") {
        let f: Vec<&str> = frow.split(',').collect();
        let id: i64 = f[0].parse().unwrap();
        let name = String::from_utf8(unhex(f[1])).unwrap();
        let real = {
            let p = base.join(&name);
            match std::fs::symlink_metadata(&p) {
                Ok(m) => Some(Stamp::from_metadata(&m).unwrap().0.into_owned()),
                Err(_) => None,
            }
        };
        let kind = fskind.get(name.as_bytes()).map(|s| s.as_str()).unwrap_or("none");
        let stamp: Option<String> = match f[7] {
            "N" => None,
            "M" => Some("0".to_string()),
            _ => Some(match (kind, &real) {
                ("same", Some(r)) => r.clone(),
                ("mtime", Some(r)) => alter_field(r, 0),
                ("mode", Some(r)) => alter_field(r, 3),
                ("dir", _) => "1.000000-10-100-33188-0-0".to_string(),
                _ => "1.000000-10-100-33188-0-0".to_string(),
            }),
        };
        let csum = if f[8] == "N" { None } else { Some(String::from_utf8(unhex(f[8])).unwrap()) };
        let b = |s: &str| -> Option<bool> {
            match s {
                "N" => None,
                "1" => Some(true),
                _ => Some(false),
            }
        };
        if name == ALWAYS {
            ps.db
                .execute(
                    "update Files set checked_runid=?, changed_runid=?, failed_runid=? where name=?",
                    params![opt_i64(f[4]), opt_i64(f[5]), opt_i64(f[6]), name],
                )
                .unwrap();
            continue;
        }
        ps.db
            .execute(
                "insert or replace into Files (rowid, name, is_generated, is_override, checked_runid, changed_runid, failed_runid, stamp, csum) values (?,?,?,?,?,?,?,?,?)",
                params![id, name, b(f[2]), b(f[3]), opt_i64(f[4]), opt_i64(f[5]), opt_i64(f[6]), stamp, csum],
            )
            .unwrap();
    }
    for d in replay_kv(parts, "D") {
        let f: Vec<&str> = d.split(',').collect();
        ps.db
            .execute(
                "insert or replace into Deps (target, source, mode, delete_me) values (?,?,?,?)",
                params![f[0].parse::<i64>().unwrap(), f[1].parse::<i64>().unwrap(), f[2], f[3].parse::<i64>().unwrap()],
            )
            .unwrap();
    }
    ReplayWorld { ps, dir }
}

pub(crate) fn dump_rows(ps: &ProcessState) -> String {
    let mut out = Vec::new();
    let mut stmt = ps
        .db
        .prepare("select rowid, is_generated, is_override, checked_runid, changed_runid, failed_runid, stamp, csum from Files order by rowid")
        .unwrap();
    let mut rows = stmt.query([]).unwrap();
    while let Some(r) = rows.next().unwrap() {
        let f = |i: usize| -> String {
            match r.get::<usize, Option<i64>>(i).unwrap() {
                Some(x) => x.to_string(),
                None => "N".to_string(),
            }
        };
        let stamp: Option<String> = r.get(6).unwrap();
        let csum: Option<String> = r.get(7).unwrap();
        out.push(format!(
            "{}:{},{},{},{},{},{},{}",
            r.get::<usize, i64>(0).unwrap(),
            f(1),
            f(2),
            f(3),
            f(4),
            f(5),
            match stamp.as_deref() {
                None => "N",
                Some("0") => "M",
                Some(_) => "S",
            },
            match csum.as_deref() {
                None | Some("") => "N",
                Some(_) => "C",
            }
        ));
    }
    let mut deps = Vec::new();
    let mut stmt = ps.db.prepare("select target, source, mode, delete_me from Deps order by target, source").unwrap();
    let mut rows = stmt.query([]).unwrap();
    while let Some(r) = rows.next().unwrap() {
        deps.push(format!(
            "{}>{}:{}:{}",
            r.get::<usize, i64>(0).unwrap(),
            r.get::<usize, i64>(1).unwrap(),
            r.get::<usize, String>(2).unwrap(),
            r.get::<usize, Option<i64>>(3).unwrap().unwrap_or(-1)
        ));
    }
    format!("ROWS={} DEPS={}", out.join(";"), deps.join(";"))
}

pub(crate) fn dump_named_deps(ps: &ProcessState, target: i64) -> String {
    let mut edges = Vec::new();
    let mut stmt = ps
        .db
        .prepare("select Files.name, Deps.mode from Deps join Files on Files.rowid = Deps.source where Deps.target = ? order by Files.name")
        .unwrap();
    let mut rows = stmt.query([target]).unwrap();
    while let Some(r) = rows.next().unwrap() {
        edges.push(format!("{}:{}", r.get::<usize, String>(0).unwrap(), r.get::<usize, String>(1).unwrap()));
    }
    edges.join(" ")
}

#[test]
fn dbstate_batch() {
    use crate::deps::{is_dirty, Dirtiness, DirtyCallbacks};
    let home = std::env::current_dir().unwrap();
    for (i, l) in lines().iter().enumerate() {
        let parts: Vec<&str> = l.split(' ').collect();
        let mut w = build_world(&parts);
        let target: i64 = replay_kv(&parts, "T")[0].parse().unwrap();
        let op = replay_kv(&parts, "OP")[0];
        let res = std::panic::catch_unwind(std::panic::AssertUnwindSafe(|| -> String {
            let mut ptx = ProcessTransaction::new(&mut w.ps, TransactionBehavior::Immediate).unwrap();
            let mut f = File::from_id(&mut ptx, target).unwrap();
            let v = match op {
                "is_dirty" => {
                    let mut cb = DirtyCallbacks::default();
                    match is_dirty(&mut ptx, &mut f, &mut cb) {
                        Ok(Dirtiness::Clean) => "Clean".to_string(),
                        Ok(Dirtiness::Dirty) => "Dirty".to_string(),
                        Ok(Dirtiness::NeedTargets(t)) => format!(
                            "Need:{}",
                            t.iter().map(|f| f.id().to_string()).collect::<Vec<_>>().join(",")
                        ),
                        Err(e) => format!("Err:{:?}", e.kind()).replace(' ', ""),
                    }
                }
                "roles" => format!(
                    "source={:?},target={:?}",
                    f.is_source(ptx.state().env()).unwrap(),
                    f.is_target(ptx.state().env()).unwrap()
                ),
                "materialise" => {
                    // leave the project directory in place for a run of the real binaries; the caller removes it
                    "kept".to_string()
                }
                "set_failed" => {
                    let env = ptx.state().env().clone();
                    f.set_failed(&env).unwrap();
                    f.save(&mut ptx).unwrap();
                    "done".to_string()
                }
                op if op.starts_with("twophase:") => {
                    // twophase:<finish 0|1>:<namehex>-<m|c>,...
                    let f3: Vec<&str> = op.split(':').collect();
                    f.zap_deps1(&mut ptx).unwrap();
                    if f3.len() > 2 && !f3[2].is_empty() {
                        for d in f3[2].split(',') {
                            let nd: Vec<&str> = d.split('-').collect();
                            let name = String::from_utf8(unhex(nd[0])).unwrap();
                            let mode = if nd[1] == "m" { DepMode::Modified } else { DepMode::Created };
                            let p = ptx.state().env().base().join(&name);
                            f.add_dep(&mut ptx, mode, &p).unwrap();
                        }
                    }
                    if f3[1] == "1" {
                        f.zap_deps2(&mut ptx).unwrap();
                    }
                    "done".to_string()
                }
                _ => panic!("unknown op"),
            };
            ptx.commit().unwrap();
            v
        }));
        let verdict = match res {
            Ok(v) => v,
            Err(_) => "PANIC".to_string(),
        };
        println!("VERIF-OUT {} VERDICT={} {}", i, verdict, dump_rows(&w.ps));
        std::env::set_current_dir(&home).unwrap();
        if op == "materialise" {
            let ReplayWorld { ps, dir } = w;
            drop(ps);
            println!("VERIF-OUT {} DIR={}", i, dir.into_path().display());
        }
    }
}
