// Appended (as `#[cfg(test)] mod verif_replay`) to src/jobserver.rs of a scratch copy of the repository.
//
// Replays a jobserver scenario against the real JobServer with real pipes and real fork(2).
// Input line:  `<top_level> <tokens initially in pipe> <cheat bytes initially> <op> <op> ...`
//   E:<answers>   ensure_token_or_cheat; cheat_func returns the given digits in turn (then 0)
//   S:p | S:c     start a child; it blocks until released by G, then exits 0 (p = proper; c = "cheater": before exiting it
//                 writes one token to the token pipe and one byte to the cheat pipe, like a sub-redo that gave its own token
//                 away and finished on a borrowed slot)
//   G:<i>         let child i (0-based start order) exit and wait until it is dead (its pipe end is readable)
//   W             wait_all().await       R  release_mine()       Z  sleep(50ms).await     D  drain remaining job futures
//   F             the root future returns an error now (jobs that are still running are abandoned)
//   A-            another process takes a token from the pipe if one is there (counted in taken=)
//   A+            another process puts a token into the pipe
// Output: `VERIF-OUT <n> OK|ERR|PANIC result=<..> tokens=<bytes left in token pipe> cheats=<bytes left in cheat pipe>
//          my=<my_tokens> ch=<cheats>`
use super::*;
use futures::future::FutureExt;
use futures::stream::{FuturesUnordered, StreamExt};
use std::cell::RefCell;
use std::panic::{self, AssertUnwindSafe};
use std::rc::Rc;

fn lines() -> Vec<String> {
    let p = std::env::var("VERIF_REPLAY_IN").expect("VERIF_REPLAY_IN");
    std::fs::read_to_string(p)
        .unwrap()
        .lines()
        .map(|l| l.to_string())
        .collect()
}

fn drain_count(fd: RawFd) -> usize {
    let mut n = 0;
    let mut buf = [0u8; 64];
    loop {
        match try_read(fd, &mut buf) {
            Ok(Some(k)) if k > 0 => n += k,
            _ => break,
        }
    }
    n
}

fn raw_pipe() -> (RawFd, RawFd) {
    unistd::pipe().unwrap()
}

fn run_line(line: &str) -> String {
    let parts: Vec<&str> = line.split(' ').collect();
    let top_level: i32 = parts[0].parse().unwrap();
    let pipe0: usize = parts[1].parse().unwrap();
    let cheat0: usize = parts[2].parse().unwrap();
    let ops: Vec<String> = parts[3..].iter().map(|s| s.to_string()).collect();

    let token_fds = make_pipe(100).unwrap();
    let cheat_fds = make_pipe(102).unwrap();
    write_tokens(token_fds.1, pipe0).unwrap();
    write_tokens(cheat_fds.1, cheat0).unwrap();
    let mut server = JobServer {
        params: Rc::new(ServerParams {
            token_fds,
            cheat_fds,
            top_level,
        }),
        state: Rc::new(RefCell::new(ServerState::default())),
        dropped: false,
    };
    let handle = server.handle();
    let go: Rc<RefCell<Vec<(RawFd, RawFd)>>> = Rc::new(RefCell::new(Vec::new()));
    let taken: Rc<RefCell<i32>> = Rc::new(RefCell::new(0));
    let result = panic::catch_unwind(AssertUnwindSafe(|| {
        let r = server.block_on(async {
            let jobs: FuturesUnordered<Job> = FuturesUnordered::new();
            futures::pin_mut!(jobs);
            for op in ops.iter() {
                let (kind, arg) = match op.find(':') {
                    Some(i) => (&op[..i], &op[i + 1..]),
                    None => (&op[..], ""),
                };
                match kind {
                    "E" => {
                        let answers: Vec<i32> = arg.chars().map(|c| c.to_digit(10).unwrap() as i32).collect();
                        let mut k = 0usize;
                        let fut = handle
                            .ensure_token_or_cheat("t", || {
                                let a = if k < answers.len() { answers[k] } else { 0 };
                                k += 1;
                                Ok(a)
                            })
                            .fuse();
                        futures::pin_mut!(fut);
                        loop {
                            futures::select! {
                                r = fut => { r?; break; }
                                _ = jobs.next() => {}
                            }
                        }
                    }
                    "S" => {
                        let (gr, gw) = raw_pipe();
                        go.borrow_mut().push((gr, gw));
                        let cheater = arg == "c";
                        let tw = token_fds.1;
                        let cw = cheat_fds.1;
                        let job = handle.start("job".to_string(), move || {
                            let _ = unistd::close(gw);
                            let mut b = [0u8; 1];
                            let _ = unistd::read(gr, &mut b);
                            if cheater {
                                let _ = unistd::write(tw, b"t");
                                let _ = unistd::write(cw, b"t");
                            }
                            0
                        })?;
                        jobs.push(job);
                    }
                    "G" => {
                        let i: usize = arg.parse().unwrap();
                        let (gr, gw) = go.borrow()[i];
                        let _ = unistd::write(gw, b"g");
                        let _ = unistd::close(gw);
                        let _ = unistd::close(gr);
                        std::thread::sleep(Duration::from_millis(150));
                    }
                    "W" => {
                        let fut = handle.wait_all();
                        futures::pin_mut!(fut);
                        loop {
                            futures::select! {
                                r = fut => { r?; break; }
                                _ = jobs.next() => {}
                            }
                        }
                    }
                    "R" => handle.release_mine()?,
                    "Z" => {
                        let fut = handle.sleep(Duration::from_millis(50)).fuse();
                        futures::pin_mut!(fut);
                        loop {
                            futures::select! {
                                _ = fut => { break; }
                                _ = jobs.next() => {}
                            }
                        }
                    }
                    "D" => {
                        while let Some(_) = jobs.next().await {}
                    }
                    "F" => {
                        // the root future gives up while jobs are still running
                        return Err(RedoError::new("boom"));
                    }
                    "A-" => {
                        let mut b = [0u8; 1];
                        if let Ok(Some(1)) = try_read(token_fds.0, &mut b) {
                            *taken.borrow_mut() += 1;
                        }
                    }
                    "A+" => {
                        write_tokens(token_fds.1, 1).unwrap();
                    }
                    _ => panic!("unknown op {}", op),
                }
            }
            Ok::<(), RedoError>(())
        });
        let r2 = server.do_force_return_tokens();
        (r, r2)
    }));
    let (my, ch) = {
        match server.state.try_borrow() {
            Ok(s) => (s.my_tokens, s.cheats),
            Err(_) => (-99, -99),
        }
    };
    server.dropped = true;
    let tokens = drain_count(token_fds.0);
    let cheats = drain_count(cheat_fds.0);
    for fd in [token_fds.0, token_fds.1, cheat_fds.0, cheat_fds.1].iter() {
        let _ = unistd::close(*fd);
    }
    for (gr, gw) in go.borrow().iter() {
        let _ = unistd::close(*gw);
        let _ = unistd::close(*gr);
    }
    match result {
        Ok((Ok(()), Ok(()))) => format!("OK result=ok tokens={} cheats={} my={} ch={} taken={}", tokens, cheats, my, ch, taken.borrow()),
        Ok((r, r2)) => format!(
            "ERR result={:?}/{:?} tokens={} cheats={} my={} ch={} taken={}",
            r.err().map(|e| e.to_string()),
            r2.err().map(|e| e.to_string()),
            tokens,
            cheats,
            my,
            ch,
            taken.borrow()
        )
        .replace('\n', " "),
        Err(p) => {
            let msg = if let Some(s) = p.downcast_ref::<String>() {
                s.clone()
            } else if let Some(s) = p.downcast_ref::<&str>() {
                s.to_string()
            } else {
                "?".to_string()
            };
            format!("PANIC result={} tokens={} cheats={} my={} ch={} taken={}", msg.replace('\n', " "), tokens, cheats, my, ch, taken.borrow())
        }
    }
}

#[test]
fn script_batch() {
    // futures::select! takes its arm order from a per-thread xorshift generator whose seed is the hash of a process-wide counter
    // (futures-util async_await/random.rs): the k-th thread that evaluates a select! always sees the same sequence.
    // VERIF_SELECT_SEED_SKIP=k burns k seeds on throw-away threads and runs the scenario on a fresh thread, so that a replay can
    // walk through different (deterministic) order sequences.
    let skip: usize = std::env::var("VERIF_SELECT_SEED_SKIP").ok().and_then(|s| s.parse().ok()).unwrap_or(0);
    if std::env::var("VERIF_SELECT_SEED_SKIP").is_err() {
        for (i, l) in lines().iter().enumerate() {
            // each scenario in its own process image would be cleaner; state is re-created per line and fds are closed
            let out = run_line(l);
            println!("VERIF-OUT {} {}", i, out);
        }
        return;
    }
    for _ in 0..skip {
        std::thread::spawn(|| {
            use futures::future::FutureExt;
            let mut a = futures::future::ready(()).fuse();
            let mut b = futures::future::pending::<()>().fuse();
            let waker = futures::task::noop_waker();
            let mut cx = std::task::Context::from_waker(&waker);
            let mut fut = Box::pin(async move {
                futures::select! { _ = a => (), _ = b => () }
            });
            let _ = std::future::Future::poll(fut.as_mut(), &mut cx);
        })
        .join()
        .unwrap();
    }
    let ls = lines();
    std::thread::spawn(move || {
        for (i, l) in ls.iter().enumerate() {
            let out = run_line(l);
            println!("VERIF-OUT {} {}", i, out);
        }
    })
    .join()
    .unwrap();
}

/// line: `<max_jobs> <parent jobserver in MAKEFLAGS 0|1> <REDO_CHEATFDS inherited 0|1>`
/// The parent's pipes are real pipes on fds 100/101 (tokens) and 102/103 (cheats), as redo itself would have created them.
#[test]
fn setup_batch() {
    for (i, l) in lines().iter().enumerate() {
        let parts: Vec<&str> = l.split(' ').collect();
        let mj: i32 = parts[0].parse().unwrap();
        let parent = parts[1] == "1";
        let cheat = parts[2] == "1";
        for k in [JobServer::ENV_MAKEFLAGS, JobServer::ENV_CHEATFDS].iter() {
            std::env::remove_var(k);
        }
        let ptok = if parent { Some(make_pipe(100).unwrap()) } else { None };
        let pcheat = if cheat { Some(make_pipe(102).unwrap()) } else { None };
        if let Some((a, b)) = ptok {
            std::env::set_var(JobServer::ENV_MAKEFLAGS, format!(" -j --jobserver-auth={0},{1} --jobserver-fds={0},{1}", a, b));
        }
        if let Some((a, b)) = pcheat {
            std::env::set_var(JobServer::ENV_CHEATFDS, format!("{},{}", a, b));
        }
        let out = match JobServer::setup(mj) {
            Ok(mut server) => {
                let p = server.params.clone();
                server.dropped = true;
                let tok_parent = Some(p.token_fds) == ptok;
                let cheat_parent = Some(p.cheat_fds) == pcheat;
                let own_tokens = if tok_parent { "None".to_string() } else { drain_count(p.token_fds.0).to_string() };
                let parent_written = ptok.map(|(r, _)| drain_count(r)).unwrap_or(0);
                let s = format!(
                    "OK TOK={} CHEAT={} TOP={} OWNTOKENS={} PARENTWRITTEN={}",
                    if tok_parent { "parent" } else { "own" },
                    if cheat_parent { "parent" } else { "own" },
                    p.top_level,
                    own_tokens,
                    parent_written
                );
                if !tok_parent {
                    let _ = unistd::close(p.token_fds.0);
                    let _ = unistd::close(p.token_fds.1);
                }
                if !cheat_parent {
                    let _ = unistd::close(p.cheat_fds.0);
                    let _ = unistd::close(p.cheat_fds.1);
                }
                s
            }
            Err(e) => format!("ERR {}", e.to_string().replace('\n', " ")),
        };
        for fds in [ptok, pcheat].iter().flatten() {
            let _ = unistd::close(fds.0);
            let _ = unistd::close(fds.1);
        }
        println!("VERIF-OUT {} {}", i, out);
    }
}
