// Appended (as `#[cfg(test)] mod verif_replay`) to src/paths.rs of a scratch copy of the repository.
use super::*;
use std::ffi::OsStr;
use std::os::unix::ffi::OsStrExt;

fn unhex(s: &str) -> Vec<u8> {
    if s == "-" {
        return Vec::new();
    }
    (0..s.len() / 2)
        .map(|i| u8::from_str_radix(&s[2 * i..2 * i + 2], 16).unwrap())
        .collect()
}

fn hex(b: &[u8]) -> String {
    let mut s = String::new();
    for x in b {
        s.push_str(&format!("{:02x}", x));
    }
    if s.is_empty() {
        s.push('-');
    }
    s
}

fn lines() -> Vec<String> {
    let p = std::env::var("VERIF_REPLAY_IN").expect("VERIF_REPLAY_IN");
    std::fs::read_to_string(p)
        .unwrap()
        .lines()
        .map(|l| l.to_string())
        .collect()
}

#[test]
fn possible_batch() {
    for (i, l) in lines().iter().enumerate() {
        let p = unhex(l);
        let r = std::panic::catch_unwind(|| {
            let mut out = Vec::new();
            for df in possible_do_files(OsStr::from_bytes(&p)) {
                out.push(format!(
                    "{},{},{},{}",
                    hex(df.do_dir.as_os_str().as_bytes()),
                    hex(df.do_file.as_bytes()),
                    hex(df.base_name.as_os_str().as_bytes()),
                    hex(df.ext.as_bytes())
                ));
            }
            out
        });
        match r {
            Ok(out) => println!("VERIF-OUT {} {}", i, out.join(" ")),
            Err(_) => println!("VERIF-OUT {} PANIC", i),
        }
    }
}

/// line: `<target name relative to the project base, hex> <existing .do file relative to the base, hex | ->`
/// A project is laid out under a temporary directory *below* an extra directory level (so that candidates above the base are
/// inside the sandbox too), the real find_do_file runs for the target, and the edges it recorded are printed as
/// `<source name>:<mode>`.
#[test]
fn find_do_file_batch() {
    use crate::state::verif_replay::build_world;
    use crate::state::{File, ProcessTransaction};
    use rusqlite::TransactionBehavior;
    let home = std::env::current_dir().unwrap();
    for (i, l) in lines().iter().enumerate() {
        let parts: Vec<&str> = l.split(' ').collect();
        let tname = String::from_utf8(unhex(parts[0])).unwrap();
        let line = format!("R=5 T=2 OP=find F=2,{},1,0,N,N,N,N,N", parts[0]);
        let lp: Vec<&str> = line.split(' ').collect();
        let mut w = build_world(&lp);
        let base = w.dir.path().to_path_buf();
        if let Some(d) = base.join(&tname).parent() {
            std::fs::create_dir_all(d).unwrap();
        }
        if parts[1] != "-" {
            let dn = String::from_utf8(unhex(parts[1])).unwrap();
            let p = if dn.starts_with('/') { std::path::PathBuf::from(&dn) } else { base.join(&dn) };
            // never create files outside the sandbox directory
            if p.starts_with(&base) {
                std::fs::create_dir_all(p.parent().unwrap()).unwrap();
                std::fs::write(&p, b"echo hi\n").unwrap();
            }
        }
        let res = std::panic::catch_unwind(std::panic::AssertUnwindSafe(|| -> String {
            let mut ptx = ProcessTransaction::new(&mut w.ps, TransactionBehavior::Immediate).unwrap();
            let mut f = File::from_id(&mut ptx, 2).unwrap();
            let r = find_do_file(&mut ptx, &mut f);
            let found = match r {
                Ok(Some(_)) => "FOUND",
                Ok(None) => "NONE",
                Err(_) => "ERR",
            };
            ptx.commit().unwrap();
            found.to_string()
        }));
        let edges = crate::state::verif_replay::dump_named_deps(&w.ps, 2);
        println!("VERIF-OUT {} {} {}", i, res.unwrap_or("PANIC".to_string()), edges);
        std::env::set_current_dir(&home).unwrap();
    }
}
