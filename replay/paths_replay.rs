// Appended (as `#[cfg(test)] mod verif_replay`) to src/paths.rs of a scratch copy of the repository.
use super::*;
use std::ffi::OsStr;
use std::os::unix::ffi::OsStrExt;

fn unhex(s: &str) -> Vec<u8> {
    if s == "-" {
        return Vec::new();
    }
    (0..s.len() / 2)
        .map(|i| u8::from_str_radix(&s[2 * i..2 * i + 2], 16).unwrap())
        .collect()
}

fn hex(b: &[u8]) -> String {
    let mut s = String::new();
    for x in b {
        s.push_str(&format!("{:02x}", x));
    }
    if s.is_empty() {
        s.push('-');
    }
    s
}

fn lines() -> Vec<String> {
    let p = std::env::var("VERIF_REPLAY_IN").expect("VERIF_REPLAY_IN");
    std::fs::read_to_string(p)
        .unwrap()
        .lines()
        .map(|l| l.to_string())
        .collect()
}

#[test]
fn possible_batch() {
    for (i, l) in lines().iter().enumerate() {
        let p = unhex(l);
        let r = std::panic::catch_unwind(|| {
            let mut out = Vec::new();
            for df in possible_do_files(OsStr::from_bytes(&p)) {
                out.push(format!(
                    "{},{},{},{}",
                    hex(df.do_dir.as_os_str().as_bytes()),
                    hex(df.do_file.as_bytes()),
                    hex(df.base_name.as_os_str().as_bytes()),
                    hex(df.ext.as_bytes())
                ));
            }
            out
        });
        match r {
            Ok(out) => println!("VERIF-OUT {} {}", i, out.join(" ")),
            Err(_) => println!("VERIF-OUT {} PANIC", i),
        }
    }
}
