"""str / OsStr / Path / PathBuf library functions as Python reference implementations whose byte comparisons
go through eng.branch (so they fork on symbolic bytes exactly like executing the library code would)."""
import re
import z3
from . import S
from ..values import *
from ..srcinfo import type_base
from .core import some, none, ok, err, deref_all, values_eq, deref_value, REGISTRY_as_ref, bytes_to_str
from .collections import seq, conc


def items_of(eng, v, kind='str'):
    v = deref_all(v)
    if isinstance(v, (Bytes, Vec, Arr)):
        return tuple(v.items)
    return tuple(REGISTRY_as_ref(eng, v, kind).items)


def byte_is(eng, b, c):
    """does byte/term b equal concrete byte c (forks if undecided)"""
    if isinstance(b, Tok):
        return False if tok_excludes(b, c) else _tok_unsupported(b)
    if isinstance(b, int):
        return b == c
    return eng.branch(b == z3.BitVecVal(c, b.size()))


def tok_excludes(t, c):
    # decimal tokens consist of [0-9-]; debug/display tokens are unknown
    if t.kind == 'dec':
        return not (48 <= c <= 57 or c == 45)
    if t.kind == 'float':
        return c not in b'0123456789.-+eEinfNa'
    return False


def _tok_unsupported(t):
    raise Unsupported('byte test on opaque token %r' % (t,))


def char_val(eng, c):
    """pattern char (u32 / int) -> concrete byte if ASCII"""
    c = eng.concrete(c, 'pattern char')
    if c >= 0x80:
        raise Unsupported('non-ASCII pattern char')
    return c


class Pat:
    """string pattern: char, &str, or predicate closure"""
    def __init__(self, eng, p):
        self.eng = eng
        p0 = p
        p = deref_all(p) if isinstance(p, Ref) else p
        if isinstance(p, (Bytes, Vec)):
            self.kind = 'str'
            self.items = tuple(p.items)
        elif isinstance(p, (int,)) or is_sym(p):
            self.kind = 'str'
            self.items = (char_val(eng, p),)
        elif isinstance(p, Arr):
            self.kind = 'set'
            self.items = tuple(char_val(eng, x) for x in p.items)
        else:
            self.kind = 'fn'
            self.fn = p0

    def match_len_at(self, items, i):
        """length of the match starting at i, or None"""
        eng = self.eng
        if self.kind == 'str':
            n = len(self.items)
            if i + n > len(items):
                return None
            for k in range(n):
                if not eng.branch(values_eq(eng, items[i + k], self.items[k])):
                    return None
            return n
        if i >= len(items):
            return None
        if self.kind == 'set':
            for c in self.items:
                if byte_is(eng, items[i], c):
                    return 1
            return None
        b = items[i]
        ch = b if isinstance(b, int) else z3.ZeroExt(24, b)
        if eng.branch(eng.call_closure(self.fn, [ch])):
            return 1
        return None

    def find(self, items, start=0):
        i = start
        if self.kind == 'str' and len(self.items) == 0:
            return (start, 0)
        while i < len(items):
            n = self.match_len_at(items, i)
            if n is not None:
                return (i, n)
            i += 1
        return None

    def rfind(self, items):
        i = len(items)
        while i >= 0:
            n = self.match_len_at(items, i)
            if n is not None and (n > 0 or self.kind == 'str'):
                return (i, n)
            i -= 1
        return None


def mk(items, like):
    k = like.kind if isinstance(like, Bytes) else {'String': 'str', 'OsString': 'OsStr', 'PathBuf': 'Path'}.get(getattr(like, 'kind', ''), 'str')
    return Bytes(items, k)


def is_ws(eng, b):
    if isinstance(b, Tok) and b.kind in ('display', 'debug'):
        # assumption (listed in the evidence of specs that format errors): the Display/Debug text of an opaque value such as
        # io::Error neither starts nor ends with white space
        return False
    for c in (32, 9, 10, 13, 11, 12):
        if byte_is(eng, b, c):
            return True
    if not isinstance(b, int) and not isinstance(b, Tok):
        if not eng.branch(z3.ULT(b, z3.BitVecVal(0x80, 8))):
            raise Unsupported('symbolic non-ASCII byte in whitespace test')
    return False


@S('is_separator', 'path::is_separator', 'std::path::is_separator')
def _(eng, ci, a, sp):
    c = a[0]
    if isinstance(c, int):
        return c == 47
    return c == z3.BitVecVal(47, c.size())


@S('impl_str::starts_with', 'impl_str::ends_with')
def _(eng, ci, a, sp):
    items = items_of(eng, a[0])
    p = Pat(eng, a[1])
    if ci.method == 'starts_with':
        return p.match_len_at(items, 0) is not None
    if p.kind == 'str':
        n = len(p.items)
        return n <= len(items) and p.match_len_at(items, len(items) - n) is not None
    return len(items) > 0 and p.match_len_at(items, len(items) - 1) is not None


@S('impl_str::contains')
def _(eng, ci, a, sp):
    return Pat(eng, a[1]).find(items_of(eng, a[0])) is not None


@S('impl_str::find')
def _(eng, ci, a, sp):
    r = Pat(eng, a[1]).find(items_of(eng, a[0]))
    return none() if r is None else some(r[0])


@S('impl_str::rfind')
def _(eng, ci, a, sp):
    r = Pat(eng, a[1]).rfind(items_of(eng, a[0]))
    return none() if r is None else some(r[0])


@S('impl_str::split_at')
def _(eng, ci, a, sp):
    b = deref_all(a[0])
    i = conc(eng, a[1])
    if i > len(b.items):
        raise Panic('byte index %d is out of bounds' % i, sp, kind='bounds')
    return Struct('()', [mk(b.items[:i], b), mk(b.items[i:], b)])


@S('impl_str::split_once')
def _(eng, ci, a, sp):
    b = deref_all(a[0])
    r = Pat(eng, a[1]).find(tuple(b.items))
    if r is None:
        return none()
    return some(Struct('()', [mk(b.items[:r[0]], b), mk(b.items[r[0] + r[1]:], b)]))


def split_generic(eng, b, pat, limit=None, rev=False):
    items = tuple(b.items)
    p = Pat(eng, pat)
    out = []
    if not rev:
        start = 0
        while True:
            if limit is not None and len(out) == limit - 1:
                out.append(items[start:])
                break
            r = p.find(items, start)
            if r is None or (r[1] == 0):
                out.append(items[start:])
                break
            out.append(items[start:r[0]])
            start = r[0] + r[1]
    else:
        end = len(items)
        while True:
            if limit is not None and len(out) == limit - 1:
                out.append(items[:end])
                break
            r = Pat(eng, pat).rfind(items[:end])
            if r is None:
                out.append(items[:end])
                break
            out.append(items[r[0] + r[1]:end])
            end = r[0]
    return [mk(x, b) for x in out]


@S('impl_str::split')
def _(eng, ci, a, sp):
    b = deref_all(a[0])
    return Struct('SeqIter', [Vec(split_generic(eng, b, a[1])), 0, 'val'])


@S('impl_str::splitn')
def _(eng, ci, a, sp):
    b = deref_all(a[0])
    n = conc(eng, a[1])
    if n == 0:
        return Struct('SeqIter', [Vec([]), 0, 'val'])
    return Struct('SeqIter', [Vec(split_generic(eng, b, a[2], limit=n)), 0, 'val'])


@S('impl_str::rsplitn')
def _(eng, ci, a, sp):
    b = deref_all(a[0])
    n = conc(eng, a[1])
    if n == 0:
        return Struct('SeqIter', [Vec([]), 0, 'val'])
    return Struct('SeqIter', [Vec(split_generic(eng, b, a[2], limit=n, rev=True)), 0, 'val'])


@S('impl_str::rsplit')
def _(eng, ci, a, sp):
    b = deref_all(a[0])
    return Struct('SeqIter', [Vec(split_generic(eng, b, a[1], rev=True)), 0, 'val'])


@S('impl_str::split_whitespace')
def _(eng, ci, a, sp):
    b = deref_all(a[0])
    out, cur = [], []
    for x in b.items:
        if is_ws(eng, x):
            if cur:
                out.append(mk(cur, b))
                cur = []
        else:
            cur.append(x)
    if cur:
        out.append(mk(cur, b))
    return Struct('SeqIter', [Vec(out), 0, 'val'])


@S('impl_str::lines')
def _(eng, ci, a, sp):
    b = deref_all(a[0])
    out, cur = [], []
    items = list(b.items)
    for x in items:
        if byte_is(eng, x, 10):
            if cur and byte_is(eng, cur[-1], 13):
                cur.pop()
            out.append(mk(cur, b))
            cur = []
        else:
            cur.append(x)
    if cur:
        out.append(mk(cur, b))
    return Struct('SeqIter', [Vec(out), 0, 'val'])


@S('impl_str::match_indices')
def _(eng, ci, a, sp):
    b = deref_all(a[0])
    items = tuple(b.items)
    p = Pat(eng, a[1])
    out = []
    i = 0
    while True:
        r = p.find(items, i)
        if r is None:
            break
        out.append(Struct('()', [r[0], mk(items[r[0]:r[0] + r[1]], b)]))
        i = r[0] + max(r[1], 1)
        if i > len(items):
            break
    return Struct('SeqIter', [Vec(out), 0, 'val'])


@S('impl_str::matches')
def _(eng, ci, a, sp):
    b = deref_all(a[0])
    items = tuple(b.items)
    p = Pat(eng, a[1])
    out = []
    i = 0
    while True:
        r = p.find(items, i)
        if r is None:
            break
        out.append(mk(items[r[0]:r[0] + r[1]], b))
        i = r[0] + max(r[1], 1)
    return Struct('SeqIter', [Vec(out), 0, 'val'])


@S('impl_str::trim', 'impl_str::trim_end', 'impl_str::trim_start')
def _(eng, ci, a, sp):
    b = deref_all(a[0])
    items = list(b.items)
    lo, hi = 0, len(items)
    if ci.method in ('trim', 'trim_end'):
        while hi > lo and is_ws(eng, items[hi - 1]):
            hi -= 1
    if ci.method in ('trim', 'trim_start'):
        while lo < hi and is_ws(eng, items[lo]):
            lo += 1
    return mk(items[lo:hi], b)


@S('impl_str::trim_end_matches', 'impl_str::trim_start_matches', 'impl_str::trim_matches')
def _(eng, ci, a, sp):
    b = deref_all(a[0])
    items = list(b.items)
    p = Pat(eng, a[1])
    lo, hi = 0, len(items)
    if ci.method in ('trim_end_matches', 'trim_matches'):
        while hi > lo:
            n = len(p.items) if p.kind == 'str' else 1
            if hi - n < lo or p.match_len_at(tuple(items[:hi]), hi - n) is None:
                break
            hi -= n
    if ci.method in ('trim_start_matches', 'trim_matches'):
        while lo < hi:
            n = p.match_len_at(tuple(items[:hi]), lo)
            if not n:
                break
            lo += n
    return mk(items[lo:hi], b)


@S('impl_str::strip_prefix', 'impl_str::strip_suffix')
def _(eng, ci, a, sp):
    b = deref_all(a[0])
    items = tuple(b.items)
    p = Pat(eng, a[1])
    if ci.method == 'strip_prefix':
        n = p.match_len_at(items, 0)
        return none() if n is None else some(mk(items[n:], b))
    n = len(p.items) if p.kind == 'str' else 1
    if n > len(items) or p.match_len_at(items, len(items) - n) is None:
        return none()
    return some(mk(items[:len(items) - n], b))


@S('impl_str::replace')
def _(eng, ci, a, sp):
    b = deref_all(a[0])
    items = tuple(b.items)
    p = Pat(eng, a[1])
    to = items_of(eng, a[2])
    out = []
    i = 0
    while i < len(items):
        n = p.match_len_at(items, i)
        if n:
            out.extend(to)
            i += n
        else:
            out.append(items[i])
            i += 1
    return Vec(out, 'String')


@S('impl_str::chars', 'impl_str::bytes')
def _(eng, ci, a, sp):
    b = deref_all(a[0])
    out = []
    for x in b.items:
        if ci.method == 'bytes':
            out.append(x)
            continue
        if isinstance(x, int):
            if x >= 0x80:
                raise Unsupported('non-ASCII in chars()')
            out.append(x)
        elif isinstance(x, Tok):
            raise Unsupported('chars() over opaque token')
        else:
            if not eng.branch(z3.ULT(x, z3.BitVecVal(0x80, 8))):
                raise Unsupported('symbolic non-ASCII byte in chars() (outside the stated alphabet)')
            out.append(z3.ZeroExt(24, x))
    return Struct('SeqIter', [Vec(out), 0, 'val'])


@S('impl_str::char_indices')
def _(eng, ci, a, sp):
    b = deref_all(a[0])
    out = []
    for i, x in enumerate(b.items):
        if isinstance(x, int):
            if x >= 0x80:
                raise Unsupported('non-ASCII in char_indices()')
            out.append(Struct('()', [i, x]))
        else:
            if not eng.branch(z3.ULT(x, z3.BitVecVal(0x80, 8))):
                raise Unsupported('symbolic non-ASCII byte in char_indices()')
            out.append(Struct('()', [i, z3.ZeroExt(24, x)]))
    return Struct('SeqIter', [Vec(out), 0, 'val'])


@S('impl_str::is_char_boundary')
def _(eng, ci, a, sp):
    return True


@S('impl_str::parse', 'FromStr::from_str')
def _(eng, ci, a, sp):
    m = re.search(r'parse::<(\w+)>', ci.raw)
    ty = m.group(1) if m else type_base(ci.selfty or '')
    b = deref_all(a[0])
    items = list(b.items)
    if len(items) == 1 and isinstance(items[0], Tok) and items[0].kind == 'dec':
        return ok(items[0].val)
    if ty in INTW:
        # concretise digit by digit
        neg = False
        i = 0
        if not items:
            return err(Opaque('ParseIntError', 'empty'))
        if byte_is(eng, items[0], 45):
            if not is_signed(ty):
                return err(Opaque('ParseIntError', 'invalid digit'))
            neg = True
            i = 1
        elif byte_is(eng, items[0], 43):
            i = 1
        if i >= len(items):
            return err(Opaque('ParseIntError', 'invalid digit'))
        val = 0
        for x in items[i:]:
            d = None
            for c in range(48, 58):
                if byte_is(eng, x, c):
                    d = c - 48
                    break
            if d is None:
                return err(Opaque('ParseIntError', 'invalid digit'))
            val = val * 10 + d
        if neg:
            val = -val
        w = INTW[ty]
        lo, hi = (-(1 << (w - 1)), (1 << (w - 1)) - 1) if is_signed(ty) else (0, (1 << w) - 1)
        if not (lo <= val <= hi):
            return err(Opaque('ParseIntError', 'overflow'))
        return ok(val)
    if ty in ('f64', 'f32'):
        for x in items:
            if isinstance(x, Tok) and x.kind == 'float':
                if len(items) == 1:
                    return ok(Opaque('f64', x.val))
        try:
            return ok(float(bytes(items).decode()))
        except Exception:
            raise Unsupported('parse::<f64> of symbolic text')
    nm = eng.impl_index.get((ty, 'FromStr', 'from_str'))
    if nm:
        return eng.run_body(eng.body(nm), [a[0]])
    raise Unsupported('parse::<%s>' % ty)


@S('impl_str::eq_ignore_ascii_case')
def _(eng, ci, a, sp):
    x, y = items_of(eng, a[0]), items_of(eng, a[1])
    if len(x) != len(y):
        return False
    for p, q in zip(x, y):
        if not (isinstance(p, int) and isinstance(q, int)):
            raise Unsupported('symbolic eq_ignore_ascii_case')
        if chr(p).lower() != chr(q).lower():
            return False
    return True


@S('impl_str::to_lowercase', 'impl_str::to_ascii_lowercase')
def _(eng, ci, a, sp):
    x = items_of(eng, a[0])
    if not all(isinstance(p, int) for p in x):
        raise Unsupported('symbolic to_lowercase')
    return Vec(list(bytes(x).lower()), 'String')


@S('impl_str::get', 'impl_str::get_unchecked')
def _(eng, ci, a, sp):
    b = deref_all(a[0])
    idx = a[1]
    n = len(b.items)
    if idx.name == 'RangeFrom':
        lo, hi = conc(eng, idx.f[0]), n
    elif idx.name == 'RangeTo':
        lo, hi = 0, conc(eng, idx.f[0])
    else:
        lo, hi = conc(eng, idx.f[0]), conc(eng, idx.f[1])
    if lo > hi or hi > n:
        return none()
    r = mk(b.items[lo:hi], b)
    return r if ci.method == 'get_unchecked' else some(r)


@S('char::is_whitespace', 'char::is_ascii_whitespace', 'impl_char::is_whitespace', 'impl_char::is_ascii_whitespace')
def _(eng, ci, a, sp):
    c = a[0]
    if isinstance(c, int):
        return chr(c).isspace()
    r = False
    for k in (32, 9, 10, 13, 11, 12):
        r = b_or(r, c == z3.BitVecVal(k, c.size()))
    return r


@S('char::is_ascii_digit', 'u8::is_ascii_digit', 'impl_char::is_ascii_digit', 'impl_u8::is_ascii_digit')
def _(eng, ci, a, sp):
    c = deref_all(a[0])
    if isinstance(c, int):
        return 48 <= c <= 57
    return z3.And(z3.UGE(c, z3.BitVecVal(48, c.size())), z3.ULE(c, z3.BitVecVal(57, c.size())))


@S('char::len_utf8', 'impl_char::len_utf8')
def _(eng, ci, a, sp):
    c = a[0]
    if isinstance(c, int):
        return len(chr(c).encode('utf-8'))
    if eng.branch(z3.ULT(c, z3.BitVecVal(0x80, 32))):
        return 1
    raise Unsupported('len_utf8 of symbolic non-ASCII char')


@S('CString::new')
def _(eng, ci, a, sp):
    v = deref_all(a[0])
    items = list(v.items)
    for x in items:
        if isinstance(x, Tok):
            continue
        if byte_is(eng, x, 0):
            return err(Opaque('NulError', None))
    return ok(Vec(items, 'CString'))


@S('CStr::from_bytes_with_nul_unchecked', 'CStr::from_bytes_with_nul')
def _(eng, ci, a, sp):
    b = deref_all(a[0])
    r = Bytes(b.items[:-1], 'CStr')
    return r if ci.method.endswith('unchecked') else ok(r)


# ---------------------------------------------------------------------------------------- Path
def path_items(eng, v):
    return items_of(eng, v, 'Path')


def comps(eng, items):
    """std::path::Components for unix: list of ('RootDir'|'CurDir'|'ParentDir'|'Normal', bytes)"""
    out = []
    n = len(items)
    i = 0
    has_root = n > 0 and byte_is(eng, items[0], 47)
    if has_root:
        out.append(('RootDir', (47,)))
    first = True
    while i < n:
        # skip separators
        if byte_is(eng, items[i], 47):
            i += 1
            continue
        j = i
        while j < n and not byte_is(eng, items[j], 47):
            j += 1
        c = tuple(items[i:j])
        if len(c) == 1 and byte_is(eng, c[0], 46):
            if first and not has_root:
                out.append(('CurDir', (46,)))
        elif len(c) == 2 and byte_is(eng, c[0], 46) and byte_is(eng, c[1], 46):
            out.append(('ParentDir', (46, 46)))
        else:
            out.append(('Normal', c))
        first = False
        i = j
    return out


def comp_value(c):
    k, b = c
    if k == 'Normal':
        return Enum('Component', 'Normal', [Bytes(b, 'OsStr')])
    return Enum('Component', k, [])


@S('Path::components')
def _(eng, ci, a, sp):
    cs = comps(eng, path_items(eng, a[0]))
    return Struct('SeqIter', [Vec([comp_value(c) for c in cs]), 0, 'val'])


def comps_spans(eng, items):
    """components with their start offsets: [(kind, bytes, start)]"""
    out = []
    n = len(items)
    i = 0
    has_root = n > 0 and byte_is(eng, items[0], 47)
    if has_root:
        out.append(('RootDir', (47,), 0))
    first = True
    while i < n:
        if byte_is(eng, items[i], 47):
            i += 1
            continue
        j = i
        while j < n and not byte_is(eng, items[j], 47):
            j += 1
        c = tuple(items[i:j])
        if len(c) == 1 and byte_is(eng, c[0], 46):
            if first and not has_root:
                out.append(('CurDir', (46,), i))
        elif len(c) == 2 and byte_is(eng, c[0], 46) and byte_is(eng, c[1], 46):
            out.append(('ParentDir', (46, 46), i))
        else:
            out.append(('Normal', c, i))
        first = False
        i = j
    return out


@S('Path::iter')
def _(eng, ci, a, sp):
    items = path_items(eng, a[0])
    return Struct('PathIter', [items, comps_spans(eng, items), 0])


@S('<PathIter as Iterator>::next')
def _(eng, ci, a, sp):
    it = deref_all(a[0])
    items, spans, pos = it.f
    if pos >= len(spans):
        return none()
    it.f[2] = pos + 1
    return some(Bytes(spans[pos][1], 'OsStr'))


@S('Iter::as_path', 'path::Iter::as_path')
def _(eng, ci, a, sp):
    it = deref_all(a[0])
    items, spans, pos = it.f
    if pos >= len(spans):
        return Bytes((), 'Path')
    start = spans[pos][2]
    rest = list(items[start:])
    # trailing separators / '.' components are not part of the remaining path in std's Components::as_path
    while len(rest) > 1 and isinstance(rest[-1], int) and rest[-1] == 47:
        rest.pop()
    return Bytes(rest, 'Path')


@S('Component::as_os_str')
def _(eng, ci, a, sp):
    from .core import component_bytes
    return component_bytes(deref_all(a[0]))


@S('Path::is_absolute', 'Path::has_root')
def _(eng, ci, a, sp):
    items = path_items(eng, a[0])
    return len(items) > 0 and byte_is(eng, items[0], 47)


@S('Path::is_relative')
def _(eng, ci, a, sp):
    items = path_items(eng, a[0])
    return not (len(items) > 0 and byte_is(eng, items[0], 47))


def push_path(eng, buf, items):
    """PathBuf::push semantics (unix)"""
    if len(items) > 0 and byte_is(eng, items[0], 47):
        del buf[:]
        buf.extend(items)
        return
    if buf and not byte_is(eng, buf[-1], 47):
        buf.append(47)
    buf.extend(items)


@S('PathBuf::push')
def _(eng, ci, a, sp):
    v = deref_all(a[0])
    push_path(eng, v.items, path_items(eng, a[1]))
    return UNIT


@S('Path::join')
def _(eng, ci, a, sp):
    buf = list(path_items(eng, a[0]))
    push_path(eng, buf, path_items(eng, a[1]))
    return Vec(buf, 'PathBuf')


def parent_of(eng, items):
    """Path::parent: strip the last component; None for '/' or ''"""
    cs = comps(eng, items)
    if not cs:
        return None
    if cs[-1][0] == 'RootDir':
        return None
    return comps_to_prefix(eng, items, len(cs) - 1)


def comps_to_prefix(eng, items, k):
    """the shortest prefix of `items` that contains exactly the first k components, as std's Components::as_path does
    (trailing separators trimmed)"""
    n = len(items)
    i = 0
    cnt = 0
    has_root = n > 0 and byte_is(eng, items[0], 47)
    end = 0
    if has_root:
        cnt = 1
        end = 1
        i = 1
    if cnt >= k:
        return tuple(items[:end])
    first = True
    while i < n:
        if byte_is(eng, items[i], 47):
            i += 1
            continue
        j = i
        while j < n and not byte_is(eng, items[j], 47):
            j += 1
        c = items[i:j]
        counted = True
        if len(c) == 1 and byte_is(eng, c[0], 46):
            counted = first and not has_root
        if counted:
            cnt += 1
            end = j
        first = False
        i = j
        if cnt >= k:
            return tuple(items[:end])
    return tuple(items[:end])


@S('Path::parent')
def _(eng, ci, a, sp):
    items = path_items(eng, a[0])
    p = parent_of(eng, items)
    return none() if p is None else some(Bytes(p, 'Path'))


@S('Path::file_name')
def _(eng, ci, a, sp):
    cs = comps(eng, path_items(eng, a[0]))
    if not cs or cs[-1][0] != 'Normal':
        return none()
    return some(Bytes(cs[-1][1], 'OsStr'))


@S('Path::ancestors')
def _(eng, ci, a, sp):
    items = path_items(eng, a[0])
    out = [Bytes(items, 'Path')]
    cur = items
    while True:
        p = parent_of(eng, cur)
        if p is None:
            break
        out.append(Bytes(p, 'Path'))
        cur = p
    return Struct('SeqIter', [Vec(out), 0, 'val'])


@S('Path::starts_with')
def _(eng, ci, a, sp):
    x = comps(eng, path_items(eng, a[0]))
    y = comps(eng, path_items(eng, a[1]))
    if len(y) > len(x):
        return False
    for p, q in zip(x, y):
        if p[0] != q[0]:
            return False
        if p[0] == 'Normal':
            if not eng.branch(values_eq(eng, Bytes(p[1]), Bytes(q[1]))):
                return False
    return True


@S('Path::strip_prefix')
def _(eng, ci, a, sp):
    xi = path_items(eng, a[0])
    x = comps(eng, xi)
    y = comps(eng, path_items(eng, a[1]))
    if len(y) > len(x):
        return err(Opaque('StripPrefixError'))
    for p, q in zip(x, y):
        if p[0] != q[0]:
            return err(Opaque('StripPrefixError'))
        if p[0] == 'Normal' and not eng.branch(values_eq(eng, Bytes(p[1]), Bytes(q[1]))):
            return err(Opaque('StripPrefixError'))
    rest = x[len(y):]
    out = []
    for c in rest:
        if out:
            out.append(47)
        out.extend(c[1])
    return ok(Bytes(out, 'Path'))


@S('PathBuf::pop')
def _(eng, ci, a, sp):
    v = deref_all(a[0])
    p = parent_of(eng, tuple(v.items))
    if p is None:
        return False
    v.items[:] = list(p)
    return True


@S('Path::extension')
def _(eng, ci, a, sp):
    cs = comps(eng, path_items(eng, a[0]))
    if not cs or cs[-1][0] != 'Normal':
        return none()
    name = cs[-1][1]
    for i in range(len(name) - 1, 0, -1):
        if byte_is(eng, name[i], 46):
            return some(Bytes(name[i + 1:], 'OsStr'))
    return none()


@S('Path::display', 'OsStr::display')
def _(eng, ci, a, sp):
    return Bytes(path_items(eng, a[0]), 'str')


@S('PathBuf::into_string', 'PathBuf::as_mut_os_string')
def _(eng, ci, a, sp):
    return a[0]


@S('ConstCStr::from_str_with_nul_unchecked')
def _(eng, ci, a, sp):
    """zombiezen_const_cstr::const_cstr!("..."): a &'static str with a trailing NUL"""
    return Struct('ConstCStr', [deref_all(a[0])])


@S('ConstCStr::as_cstr')
def _(eng, ci, a, sp):
    v = deref_all(a[0])
    b = deref_all(v.f[0])
    items = list(b.items)
    if items and items[-1] == 0:
        items = items[:-1]
    return Bytes(items, 'CStr')
