"""Vec / slices / HashMap / HashSet / VecDeque / iterator adapters."""
import re
import z3
from . import S
from ..values import *
from ..engine import BoundExceeded
from ..srcinfo import type_base
from .core import some, none, ok, err, deref_all, values_eq, deref_value, default_for


def seq(v):
    """underlying python sequence of a Vec/Bytes/Arr (through references)"""
    v = deref_all(v)
    if isinstance(v, (Vec, Bytes, Arr, Deque)):
        return v.items
    raise Unsupported('not a sequence: %r' % (v,))


def vec_of(ref):
    v = deref_all(ref)
    if not isinstance(v, Vec):
        raise Unsupported('not a Vec: %r' % (v,))
    return v


def conc(eng, v, what='index'):
    return eng.concrete(v, what)


# ---------------------------------------------------------------------------------------- Vec
@S('Vec::new', 'String::new', 'OsString::new', 'PathBuf::new')
def _(eng, ci, a, sp):
    return Vec([], ci.segs[-2] if ci.segs[-2] in ('String', 'OsString', 'PathBuf') else 'Vec')


@S('Vec::with_capacity', 'String::with_capacity', 'OsString::with_capacity', 'PathBuf::with_capacity')
def _(eng, ci, a, sp):
    return Vec([], ci.segs[-2] if ci.segs[-2] in ('String', 'OsString', 'PathBuf') else 'Vec')


@S('Vec::len', 'String::len', 'OsString::len', 'impl_slice::len', 'impl_str::len', 'OsStr::len', 'VecDeque::len')
def _(eng, ci, a, sp):
    return len(seq(a[0]))


@S('Vec::is_empty', 'String::is_empty', 'OsString::is_empty', 'impl_slice::is_empty', 'impl_str::is_empty', 'OsStr::is_empty',
   'VecDeque::is_empty')
def _(eng, ci, a, sp):
    return len(seq(a[0])) == 0


@S('Vec::push', 'String::push', 'VecDeque::push_back')
def _(eng, ci, a, sp):
    v = deref_all(a[0])
    if ci.segs[-2] == 'String':
        v.items.extend(encode_char(eng, a[1]))
    else:
        v.items.append(a[1])
    return UNIT


def encode_char(eng, c):
    if isinstance(c, int):
        return list(chr(c).encode('utf-8'))
    if eng.branch(z3.ULT(c, z3.BitVecVal(0x80, 32))):
        return [z3.Extract(7, 0, c)]
    raise Unsupported('push of symbolic non-ASCII char')


@S('Vec::pop', 'VecDeque::pop_back')
def _(eng, ci, a, sp):
    v = deref_all(a[0])
    if not v.items:
        return none()
    return some(v.items.pop())


@S('VecDeque::push_front')
def _(eng, ci, a, sp):
    deref_all(a[0]).items.insert(0, a[1])
    return UNIT


@S('VecDeque::pop_front')
def _(eng, ci, a, sp):
    v = deref_all(a[0])
    if not v.items:
        return none()
    return some(v.items.pop(0))


@S('VecDeque::front')
def _(eng, ci, a, sp):
    v = deref_all(a[0])
    if not v.items:
        return none()
    return some(Ref(v.items, 0))


@S('VecDeque::new')
def _(eng, ci, a, sp):
    return Deque()


@S('VecDeque::insert', 'Vec::insert')
def _(eng, ci, a, sp):
    v = deref_all(a[0])
    i = conc(eng, a[1])
    if i > len(v.items):
        raise Panic('insertion index out of bounds', sp)
    v.items.insert(i, a[2])
    return UNIT


@S('VecDeque::retain', 'Vec::retain')
def _(eng, ci, a, sp):
    v = deref_all(a[0])
    keep = []
    for i, x in enumerate(list(v.items)):
        r = eng.call_closure(a[1], [new_cell(x)])
        if eng.branch(r):
            keep.append(x)
        else:
            eng.drop_value(x)
    v.items[:] = keep
    return UNIT


@S('VecDeque::partition_point', 'impl_slice::partition_point')
def _(eng, ci, a, sp):
    items = seq(a[0])
    n = 0
    for x in items:
        r = eng.call_closure(a[1], [new_cell(x)])
        if eng.branch(r):
            n += 1
        else:
            break
    return n


@S('VecDeque::clear', 'Vec::clear', 'String::clear', 'HashMap::clear', 'HashSet::clear', 'OsString::clear')
def _(eng, ci, a, sp):
    v = deref_all(a[0])
    old = list(v.items)
    del v.items[:]
    for x in old:
        eng.drop_value(x if not isinstance(x, list) else x[1])
    return UNIT


@S('VecDeque::iter', 'Vec::iter', 'impl_slice::iter', 'impl_slice::iter_mut', 'Vec::iter_mut')
def _(eng, ci, a, sp):
    v = deref_all(a[0])
    return Struct('SeqIter', [v, 0, 'ref'])


@S('impl_slice::windows')
def _(eng, ci, a, sp):
    v = deref_all(a[0])
    n = conc(eng, a[1])
    items = list(v.items)
    wins = [Bytes(items[i:i + n], 'slice') for i in range(0, max(0, len(items) - n + 1))]
    return Struct('SeqIter', [Vec(wins), 0, 'val'])


@S('Vec::truncate')
def _(eng, ci, a, sp):
    v = deref_all(a[0])
    n = conc(eng, a[1])
    del v.items[n:]
    return UNIT


@S('Vec::as_slice', 'Vec::as_mut_slice', 'String::as_str', 'String::as_bytes', 'OsString::as_os_str', 'PathBuf::as_path',
   'impl_str::as_bytes', 'OsStrExt::as_bytes', 'OsStrExt::from_bytes', 'Path::new', 'OsStr::new', 'Path::as_os_str',
   'CString::as_c_str', 'CStr::to_bytes', 'impl_str::as_ptr', 'from_utf8_unchecked', 'str::from_utf8_unchecked',
   'OsStr::as_encoded_bytes', 'OsStr::from_encoded_bytes_unchecked', 'CString::as_bytes', 'String::as_mut_str')
def _(eng, ci, a, sp):
    v = deref_all(a[0])
    kind = {'as_slice': 'slice', 'as_mut_slice': 'slice', 'as_str': 'str', 'as_bytes': 'slice', 'as_os_str': 'OsStr',
            'as_path': 'Path', 'from_bytes': 'OsStr', 'new': 'Path' if (len(ci.segs) > 1 and ci.segs[-2] == 'Path') else 'OsStr', 'as_c_str': 'CStr',
            'to_bytes': 'slice', 'from_utf8_unchecked': 'str', 'as_encoded_bytes': 'slice',
            'from_encoded_bytes_unchecked': 'OsStr', 'as_mut_str': 'str'}.get(ci.method, 'slice')
    if isinstance(v, (Vec, Bytes)):
        return Bytes(v.items, kind)
    if isinstance(v, Arr):
        return Bytes(v.items, kind)
    if isinstance(v, (Struct, Enum)):
        # AsRef<OsStr>-style generic argument: go through AsRef
        from .core import REGISTRY_as_ref
        return REGISTRY_as_ref(eng, v, kind)
    raise Unsupported('%s on %r' % (ci.norm, v))


@S('String::into_bytes', 'OsStringExt::into_vec', 'OsStringExt::from_vec', 'PathBuf::into_os_string', 'String::into_boxed_str',
   'OsString::into_string_lossy', 'String::from_utf8_unchecked', 'Vec::into_boxed_slice', 'CString::into_bytes',
   'OsString::into_boxed_os_str', 'PathBuf::into_boxed_path', 'impl_slice::into_vec', 'Box::into_vec')
def _(eng, ci, a, sp):
    v = a[0]
    kind = {'into_bytes': 'Vec', 'into_vec': 'Vec', 'from_vec': 'OsString', 'into_os_string': 'OsString',
            'from_utf8_unchecked': 'String'}.get(ci.method, getattr(v, 'kind', 'Vec'))
    if isinstance(v, Vec):
        v.kind = kind
        return v
    raise Unsupported('%s on %r' % (ci.norm, v))


@S('String::from_utf8', 'str::from_utf8', 'from_utf8', 'OsString::into_string', 'OsStr::to_str', 'Path::to_str')
def _(eng, ci, a, sp):
    v = deref_all(a[0])
    items = v.items
    for x in items:
        if isinstance(x, Tok):
            continue
        if isinstance(x, int):
            if x >= 0x80:
                # concrete non-ASCII: validate whole string concretely if possible
                try:
                    bytes(i for i in items if isinstance(i, int)).decode('utf-8')
                except Exception:
                    return fail_utf8(ci, v)
            continue
        if not eng.branch(z3.ULT(x, z3.BitVecVal(0x80, 8))):
            raise Unsupported('symbolic non-ASCII byte in UTF-8 validation (outside the stated alphabet)')
    if ci.method in ('to_str',):
        return some(Bytes(items, 'str'))
    if ci.method == 'from_utf8' and (len(ci.segs) < 2 or ci.segs[-2] != 'String'):
        return ok(Bytes(items, 'str'))
    return ok(Vec(items, 'String'))


def fail_utf8(ci, v):
    if ci.method == 'to_str':
        return none()
    return err(Opaque('Utf8Error', v))


@S('impl_str::to_string', 'impl_str::to_owned', 'String::from', 'impl_str::into_string', 'OsStr::to_os_string',
   'Path::to_path_buf', 'impl_slice::to_vec', 'OsStr::to_owned', 'CStr::to_owned', 'Path::to_owned', 'impl_str::into_boxed_str',
   'OsStr::to_string_lossy', 'Path::to_string_lossy', 'String::from_utf8_lossy', 'OsString::from', 'PathBuf::from',
   'Path::into_path_buf', 'Vec::from')
def _(eng, ci, a, sp):
    v = deref_all(a[0])
    kind = {'to_string': 'String', 'to_os_string': 'OsString', 'to_path_buf': 'PathBuf', 'to_vec': 'Vec',
            'into_string': 'String', 'into_boxed_str': 'String', 'into_path_buf': 'PathBuf'}.get(ci.method)
    if kind is None:
        kind = {'String': 'String', 'OsString': 'OsString', 'PathBuf': 'PathBuf', 'Vec': 'Vec', 'impl_str': 'String',
                'OsStr': 'OsString', 'Path': 'PathBuf', 'CStr': 'CString'}[ci.segs[-2]]
    if ci.method in ('to_string_lossy', 'from_utf8_lossy'):
        return Enum('Cow', 'Borrowed', [Bytes(v.items, 'str')])
    if isinstance(v, Enum) and v.ty == 'Cow':
        v = deref_value(eng, v)
    if isinstance(v, (Bytes, Vec, Arr)):
        return Vec(v.items, kind)
    raise Unsupported('%s on %r' % (ci.norm, v))


@S('Cow::into_owned')
def _(eng, ci, a, sp):
    c = a[0]
    if c.var == 'Owned':
        return c.f[0]
    b = c.f[0]
    if isinstance(b, Bytes):
        return Vec(b.items, {'str': 'String', 'OsStr': 'OsString', 'Path': 'PathBuf', 'slice': 'Vec', 'CStr': 'CString'}[b.kind])
    if isinstance(b, Ref):
        return clone_val(b.get())
    raise Unsupported('Cow::into_owned of %r' % (c,))


@S('Cow::to_mut')
def _(eng, ci, a, sp):
    c = deref_all(a[0])
    if c.var == 'Borrowed':
        b = c.f[0]
        c.var = 'Owned'
        c.f[0] = Vec(b.items, {'str': 'String', 'OsStr': 'OsString', 'Path': 'PathBuf', 'slice': 'Vec'}[b.kind])
    return Ref(c.f, 0)


@S('Extend::extend', 'Vec::extend_from_slice', 'String::push_str', 'OsString::push', 'Vec::append')
def _(eng, ci, a, sp):
    v = deref_all(a[0])
    src = a[1]
    s = deref_all(src)
    if isinstance(v, Map):
        for x in iterate(eng, src):
            map_insert(eng, v, x if v.kind == 'HashSet' else x.f[0], UNIT if v.kind == 'HashSet' else x.f[1])
        return UNIT
    if isinstance(s, (Bytes, Vec, Arr)) and not (isinstance(s, Vec) and ci.method == 'extend' and False):
        items = list(s.items)
        if isinstance(s, Vec) and ci.method == 'append':
            del s.items[:]
        v.items.extend(items)
        return UNIT
    if isinstance(s, Enum) and s.ty == 'Cow':
        v.items.extend(deref_value(eng, s).items)
        return UNIT
    if isinstance(s, (Struct, Enum)) and ci.method == 'push':
        from .core import REGISTRY_as_ref
        v.items.extend(REGISTRY_as_ref(eng, src, 'OsStr').items)
        return UNIT
    for x in iterate(eng, src):
        v.items.append(x)
    return UNIT


@S('Index::index', 'IndexMut::index_mut')
def _(eng, ci, a, sp):
    base = deref_all(a[0])
    idx = a[1]
    if isinstance(base, Map):
        k = deref_all(idx)
        e = map_find(eng, base, k)
        if e is None:
            raise Panic('key not found in map index', sp)
        return Ref(e, 1)
    if isinstance(base, (Struct, Enum)):
        rt = eng.runtime_type(base)
        nm = eng.impl_index.get((rt, ci.trait, ci.method)) or eng.impl_index.get((rt, 'Index', ci.method))
        if nm:
            return eng.run_body(eng.body(nm), a)
    items = seq(base)
    kind = getattr(base, 'kind', 'slice') if isinstance(base, Bytes) else \
        {'String': 'str', 'OsString': 'OsStr', 'PathBuf': 'Path'}.get(getattr(base, 'kind', ''), 'slice')
    if isinstance(idx, Struct) and idx.name.startswith('Range'):
        n = len(items)
        if idx.name == 'RangeFrom':
            lo, hi = conc(eng, idx.f[0]), n
        elif idx.name == 'RangeTo':
            lo, hi = 0, conc(eng, idx.f[0])
        elif idx.name == 'RangeFull':
            lo, hi = 0, n
        elif idx.name == 'RangeInclusive':
            lo, hi = conc(eng, idx.f[0]), conc(eng, idx.f[1]) + 1
        elif idx.name == 'RangeToInclusive':
            lo, hi = 0, conc(eng, idx.f[0]) + 1
        else:
            lo, hi = conc(eng, idx.f[0]), conc(eng, idx.f[1])
        if lo > hi:
            raise Panic('slice index starts at %d but ends at %d' % (lo, hi), sp, kind='bounds')
        if hi > n:
            raise Panic('range end index %d out of range for slice of length %d' % (hi, n), sp, kind='bounds')
        return Bytes(items[lo:hi], kind)
    i = conc(eng, idx)
    if not (0 <= i < len(items)):
        raise Panic('index out of bounds: the len is %d but the index is %d' % (len(items), i), sp, kind='bounds')
    if isinstance(items, tuple):
        return new_cell(items[i])
    return Ref(items, i)


@S('impl_slice::get', 'Vec::get', 'impl_slice::get_mut', 'VecDeque::get')
def _(eng, ci, a, sp):
    items = seq(a[0])
    idx = a[1]
    if isinstance(idx, Struct) and idx.name.startswith('Range'):
        raise Unsupported('slice::get with range')
    i = conc(eng, idx)
    if 0 <= i < len(items):
        return some(new_cell(items[i]) if isinstance(items, tuple) else Ref(items, i))
    return none()


@S('impl_slice::first', 'Vec::first')
def _(eng, ci, a, sp):
    items = seq(a[0])
    return some(new_cell(items[0]) if isinstance(items, tuple) else Ref(items, 0)) if items else none()


@S('impl_slice::last', 'Vec::last')
def _(eng, ci, a, sp):
    items = seq(a[0])
    return some(new_cell(items[-1]) if isinstance(items, tuple) else Ref(items, len(items) - 1)) if items else none()


@S('impl_slice::contains', 'Vec::contains')
def _(eng, ci, a, sp):
    items = seq(a[0])
    x = deref_all(a[1])
    r = False
    for y in items:
        r = b_or(r, values_eq(eng, x, y))
    return r


@S('impl_slice::starts_with', 'impl_slice::ends_with')
def _(eng, ci, a, sp):
    items, pre = seq(a[0]), seq(a[1])
    if len(pre) > len(items):
        return False
    part = items[:len(pre)] if ci.method == 'starts_with' else items[len(items) - len(pre):]
    r = True
    for x, y in zip(part, pre):
        r = b_and(r, values_eq(eng, x, y))
    return r


@S('impl_slice::split_at')
def _(eng, ci, a, sp):
    b = deref_all(a[0])
    i = conc(eng, a[1])
    if i > len(b.items):
        raise Panic('mid > len', sp, kind='bounds')
    return Struct('()', [Bytes(b.items[:i], b.kind), Bytes(b.items[i:], b.kind)])


@S('Vec::drain', 'HashSet::drain')
def _(eng, ci, a, sp):
    v = deref_all(a[0])
    items = [x if not isinstance(x, list) else x[0] for x in v.items]
    del v.items[:]
    return Struct('SeqIter', [Vec(items), 0, 'val'])


@S('Vec::remove', 'VecDeque::remove')
def _(eng, ci, a, sp):
    v = deref_all(a[0])
    i = conc(eng, a[1])
    if i >= len(v.items):
        if ci.segs[-2] == 'VecDeque':
            return none()
        raise Panic('removal index out of bounds', sp, kind='bounds')
    x = v.items.pop(i)
    return some(x) if ci.segs[-2] == 'VecDeque' else x


@S('Vec::from_iter', 'FromIterator::from_iter', 'Iterator::collect')
def _(eng, ci, a, sp):
    tgt = ci.raw
    if ci.kind == 'trait' and ci.method == 'from_iter':
        tb = type_base(ci.selfty)
    elif ci.method == 'collect':
        m = re.search(r'collect::<(.*)>$', ci.raw.strip())
        tb = type_base(m.group(1)) if m else 'Vec'
    else:
        tb = 'Vec'
    xs = list(iterate(eng, a[0]))
    if tb in ('Vec', 'String', 'OsString', 'PathBuf'):
        if tb == 'String':
            out = []
            for x in xs:
                if isinstance(x, (Bytes, Vec)):
                    out.extend(x.items)
                else:
                    from .collections import encode_char as ec
                    out.extend(ec(eng, x))
            return Vec(out, 'String')
        return Vec(xs, tb)
    if tb in ('HashSet', 'HashMap', 'BTreeMap', 'BTreeSet'):
        mp = Map('HashSet' if 'Set' in tb else 'HashMap')
        for x in xs:
            if mp.kind == 'HashSet':
                map_insert(eng, mp, x, UNIT)
            else:
                map_insert(eng, mp, x.f[0], x.f[1])
        return mp
    if tb == 'VecDeque':
        return Deque(xs)
    if tb == 'Result':
        out = []
        for x in xs:
            if x.var == 'Err':
                return x
            out.append(x.f[0])
        return ok(Vec(out, 'Vec'))
    raise Unsupported('collect into %s' % tb)


# ---------------------------------------------------------------------------------------- maps / sets
def map_find(eng, m, k):
    for e in m.items:
        if eng.branch(values_eq(eng, e[0], k)):
            return e
    return None


def map_insert(eng, m, k, v):
    e = map_find(eng, m, k)
    if e is not None:
        old = e[1]
        e[1] = v
        return old
    m.items.append([k, v])
    return None


@S('HashMap::new', 'HashSet::new', 'BTreeMap::new', 'HashMap::with_capacity', 'HashSet::with_capacity')
def _(eng, ci, a, sp):
    return Map('HashSet' if 'Set' in ci.segs[-2] else 'HashMap')


@S('HashSet::contains', 'HashMap::contains_key')
def _(eng, ci, a, sp):
    m = deref_all(a[0])
    return map_find(eng, m, deref_all(a[1])) is not None


@S('HashSet::insert')
def _(eng, ci, a, sp):
    m = deref_all(a[0])
    if map_find(eng, m, a[1]) is not None:
        return False
    m.items.append([a[1], UNIT])
    return True


@S('HashMap::insert')
def _(eng, ci, a, sp):
    old = map_insert(eng, deref_all(a[0]), a[1], a[2])
    return none() if old is None else some(old)


@S('HashSet::remove')
def _(eng, ci, a, sp):
    m = deref_all(a[0])
    e = map_find(eng, m, deref_all(a[1]))
    if e is None:
        return False
    m.items.remove(e)
    return True


@S('HashMap::remove')
def _(eng, ci, a, sp):
    m = deref_all(a[0])
    e = map_find(eng, m, deref_all(a[1]))
    if e is None:
        return none()
    m.items.remove(e)
    return some(e[1])


@S('HashMap::get', 'HashMap::get_mut')
def _(eng, ci, a, sp):
    m = deref_all(a[0])
    e = map_find(eng, m, deref_all(a[1]))
    return none() if e is None else some(Ref(e, 1))


@S('HashMap::len', 'HashSet::len')
def _(eng, ci, a, sp):
    return len(deref_all(a[0]).items)


@S('HashMap::is_empty', 'HashSet::is_empty')
def _(eng, ci, a, sp):
    return len(deref_all(a[0]).items) == 0


@S('HashMap::keys')
def _(eng, ci, a, sp):
    m = deref_all(a[0])
    return Struct('SeqIter', [Vec([Ref(e, 0) for e in m.items]), 0, 'val'])


@S('HashMap::values')
def _(eng, ci, a, sp):
    m = deref_all(a[0])
    return Struct('SeqIter', [Vec([Ref(e, 1) for e in m.items]), 0, 'val'])


@S('HashSet::iter', 'HashMap::iter')
def _(eng, ci, a, sp):
    m = deref_all(a[0])
    if m.kind == 'HashSet':
        return Struct('SeqIter', [Vec([Ref(e, 0) for e in m.items]), 0, 'val'])
    return Struct('SeqIter', [Vec([Struct('()', [Ref(e, 0), Ref(e, 1)]) for e in m.items]), 0, 'val'])


# ---------------------------------------------------------------------------------------- iterators
def iter_next(eng, it):
    """advance iterator value `it` (python object mutated in place); returns Option"""
    it = deref_all(it)
    if isinstance(it, Struct):
        n = it.name
        if n == 'SeqIter':
            s, pos, mode = it.f
            items = seq(s)
            if pos >= len(items):
                return none()
            it.f[1] = pos + 1
            if mode == 'val':
                return some(items[pos])
            return some(new_cell(items[pos]) if isinstance(items, tuple) else Ref(items, pos))
        if n == 'RevIter':
            s, pos, mode = it.f
            items = seq(s)
            if pos <= 0:
                return none()
            it.f[1] = pos - 1
            if mode == 'val':
                return some(items[pos - 1])
            return some(new_cell(items[pos - 1]) if isinstance(items, tuple) else Ref(items, pos - 1))
        if n == 'Range':
            lo, hi = it.f[0], it.f[1]
            ty = it_type(it)
            if eng.branch(eng.binop('Lt', lo, hi, ty)):
                it.f[0] = eng.binop('Add', lo, 1, ty)
                return some(lo)
            return none()
        if n == 'Take':
            inner, k = it.f
            if isinstance(k, int) and k <= 0:
                return none()
            if not isinstance(k, int):
                k = conc(eng, k, 'take count')
                if k <= 0:
                    it.f[1] = 0
                    return none()
            r = iter_next(eng, inner)
            it.f[1] = k - 1
            return r
        if n == 'Skip':
            inner, k = it.f
            k = conc(eng, k, 'skip count')
            while k > 0:
                r = iter_next(eng, inner)
                k -= 1
                if r.var == 'None':
                    it.f[1] = 0
                    return r
            it.f[1] = 0
            return iter_next(eng, inner)
        if n == 'Zip':
            x = iter_next(eng, it.f[0])
            if x.var == 'None':
                return none()
            y = iter_next(eng, it.f[1])
            if y.var == 'None':
                return none()
            return some(Struct('()', [x.f[0], y.f[0]]))
        if n in ('Copied', 'Cloned'):
            r = iter_next(eng, it.f[0])
            if r.var == 'None':
                return r
            v = r.f[0]
            return some(clone_val(v.get() if isinstance(v, Ref) else v))
        if n == 'MapIter':
            r = iter_next(eng, it.f[0])
            if r.var == 'None':
                return r
            return some(eng.call_closure(it.f[1], [r.f[0]]))
        if n == 'FilterIter':
            while True:
                r = iter_next(eng, it.f[0])
                if r.var == 'None':
                    return r
                if eng.branch(eng.call_closure(it.f[1], [new_cell(r.f[0])])):
                    return r
        if n == 'FilterMapIter':
            while True:
                r = iter_next(eng, it.f[0])
                if r.var == 'None':
                    return r
                o = eng.call_closure(it.f[1], [r.f[0]])
                if o.var == 'Some':
                    return o
        if n == 'Enumerate':
            r = iter_next(eng, it.f[0])
            if r.var == 'None':
                return r
            i = it.f[1]
            it.f[1] = i + 1
            return some(Struct('()', [i, r.f[0]]))
        if n == 'Fuse':
            if it.f[1]:
                return none()
            r = iter_next(eng, it.f[0])
            if r.var == 'None':
                it.f[1] = True
            return r
        if n == 'Chain':
            if not it.f[2]:
                r = iter_next(eng, it.f[0])
                if r.var == 'Some':
                    return r
                it.f[2] = True
            return iter_next(eng, it.f[1])
        if n == 'Peekable':
            if it.f[1] is not None:
                r = it.f[1]
                it.f[1] = None
                return r
            return iter_next(eng, it.f[0])
        if n == 'Repeat':
            return some(clone_val(it.f[0]))
        if n == 'Once':
            if it.f[0] is None:
                return none()
            v = it.f[0]
            it.f[0] = None
            return some(v)
        if n == 'PathIter':
            items, spans, pos = it.f
            if pos >= len(spans):
                return none()
            it.f[2] = pos + 1
            return some(Bytes(spans[pos][1], 'OsStr'))
        if n == 'PyIter':
            try:
                return some(next(it.f[0]))
            except StopIteration:
                return none()
    if isinstance(it, (Struct, Enum)):
        rt = eng.runtime_type(it)
        nm = eng.impl_index.get((rt, 'Iterator', 'next'))
        if nm:
            return eng.run_body(eng.body(nm), [new_cell(it)])
    raise Unsupported('iter_next on %r' % (it,))


def it_type(it):
    lo, hi = it.f[0], it.f[1]
    if len(it.f) > 2:
        return it.f[2]
    for x in (lo, hi):
        if is_sym(x):
            return {8: 'u8', 32: 'i32', 64: 'usize'}.get(x.size(), 'usize')
    return 'usize'


def into_iter(eng, v):
    v0 = v
    v = deref_all(v)
    if isinstance(v, Vec):
        if isinstance(v0, Ref):
            return Struct('SeqIter', [v, 0, 'ref'])
        return Struct('SeqIter', [Vec(list(v.items)), 0, 'val'])
    if isinstance(v, Bytes):
        return Struct('SeqIter', [v, 0, 'ref'])
    if isinstance(v, Arr):
        return Struct('SeqIter', [v, 0, 'ref' if isinstance(v0, Ref) else 'val'])
    if isinstance(v, Deque):
        return Struct('SeqIter', [v, 0, 'ref' if isinstance(v0, Ref) else 'val'])
    if isinstance(v, Map):
        if v.kind == 'HashSet':
            return Struct('SeqIter', [Vec([Ref(e, 0) if isinstance(v0, Ref) else e[0] for e in v.items]), 0, 'val'])
        return Struct('SeqIter', [Vec([Struct('()', [Ref(e, 0), Ref(e, 1)]) if isinstance(v0, Ref)
                                       else Struct('()', [e[0], e[1]]) for e in v.items]), 0, 'val'])
    if isinstance(v, Enum) and v.ty == 'Option':
        return Struct('Once', [v.f[0] if v.var == 'Some' else None])
    return v0 if not isinstance(v0, Ref) else v


def iterate(eng, it, limit=4096):
    it = into_iter(eng, it)
    n = 0
    while True:
        r = iter_next(eng, it)
        if r.var == 'None':
            return
        yield r.f[0]
        n += 1
        if n > limit:
            raise BoundExceeded('iterator longer than %d' % limit)


@S('IntoIterator::into_iter')
def _(eng, ci, a, sp):
    v = a[0]
    if isinstance(v, Struct) and v.name == 'Range':
        m = re.search(r'Range<(\w+)>', ci.selfty)
        if m and len(v.f) == 2:
            v.f.append(m.group(1))
        return v
    return into_iter(eng, v)


@S('Iterator::next')
def _(eng, ci, a, sp):
    it = deref_all(a[0])
    if isinstance(it, Struct) and it.name == 'Range' and len(it.f) == 2:
        m = re.search(r'Range<(\w+)>', ci.selfty)
        if m:
            it.f.append(m.group(1))
    return iter_next(eng, a[0])


@S('DoubleEndedIterator::next_back')
def _(eng, ci, a, sp):
    it = deref_all(a[0])
    if isinstance(it, Struct) and it.name == 'SeqIter':
        items = list(seq(it.f[0]))
        raise Unsupported('next_back on SeqIter')
    raise Unsupported('next_back on %r' % (it,))


@S('Iterator::take')
def _(eng, ci, a, sp):
    return Struct('Take', [a[0], a[1]])


@S('Iterator::skip')
def _(eng, ci, a, sp):
    return Struct('Skip', [a[0], a[1]])


@S('Iterator::zip')
def _(eng, ci, a, sp):
    return Struct('Zip', [into_iter(eng, a[0]), into_iter(eng, a[1])])


@S('Iterator::copied', 'Iterator::cloned')
def _(eng, ci, a, sp):
    return Struct('Copied', [a[0]])


@S('Iterator::map')
def _(eng, ci, a, sp):
    return Struct('MapIter', [a[0], a[1]])


@S('Iterator::filter')
def _(eng, ci, a, sp):
    return Struct('FilterIter', [a[0], a[1]])


@S('Iterator::filter_map')
def _(eng, ci, a, sp):
    return Struct('FilterMapIter', [a[0], a[1]])


@S('Iterator::enumerate')
def _(eng, ci, a, sp):
    return Struct('Enumerate', [a[0], 0])


@S('Iterator::fuse')
def _(eng, ci, a, sp):
    return Struct('Fuse', [a[0], False])


@S('Iterator::chain')
def _(eng, ci, a, sp):
    return Struct('Chain', [a[0], into_iter(eng, a[1]), False])


@S('Iterator::peekable')
def _(eng, ci, a, sp):
    return Struct('Peekable', [a[0], None])


@S('Peekable::peek')
def _(eng, ci, a, sp):
    p = deref_all(a[0])
    if p.f[1] is None:
        p.f[1] = iter_next(eng, p.f[0])
    r = p.f[1]
    return none() if r.var == 'None' else some(Ref(r.f, 0))


@S('Iterator::rev')
def _(eng, ci, a, sp):
    it = a[0]
    if isinstance(it, Struct) and it.name == 'SeqIter' and it.f[1] == 0:
        return Struct('RevIter', [it.f[0], len(seq(it.f[0])), it.f[2]])
    xs = list(iterate(eng, it))
    return Struct('SeqIter', [Vec(xs[::-1]), 0, 'val'])


@S('iter::repeat', 'std::iter::repeat')
def _(eng, ci, a, sp):
    return Struct('Repeat', [a[0]])


@S('iter::once', 'std::iter::once')
def _(eng, ci, a, sp):
    return Struct('Once', [a[0]])


@S('Iterator::count')
def _(eng, ci, a, sp):
    it = deref_all(a[0])
    if isinstance(it, (Struct, Enum)):
        nm = eng.impl_index.get((eng.runtime_type(it), 'Iterator', 'count'))
        if nm:
            return eng.run_body(eng.body(nm), [a[0]])
    return sum(1 for _ in iterate(eng, a[0]))


@S('Iterator::last')
def _(eng, ci, a, sp):
    last = none()
    for x in iterate(eng, a[0]):
        last = some(x)
    return last


@S('Iterator::nth')
def _(eng, ci, a, sp):
    n = conc(eng, a[1])
    r = none()
    for _ in range(n + 1):
        r = iter_next(eng, a[0])
        if r.var == 'None':
            return r
    return r


@S('Iterator::position')
def _(eng, ci, a, sp):
    for i, x in enumerate(iterate(eng, a[0])):
        if eng.branch(eng.call_closure(a[1], [x])):
            return some(i)
    return none()


@S('Iterator::rposition')
def _(eng, ci, a, sp):
    xs = list(iterate(eng, a[0]))
    for i in range(len(xs) - 1, -1, -1):
        if eng.branch(eng.call_closure(a[1], [xs[i]])):
            return some(i)
    return none()


@S('Iterator::any')
def _(eng, ci, a, sp):
    for x in iterate(eng, a[0]):
        if eng.branch(eng.call_closure(a[1], [x])):
            return True
    return False


@S('Iterator::all')
def _(eng, ci, a, sp):
    for x in iterate(eng, a[0]):
        if not eng.branch(eng.call_closure(a[1], [x])):
            return False
    return True


@S('Iterator::find')
def _(eng, ci, a, sp):
    for x in iterate(eng, a[0]):
        if eng.branch(eng.call_closure(a[1], [new_cell(x)])):
            return some(x)
    return none()


@S('Iterator::find_map')
def _(eng, ci, a, sp):
    for x in iterate(eng, a[0]):
        r = eng.call_closure(a[1], [x])
        if r.var == 'Some':
            return r
    return none()


@S('Iterator::for_each')
def _(eng, ci, a, sp):
    for x in iterate(eng, a[0]):
        eng.call_closure(a[1], [x])
    return UNIT


@S('Iterator::fold')
def _(eng, ci, a, sp):
    acc = a[1]
    for x in iterate(eng, a[0]):
        acc = eng.call_closure(a[2], [acc, x])
    return acc


@S('Iterator::eq')
def _(eng, ci, a, sp):
    xs = list(iterate(eng, a[0]))
    ys = list(iterate(eng, a[1]))
    if len(xs) != len(ys):
        return False
    r = True
    for x, y in zip(xs, ys):
        r = b_and(r, values_eq(eng, x, y))
    return r


@S('Iterator::max', 'Iterator::min')
def _(eng, ci, a, sp):
    xs = list(iterate(eng, a[0]))
    if not xs:
        return none()
    if all(isinstance(x, int) for x in xs):
        return some(max(xs) if ci.method == 'max' else min(xs))
    raise Unsupported('symbolic Iterator::max')


@S('Iterator::size_hint')
def _(eng, ci, a, sp):
    raise Unsupported('size_hint')


@S('impl_slice::join', 'impl_slice::concat')
def _(eng, ci, a, sp):
    items = seq(a[0])
    sepv = deref_all(a[1]) if len(a) > 1 else Bytes(())
    out = []
    for i, x in enumerate(items):
        if i:
            out.extend(sepv.items)
        out.extend(deref_all(x).items)
    return Vec(out, 'String')


@S('impl_slice::reverse')
def _(eng, ci, a, sp):
    v = deref_all(a[0])
    if isinstance(v, (Vec, Arr, Deque)):
        v.items.reverse()
        return UNIT
    raise Unsupported('reverse of %r' % (v,))


@S('impl_slice::sort', 'impl_slice::sort_unstable')
def _(eng, ci, a, sp):
    v = deref_all(a[0])
    if all(isinstance(x, int) for x in v.items):
        v.items.sort()
        return UNIT
    raise Unsupported('sort of symbolic items')


@S('Vec::resize')
def _(eng, ci, a, sp):
    v = deref_all(a[0])
    n = conc(eng, a[1], 'new length')
    if n < len(v.items):
        del v.items[n:]
    else:
        v.items.extend(clone_val(a[2]) for _ in range(n - len(v.items)))
    return UNIT


@S('Vec::swap_remove')
def _(eng, ci, a, sp):
    v = deref_all(a[0])
    i = conc(eng, a[1])
    if i >= len(v.items):
        raise Panic('swap_remove index out of bounds', sp, kind='bounds')
    x = v.items[i]
    v.items[i] = v.items[-1]
    v.items.pop()
    return x


@S('Vec::split_off')
def _(eng, ci, a, sp):
    v = deref_all(a[0])
    i = conc(eng, a[1])
    if i > len(v.items):
        raise Panic('split_off index out of bounds', sp, kind='bounds')
    tail = v.items[i:]
    del v.items[i:]
    return Vec(tail, v.kind)


@S('Vec::dedup')
def _(eng, ci, a, sp):
    v = deref_all(a[0])
    out = []
    for x in v.items:
        if out and eng.branch(values_eq(eng, out[-1], x)):
            continue
        out.append(x)
    v.items[:] = out
    return UNIT


@S('Vec::reserve', 'String::reserve', 'Vec::shrink_to_fit', 'OsString::reserve', 'Vec::reserve_exact')
def _(eng, ci, a, sp):
    return UNIT


@S('Vec::capacity', 'String::capacity')
def _(eng, ci, a, sp):
    return len(seq(a[0]))


@S('String::truncate')
def _(eng, ci, a, sp):
    v = deref_all(a[0])
    n = conc(eng, a[1])
    if n <= len(v.items):
        del v.items[n:]
    return UNIT


@S('String::pop')
def _(eng, ci, a, sp):
    v = deref_all(a[0])
    if not v.items:
        return none()
    x = v.items.pop()
    if isinstance(x, int) and x >= 0x80:
        raise Unsupported('String::pop of non-ASCII')
    return some(x if isinstance(x, int) else z3.ZeroExt(24, x))


@S('String::insert')
def _(eng, ci, a, sp):
    v = deref_all(a[0])
    i = conc(eng, a[1])
    for k, b in enumerate(encode_char(eng, a[2])):
        v.items.insert(i + k, b)
    return UNIT


@S('String::insert_str')
def _(eng, ci, a, sp):
    v = deref_all(a[0])
    i = conc(eng, a[1])
    v.items[i:i] = list(deref_all(a[2]).items)
    return UNIT


@S('impl_slice::copy_from_slice', 'impl_slice::clone_from_slice')
def _(eng, ci, a, sp):
    d = deref_all(a[0])
    s_ = deref_all(a[1])
    if len(d.items) != len(s_.items):
        raise Panic('source slice length does not match destination', sp, kind='bounds')
    d.items[:] = list(s_.items)
    return UNIT


@S('impl_slice::fill')
def _(eng, ci, a, sp):
    d = deref_all(a[0])
    d.items[:] = [clone_val(a[1]) for _ in d.items]
    return UNIT


@S('impl_slice::swap')
def _(eng, ci, a, sp):
    d = deref_all(a[0])
    i, j = conc(eng, a[1]), conc(eng, a[2])
    if i >= len(d.items) or j >= len(d.items):
        raise Panic('swap index out of bounds', sp, kind='bounds')
    d.items[i], d.items[j] = d.items[j], d.items[i]
    return UNIT


@S('impl_slice::split_first', 'impl_slice::split_last')
def _(eng, ci, a, sp):
    b = deref_all(a[0])
    if not b.items:
        return none()
    if ci.method == 'split_first':
        return some(Struct('()', [new_cell(b.items[0]), Bytes(b.items[1:], getattr(b, 'kind', 'slice'))]))
    return some(Struct('()', [new_cell(b.items[-1]), Bytes(b.items[:-1], getattr(b, 'kind', 'slice'))]))


@S('impl_slice::iter_rposition', 'impl_slice::rposition')
def _(eng, ci, a, sp):
    raise Unsupported('slice rposition')


@S('impl_slice::concat_bytes')
def _(eng, ci, a, sp):
    raise Unsupported('concat')
