"""Summaries for calls that leave the crate.  Each module registers handlers with `@S(name, ...)`;
a handler is `h(eng, ci, args, span) -> value`."""
REG = {}


def S(*names):
    def deco(fn):
        for n in names:
            REG[n] = fn
        return fn
    return deco


def install(eng):
    from . import core, collections, strings, env, sysenv, sql, futures  # noqa: F401  (registration side effects; futures last: it
    # replaces the identity-less Waker summaries of sysenv)
    eng.summaries.update(REG)
