"""futures-util 0.3: FuturesUnordered, StreamExt::{next, fold}, task wakers with identity.

FuturesUnordered polls a task only after that task's own waker was called (or when it was just pushed); this is kept: every task
gets a waker that carries (queue, task id), `Waker::wake` puts the id on the queue's ready list.  A job future whose waker is
never called is therefore never polled again - a lost wake-up shows as a hang, not as silent progress."""
from . import S
from ..values import *
from .core import some, none, ok, err, deref_all


class FU:
    """state of one FuturesUnordered"""
    def __init__(self):
        self.tasks = {}         # id -> cell holding the future
        self.ready = []         # ids ready to run
        self.terminated = False
        self.next_id = 0
        self.polls = 0

    def __repr__(self):
        return 'FU(tasks=%r ready=%r term=%r)' % (sorted(self.tasks), self.ready, self.terminated)


def fu_of(v):
    v = deref_all(v)
    d = 0
    while isinstance(v, Struct) and v.name in ('Pin', 'Box') and d < 6:
        v = deref_all(v.f[0])
        d += 1
    if isinstance(v, Opaque) and v.ty == 'FuturesUnordered':
        return v.data
    raise Unsupported('expected FuturesUnordered, got %r' % (v,))


@S('FuturesUnordered::new')
def _(eng, ci, a, sp):
    return Opaque('FuturesUnordered', FU())


@S('FuturesUnordered::push')
def _(eng, ci, a, sp):
    fu = fu_of(a[0])
    tid = fu.next_id
    fu.next_id += 1
    fu.tasks[tid] = new_cell(a[1])
    fu.ready.append(tid)
    fu.terminated = False
    return UNIT


@S('FuturesUnordered::len')
def _(eng, ci, a, sp):
    return len(fu_of(a[0]).tasks)


@S('FuturesUnordered::is_empty')
def _(eng, ci, a, sp):
    return not fu_of(a[0]).tasks


def fu_poll_next(eng, fu, cx, sp):
    n = len(fu.tasks)
    polled = 0
    yielded = 0
    while True:
        if not fu.ready:
            if not fu.tasks:
                fu.terminated = True
                return Enum('Poll', 'Ready', [none()])
            return Enum('Poll', 'Pending')
        tid = fu.ready.pop(0)
        if tid not in fu.tasks:
            continue
        cell = fu.tasks[tid]
        tcx = new_cell(Struct('Context', [Opaque('Waker', ('task', fu, tid))]))
        fu.polls += 1
        r = eng.summaries['Future::poll'](eng, None, [Struct('Pin', [cell]), tcx], sp)
        if r.var == 'Ready':
            eng.drop_value(cell.get())
            del fu.tasks[tid]
            return Enum('Poll', 'Ready', [some(r.f[0])])
        polled += 1
        if tid in fu.ready:
            yielded += 1
        if yielded >= 2 or polled == n:
            return Enum('Poll', 'Pending')


@S('<FuturesUnordered as Stream>::poll_next', 'Stream::poll_next', 'StreamExt::poll_next_unpin')
def _(eng, ci, a, sp):
    return fu_poll_next(eng, fu_of(a[0]), a[1], sp)


@S('StreamExt::next')
def _(eng, ci, a, sp):
    return Struct('Next', [a[0]])


@S('<Next as Future>::poll')
def _(eng, ci, a, sp):
    nx = deref_all(a[0].f[0])
    return fu_poll_next(eng, fu_of(nx.f[0]), a[1], sp)


@S('<Next as FusedFuture>::is_terminated')
def _(eng, ci, a, sp):
    nx = deref_all(a[0])
    return fu_of(nx.f[0]).terminated


@S('<FuturesUnordered as FusedStream>::is_terminated', 'FusedStream::is_terminated')
def _(eng, ci, a, sp):
    return fu_of(a[0]).terminated


@S('StreamExt::fold')
def _(eng, ci, a, sp):
    # Fold { stream, f, accum: Some(init), future: None }
    return Struct('Fold', [a[0], a[2], some(a[1]), none()])


@S('<Fold as Future>::poll')
def _(eng, ci, a, sp):
    fo = deref_all(a[0].f[0])
    fu = fu_of(fo.f[0])
    while True:
        if fo.f[3].var == 'Some':
            r = eng.summaries['Future::poll'](eng, None, [Struct('Pin', [Ref(fo.f[3].f, 0)]), a[1]], sp)
            if r.var == 'Pending':
                return r
            fo.f[3] = none()
            fo.f[2] = some(r.f[0])
            continue
        if fo.f[2].var != 'Some':
            raise Panic('Fold polled after completion', sp)
        r = fu_poll_next(eng, fu, a[1], sp)
        if r.var == 'Pending':
            return r
        item = r.f[0]
        if item.var == 'None':
            acc = fo.f[2].f[0]
            fo.f[2] = none()
            return Enum('Poll', 'Ready', [acc])
        acc = fo.f[2].f[0]
        fo.f[2] = none()
        fut = eng.call_closure(Ref(fo.f, 1), [acc, item.f[0]])
        fo.f[3] = some(fut)


def waker_wake(eng, w):
    w = deref_all(w)
    if isinstance(w, Opaque) and isinstance(w.data, tuple) and w.data and w.data[0] == 'task':
        _, fu, tid = w.data
        if tid in fu.tasks and tid not in fu.ready:
            fu.ready.append(tid)
    return UNIT


@S('Waker::wake', 'Waker::wake_by_ref')
def _(eng, ci, a, sp):
    return waker_wake(eng, a[0])


@S('<Waker as Clone>::clone')
def _(eng, ci, a, sp):
    w = deref_all(a[0])
    return Opaque('Waker', w.data if isinstance(w, Opaque) else 'noop')


# ---------------------------------------------------------------------------------------- rand
@S('thread_rng', 'rand::thread_rng')
def _(eng, ci, a, sp):
    return Opaque('ThreadRng', None)


@S('SliceRandom::shuffle')
def _(eng, ci, a, sp):
    """--shuffle: every permutation of the slice is explored"""
    import itertools
    v = deref_all(a[0])
    items = v.items
    n = len(items)
    if n <= 1:
        return UNIT
    if n > 4:
        raise Unsupported('shuffle of %d items' % n)
    perms = list(itertools.permutations(range(n)))
    k = eng.choose(len(perms), 'shuffle')
    old = list(items)
    for i, j in enumerate(perms[k]):
        items[i] = old[j]
    ev = getattr(eng.world, 'ev', None)
    (ev or eng.event)('shuffle', order=list(perms[k]))
    return UNIT


@S('rand::random')
def _(eng, ci, a, sp):
    """rand::random::<f32>() in [0, 1): only used to jitter a sleep; fixed to 0.5 (stated as a bound)"""
    if 'f32' not in (ci.raw or '') and 'f64' not in (ci.raw or ''):
        raise Unsupported('rand::random of a non-float type: %s' % ci.raw)
    return 0.5
