"""Environment calls (syscalls, process state, clock, database).  They are routed to `eng.world`, an object supplied by the
spec; the default world refuses everything (Unsupported => inconclusive), so nothing is silently guessed."""
import z3
from . import S
from ..values import *
from .core import some, none, ok, err, deref_all


class World:
    """base class: every hook raises Unsupported unless the spec's world overrides it"""
    def __getattr__(self, name):
        def missing(*a, **k):
            raise Unsupported('environment operation %s not modelled by this spec' % name)
        return missing


def io_error(kind, data=None):
    return Opaque('io::Error', (kind, data))


@S('current_dir', 'env::current_dir', 'std::env::current_dir')
def _(eng, ci, a, sp):
    return eng.world.current_dir(eng)


@S('Path::canonicalize', 'fs::canonicalize')
def _(eng, ci, a, sp):
    return eng.world.canonicalize(eng, a[0])


@S('Path::exists')
def _(eng, ci, a, sp):
    return eng.world.exists(eng, a[0])


@S('Path::is_file')
def _(eng, ci, a, sp):
    return eng.world.is_file(eng, a[0])


@S('Path::is_dir')
def _(eng, ci, a, sp):
    return eng.world.is_dir(eng, a[0])


@S('Error::kind', 'io::Error::kind')
def _(eng, ci, a, sp):
    e = deref_all(a[0])
    if isinstance(e, Opaque) and e.ty == 'io::Error':
        return Enum('ErrorKind', e.data[0])
    raise Unsupported('Error::kind of %r' % (e,))
