"""nix / libc / std::time / std::task / futures plumbing.  State lives in `eng.world` (supplied by the spec)."""
import re
import z3
from . import S
from ..values import *
from ..srcinfo import type_base
from .core import some, none, ok, err, deref_all


def errno(name):
    return Enum('Errno', name)


# ---------------------------------------------------------------------------------------- FdSet / select
@S('FdSet::new')
def _(eng, ci, a, sp):
    return Struct('FdSet', [[]])


@S('FdSet::clear')
def _(eng, ci, a, sp):
    deref_all(a[0]).f[0] = []
    return UNIT


@S('FdSet::insert')
def _(eng, ci, a, sp):
    s = deref_all(a[0])
    fd = eng.concrete(a[1], 'fd')
    if fd < 0 or fd >= 1024:
        raise Panic('FdSet::insert: fd %d out of range' % fd, sp)
    if fd not in s.f[0]:
        s.f[0] = sorted(s.f[0] + [fd])
    return UNIT


@S('FdSet::remove')
def _(eng, ci, a, sp):
    s = deref_all(a[0])
    fd = eng.concrete(a[1], 'fd')
    s.f[0] = [x for x in s.f[0] if x != fd]
    return UNIT


@S('FdSet::contains')
def _(eng, ci, a, sp):
    return eng.concrete(a[1], 'fd') in deref_all(a[0]).f[0]


@S('FdSet::highest')
def _(eng, ci, a, sp):
    s = deref_all(a[0]).f[0]
    return some(max(s)) if s else none()


@S('FdSet::fds')
def _(eng, ci, a, sp):
    s = deref_all(a[0]).f[0]
    return Struct('SeqIter', [Vec(sorted(s)), 0, 'val'])


@S('select::select')
def _(eng, ci, a, sp):
    rf = a[1]
    rset = deref_all(rf.f[0]) if isinstance(rf, Enum) and rf.var == 'Some' else None
    to = a[4]
    timeout = deref_all(to.f[0]) if isinstance(to, Enum) and to.var == 'Some' else None
    return eng.world.select(eng, rset, timeout, sp)


# ---------------------------------------------------------------------------------------- unistd
@S('unistd::fork')
def _(eng, ci, a, sp):
    return eng.world.fork(eng, sp)


@S('unistd::close')
def _(eng, ci, a, sp):
    return eng.world.close(eng, a[0], sp)


@S('unistd::pipe')
def _(eng, ci, a, sp):
    return eng.world.pipe(eng, sp)


@S('unistd::read')
def _(eng, ci, a, sp):
    return eng.world.read(eng, a[0], a[1], sp)


@S('unistd::write')
def _(eng, ci, a, sp):
    return eng.world.write(eng, a[0], a[1], sp)


@S('unistd::dup2')
def _(eng, ci, a, sp):
    return eng.world.dup2(eng, a[0], a[1], sp)


@S('unistd::getpid')
def _(eng, ci, a, sp):
    return Struct('Pid', [4242])


@S('unistd::execvp')
def _(eng, ci, a, sp):
    return eng.world.execvp(eng, a[0], a[1], sp)


@S('wait::waitpid')
def _(eng, ci, a, sp):
    return eng.world.waitpid(eng, a[0], a[1], sp)


@S('WaitStatus::pid')
def _(eng, ci, a, sp):
    w = deref_all(a[0])
    if w.var in ('Exited', 'Signaled', 'Stopped', 'Continued'):
        return some(w.f[0])
    return none()


@S('Pid::as_raw')
def _(eng, ci, a, sp):
    return deref_all(a[0]).f[0]


@S('Pid::from_raw')
def _(eng, ci, a, sp):
    return Struct('Pid', [a[0]])


@S('fcntl::fcntl')
def _(eng, ci, a, sp):
    return eng.world.fcntl(eng, a[0], a[1], sp)


@S('signal::signal')
def _(eng, ci, a, sp):
    return ok(Enum('SigHandler', 'SigDfl'))


@S('thread::sleep', 'std::thread::sleep')
def _(eng, ci, a, sp):
    eng.world.sleep(eng, a[0], sp)
    return UNIT


# ---------------------------------------------------------------------------------------- time
# Instant = Struct('Instant',[ns]) ; Duration = Struct('Duration',[ns]) where ns is a python int or a z3 *Int* term
# (mathematical integers: clock values are far from wrapping, and linear integer arithmetic keeps the timer queries easy
#  where 64-bit bit-vector carry chains made z3 stall).
def dur(ns):
    return Struct('Duration', [ns])


def tval(v):
    """python int / z3 Int / (bit-vector from MIR constants) -> int or z3 Int"""
    if isinstance(v, int):
        return v
    if z3.is_bv(v):
        s = z3.simplify(v)
        if z3.is_bv_value(s):
            return s.as_long()
        return z3.BV2Int(v)
    return v


def tcmp(op, x, y):
    x, y = tval(x), tval(y)
    if isinstance(x, int) and isinstance(y, int):
        return {'lt': x < y, 'le': x <= y, 'gt': x > y, 'ge': x >= y, 'eq': x == y}[op]
    return {'lt': x < y, 'le': x <= y, 'gt': x > y, 'ge': x >= y, 'eq': x == y}[op]


@S('Instant::now')
def _(eng, ci, a, sp):
    return eng.world.now(eng)


@S('Duration::from_millis')
def _(eng, ci, a, sp):
    w = getattr(eng, 'world', None)
    if w is not None and 'from_millis_hook' in getattr(w, '__dict__', {}):
        r = w.from_millis_hook(eng, a[0], sp)
        if r is not None:
            return r
    return dur(tval(a[0]) * 1000000)


@S('Duration::from_secs')
def _(eng, ci, a, sp):
    return dur(tval(a[0]) * 1000000000)


@S('Duration::from_micros')
def _(eng, ci, a, sp):
    return dur(tval(a[0]) * 1000)


@S('Duration::from_nanos')
def _(eng, ci, a, sp):
    return dur(tval(a[0]))


@S('Duration::new')
def _(eng, ci, a, sp):
    return dur(tval(a[0]) * 1000000000 + tval(a[1]))


@S('Duration::as_millis')
def _(eng, ci, a, sp):
    d = deref_all(a[0]).f[0]
    if isinstance(d, int):
        return d // 1000000
    raise Unsupported('as_millis of a symbolic duration')


@S('Duration::as_secs')
def _(eng, ci, a, sp):
    d = deref_all(a[0]).f[0]
    if isinstance(d, int):
        return d // 1000000000
    raise Unsupported('as_secs of a symbolic duration')


@S('Duration::subsec_micros')
def _(eng, ci, a, sp):
    d = deref_all(a[0]).f[0]
    if isinstance(d, int):
        return (d % 1000000000) // 1000
    raise Unsupported('subsec_micros of a symbolic duration')


@S('<Duration as MulAssign>::mul_assign', 'MulAssign::mul_assign')
def _(eng, ci, a, sp):
    r = a[0]
    r.set(dur_mul(eng, r.get(), a[1], sp))
    return UNIT


DURATION_MAX_NS = (2 ** 64 - 1) * 1000000000 + 999999999


@S('<Duration as AddAssign>::add_assign')
def _(eng, ci, a, sp):
    """Duration += Duration: checked addition, panics on overflow like core::time::Duration"""
    r = a[0]
    x = tval(r.get().f[0]) + tval(deref_all(a[1]).f[0])
    over = (x > DURATION_MAX_NS) if isinstance(x, int) else eng.branch(x > DURATION_MAX_NS, 'duration overflow')
    if over:
        raise Panic('overflow when adding durations', sp)
    r.set(dur(x))
    return UNIT


def dur_mul(eng, d, k, sp):
    """Duration * u32 / *= u32: checked multiplication, panics on overflow like core::time::Duration"""
    k = eng.concrete(k, 'duration factor')
    x = tval(d.f[0])
    w = getattr(eng, 'world', None)
    if w is not None and 'on_duration_mul' in getattr(w, '__dict__', {}):
        w.on_duration_mul(eng, x, k, sp)
    r = x * k
    if isinstance(r, int):
        over = r > DURATION_MAX_NS
    else:
        over = eng.branch(r > DURATION_MAX_NS, 'duration overflow')
    if over:
        raise Panic('overflow when multiplying duration by scalar', sp)
    return dur(r)


@S('<Duration as Mul<u32>>::mul', '<Duration as Mul>::mul', 'Mul::mul')
def _(eng, ci, a, sp):
    if isinstance(a[0], Struct) and a[0].name == 'Duration':
        return dur_mul(eng, a[0], a[1], sp)
    raise Unsupported('Mul::mul on %r' % (a[0],))


@S('<Instant as Add>::add', 'Add::add')
def _(eng, ci, a, sp):
    x, y = a
    if isinstance(x, Struct) and x.name in ('Instant', 'Duration'):
        return Struct(x.name, [tval(x.f[0]) + tval(y.f[0])])
    raise Unsupported('Add::add on %r' % (x,))


@S('<Instant as Sub>::sub', 'Sub::sub', 'Instant::duration_since', 'Instant::saturating_duration_since')
def _(eng, ci, a, sp):
    x, y = a
    if isinstance(x, Struct) and x.name == 'Instant' and isinstance(y, Struct) and y.name == 'Instant':
        X, Y = tval(x.f[0]), tval(y.f[0])
        if isinstance(X, int) and isinstance(Y, int):
            return dur(max(0, X - Y))
        return dur(z3.If(X >= Y, X - Y, z3.IntVal(0)))
    if isinstance(x, Struct) and x.name in ('Instant', 'Duration'):
        return Struct(x.name, [tval(x.f[0]) - tval(y.f[0])])
    raise Unsupported('Sub::sub on %r' % (x,))


def time_cmp(eng, op, x, y):
    return tcmp(op, x.f[0], y.f[0])


@S('<Instant as PartialOrd>::lt', '<Instant as PartialOrd>::le', '<Instant as PartialOrd>::gt', '<Instant as PartialOrd>::ge',
   '<Duration as PartialOrd>::lt', '<Duration as PartialOrd>::le', '<Duration as PartialOrd>::gt', '<Duration as PartialOrd>::ge')
def _(eng, ci, a, sp):
    return time_cmp(eng, ci.method, deref_all(a[0]), deref_all(a[1]))


# ---------------------------------------------------------------------------------------- task / futures
@S('noop_waker', 'task::noop_waker', 'futures::task::noop_waker', 'noop_waker_ref')
def _(eng, ci, a, sp):
    return Opaque('Waker', 'noop')


@S('Context::from_waker')
def _(eng, ci, a, sp):
    return Struct('Context', [a[0]])


@S('Context::waker')
def _(eng, ci, a, sp):
    return deref_all(a[0]).f[0]


@S('Waker::wake', 'Waker::wake_by_ref')
def _(eng, ci, a, sp):
    return UNIT


@S('<Waker as Clone>::clone')
def _(eng, ci, a, sp):
    return Opaque('Waker', 'noop')


@S('future::poll_fn', 'futures::future::poll_fn', 'poll_fn')
def _(eng, ci, a, sp):
    return Struct('PollFn', [a[0]])


@S('<PollFn as Future>::poll')
def _(eng, ci, a, sp):
    pf = deref_all(a[0].f[0]) if isinstance(a[0], Struct) and a[0].name == 'Pin' else deref_all(a[0])
    return eng.call_closure(Ref(pf.f, 0), [a[1]])


@S('future::ready', 'std::future::ready', 'futures::future::ready')
def _(eng, ci, a, sp):
    return Struct('Ready', [some(a[0])])


@S('<Ready as Future>::poll')
def _(eng, ci, a, sp):
    r = deref_all(a[0].f[0])
    v = r.f[0]
    if v.var == 'None':
        raise Panic('`Ready` polled after completion', sp)
    r.f[0] = none()
    return Enum('Poll', 'Ready', [v.f[0]])


@S('Future::poll')
def _(eng, ci, a, sp):
    """generic receiver: dispatch on the pinned value"""
    pin = a[0]
    tgt = pin.f[0] if isinstance(pin, Struct) and pin.name == 'Pin' else pin
    v = deref_all(tgt)
    if isinstance(v, Struct) and v.name == 'Pin':        # Pin<Box<dyn Future>> behind a reference
        tgt = v.f[0]
        v = deref_all(tgt)
    if isinstance(v, Coroutine):
        return eng.run_body(eng.body(v.ident), [Struct('Pin', [tgt if isinstance(tgt, Ref) else new_cell(v)]), a[1]])
    if isinstance(v, Opaque) and v.ty == 'PyFuture':
        return v.data.poll(eng, a[1])
    if isinstance(v, Struct):
        nm = eng.impl_index.get((v.name, 'Future', 'poll'))
        if nm:
            return eng.run_body(eng.body(nm), [Struct('Pin', [tgt if isinstance(tgt, Ref) else new_cell(v)]), a[1]])
        h = eng.summaries.get('<%s as Future>::poll' % v.name)
        if h:
            return h(eng, ci, [Struct('Pin', [tgt if isinstance(tgt, Ref) else new_cell(v)]), a[1]], sp)
    raise Unsupported('Future::poll on %r' % (v,))


@S('FutureExt::poll_unpin')
def _(eng, ci, a, sp):
    # self: &mut Self where Self: Unpin (here Self = Pin<&mut X>)
    inner = deref_all(a[0])
    return eng.summaries['Future::poll'](eng, ci, [inner if isinstance(inner, Struct) and inner.name == 'Pin' else Struct('Pin', [a[0]]), a[1]], sp)


@S('FusedFuture::is_terminated')
def _(eng, ci, a, sp):
    tgt = a[0]
    v = deref_all(tgt)
    d = 0
    while isinstance(v, Struct) and v.name == 'Pin' and d < 6:
        tgt = v.f[0]
        v = deref_all(tgt)
        d += 1
    if isinstance(v, Struct):
        nm = eng.impl_index.get((v.name, 'FusedFuture', 'is_terminated'))
        if nm:
            return eng.run_body(eng.body(nm), [tgt if isinstance(tgt, Ref) else new_cell(v)])
        if v.name == 'Fuse':
            return v.f[0].var == 'None'
        h = eng.summaries.get('<%s as FusedFuture>::is_terminated' % v.name)
        if h:
            return h(eng, ci, [tgt if isinstance(tgt, Ref) else new_cell(v)], sp)
    raise Unsupported('is_terminated on %r' % (v,))


@S('Poll::map')
def _(eng, ci, a, sp):
    p = a[0]
    if p.var == 'Pending':
        return p
    return Enum('Poll', 'Ready', [eng.call_closure(a[1], [p.f[0]])])


@S('Poll::is_ready')
def _(eng, ci, a, sp):
    return deref_all(a[0]).var == 'Ready'


@S('Poll::is_pending')
def _(eng, ci, a, sp):
    return deref_all(a[0]).var == 'Pending'


@S('random::shuffle', 'async_await::random::shuffle', 'futures_util::async_await::random::shuffle', 'shuffle')
def _(eng, ci, a, sp):
    """select! polls its branches in random order: every permutation is explored"""
    v = deref_all(a[0])
    items = v.items if isinstance(v, (Arr, Vec)) else None
    if items is None:
        raise Unsupported('shuffle of %r' % (v,))
    n = len(items)
    if n <= 1:
        return UNIT
    import itertools
    perms = list(itertools.permutations(range(n)))
    mode = getattr(eng, 'select_orders', 'all')
    if mode == 'first':
        return UNIT       # quick tier: only the written order (stated in the bounds)
    if mode == 'budget':
        # at most `select_budget` select! evaluations per path use an order other than the written one
        b = getattr(eng.world, 'select_budget', 0)
        if b <= 0:
            return UNIT
        k = eng.choose(len(perms), 'select-order')
        if k != 0:
            eng.world.select_budget = b - 1
    else:
        k = eng.choose(len(perms), 'select-order')
    old = list(items)
    for i, j in enumerate(perms[k]):
        items[i] = old[j]
    return UNIT


@S('FutureExt::fuse')
def _(eng, ci, a, sp):
    return Struct('Fuse', [some(a[0])])


@S('<Fuse as Future>::poll')
def _(eng, ci, a, sp):
    f = deref_all(a[0].f[0])
    if f.f[0].var == 'None':
        return Enum('Poll', 'Pending')
    r = eng.summaries['Future::poll'](eng, ci, [Struct('Pin', [Ref(f.f[0].f, 0)]), a[1]], sp)
    if r.var == 'Ready':
        eng.drop_value(f.f[0].f[0])
        f.f[0] = none()
    return r


# ---------------------------------------------------------------------------------------- std::process::Command
def _text(eng, v):
    from .core import REGISTRY_as_ref
    b = REGISTRY_as_ref(eng, v, 'OsStr')
    if all(isinstance(x, int) for x in b.items):
        return bytes(b.items).decode('latin-1')
    return repr(b)


@S('Command::new')
def _(eng, ci, a, sp):
    return Struct('Command', [_text(eng, a[0]), [], []])


@S('Command::arg')
def _(eng, ci, a, sp):
    deref_all(a[0]).f[1].append(_text(eng, a[1]))
    return a[0]


@S('Command::args')
def _(eng, ci, a, sp):
    from .collections import iterate
    c = deref_all(a[0])
    for x in iterate(eng, a[1]):
        c.f[1].append(_text(eng, x))
    return a[0]


@S('Command::env')
def _(eng, ci, a, sp):
    deref_all(a[0]).f[2].append((_text(eng, a[1]), _text(eng, a[2])))
    return a[0]


@S('Command::env_remove')
def _(eng, ci, a, sp):
    deref_all(a[0]).f[2].append((_text(eng, a[1]), None))
    return a[0]


@S('Command::current_dir')
def _(eng, ci, a, sp):
    deref_all(a[0]).f[2].append(('<cwd>', _text(eng, a[1])))
    return a[0]


@S('Command::spawn')
def _(eng, ci, a, sp):
    c = deref_all(a[0])
    return eng.world.spawn(eng, c.f[0], list(c.f[1]), list(c.f[2]), sp)


@S('Child::wait')
def _(eng, ci, a, sp):
    return eng.world.child_wait(eng, deref_all(a[0]), sp)


@S('ExitStatus::success')
def _(eng, ci, a, sp):
    st = deref_all(a[0]).data
    return st == 0 if isinstance(st, int) else st == z3.BitVecVal(0, 32)


@S('ExitStatus::code')
def _(eng, ci, a, sp):
    return some(deref_all(a[0]).data)


@S('args_os', 'env::args_os', 'std::env::args_os')
def _(eng, ci, a, sp):
    return Struct('SeqIter', [Vec([Vec(list(x), 'OsString') for x in eng.world.argv(eng)]), 0, 'val'])


@S('args', 'env::args', 'std::env::args')
def _(eng, ci, a, sp):
    return Struct('SeqIter', [Vec([Vec(list(x), 'String') for x in eng.world.argv(eng)]), 0, 'val'])


@S('<SeqIter as ExactSizeIterator>::len', 'ExactSizeIterator::len')
def _(eng, ci, a, sp):
    it = deref_all(a[0])
    if isinstance(it, Struct) and it.name == 'SeqIter':
        return len(it.f[0].items) - it.f[1]
    raise Unsupported('ExactSizeIterator::len on %r' % (it,))


@S('var_os', 'env::var_os', 'std::env::var_os')
def _(eng, ci, a, sp):
    return eng.world.getenv(eng, _text(eng, a[0]), os_string=True)


@S('var', 'env::var', 'std::env::var')
def _(eng, ci, a, sp):
    return eng.world.getenv(eng, _text(eng, a[0]), os_string=False)


@S('set_var', 'env::set_var', 'std::env::set_var')
def _(eng, ci, a, sp):
    eng.world.setenv(eng, _text(eng, a[0]), _text(eng, a[1]))
    return UNIT


@S('remove_var', 'env::remove_var', 'std::env::remove_var')
def _(eng, ci, a, sp):
    eng.world.setenv(eng, _text(eng, a[0]), None)
    return UNIT


@S('stderr', 'io::stderr', 'std::io::stderr')
def _(eng, ci, a, sp):
    return Opaque('Stderr')


@S('stdout', 'io::stdout', 'std::io::stdout')
def _(eng, ci, a, sp):
    return Opaque('Stdout')


@S('__private::format_err', 'anyhow::__private::format_err', 'Error::msg', 'anyhow::Error::msg', 'Error::new', 'anyhow::Error::new',
   'impl_Error::msg', 'impl_Error::new')
def _(eng, ci, a, sp):
    return Opaque('anyhow::Error', a[0])


for _name, _val in (('F_WRLCK', 1), ('F_RDLCK', 0), ('F_UNLCK', 2), ('SEEK_SET', 0), ('FD_CLOEXEC', 1)):
    for _pre in ('libc::', 'nix::libc::', ''):
        S('const %s%s' % (_pre, _name))(lambda eng, _v=_val: _v)
