"""Option / Result / Try / Deref / Clone / PartialEq / conversions / fmt / panics / Box / Rc / RefCell / Pin / iterators."""
import re
import z3
from . import S
from ..values import *
from ..engine import PyCallable, SymEnum, strip_generics, BoundExceeded
from ..srcinfo import type_base, trait_key, _norm_ty
from ..mir import split_top, scan_balanced, find_top


def some(v):
    return Enum('Option', 'Some', [v])


def none():
    return Enum('Option', 'None')


def ok(v):
    return Enum('Result', 'Ok', [v])


def err(v):
    return Enum('Result', 'Err', [v])


def deref_all(v):
    while True:
        if isinstance(v, Ref):
            v = v.get()
        elif type(v) is LazyVal:
            v = v.force()
        else:
            return v


def is_some(eng, o):
    o = deref_all(o)
    return o.var == 'Some'


# ---------------------------------------------------------------------------------------- Option
@S('Option::is_some')
def _(eng, ci, a, sp):
    return deref_all(a[0]).var == 'Some'


@S('Option::is_none')
def _(eng, ci, a, sp):
    return deref_all(a[0]).var == 'None'


@S('Option::unwrap', 'Option::expect')
def _(eng, ci, a, sp):
    o = a[0]
    if o.var == 'None':
        msg = bytes_to_str(a[1]) if len(a) > 1 else 'called `Option::unwrap()` on a `None` value'
        raise Panic(msg, sp, kind='unwrap')
    return o.f[0]


@S('Option::unwrap_or')
def _(eng, ci, a, sp):
    return a[0].f[0] if a[0].var == 'Some' else a[1]


@S('Option::unwrap_or_default')
def _(eng, ci, a, sp):
    if a[0].var == 'Some':
        return a[0].f[0]
    return default_for(eng, ci.raw)


@S('Option::unwrap_or_else')
def _(eng, ci, a, sp):
    return a[0].f[0] if a[0].var == 'Some' else eng.call_closure(a[1], [])


@S('Option::map')
def _(eng, ci, a, sp):
    if a[0].var == 'None':
        return none()
    return some(eng.call_closure(a[1], [a[0].f[0]]))


@S('Option::map_or')
def _(eng, ci, a, sp):
    if a[0].var == 'None':
        return a[1]
    return eng.call_closure(a[2], [a[0].f[0]])


@S('Option::map_or_else')
def _(eng, ci, a, sp):
    if a[0].var == 'None':
        return eng.call_closure(a[1], [])
    return eng.call_closure(a[2], [a[0].f[0]])


@S('Option::and_then')
def _(eng, ci, a, sp):
    if a[0].var == 'None':
        return none()
    return eng.call_closure(a[1], [a[0].f[0]])


@S('Option::or_else')
def _(eng, ci, a, sp):
    if a[0].var == 'Some':
        return a[0]
    return eng.call_closure(a[1], [])


@S('Option::ok_or_else')
def _(eng, ci, a, sp):
    if a[0].var == 'Some':
        return ok(a[0].f[0])
    return err(eng.call_closure(a[1], []))


@S('Option::ok_or')
def _(eng, ci, a, sp):
    return ok(a[0].f[0]) if a[0].var == 'Some' else err(a[1])


@S('Option::take')
def _(eng, ci, a, sp):
    old = a[0].get()
    a[0].set(none())
    return old


@S('Option::replace')
def _(eng, ci, a, sp):
    old = a[0].get()
    a[0].set(some(a[1]))
    return old


@S('Option::as_ref', 'Option::as_mut')
def _(eng, ci, a, sp):
    o = deref_all(a[0])
    if o.var == 'None':
        return none()
    return some(Ref(o.f, 0))


@S('Option::as_deref')
def _(eng, ci, a, sp):
    o = deref_all(a[0])
    if o.var == 'None':
        return none()
    return some(deref_value(eng, o.f[0]))


@S('Option::copied', 'Option::cloned')
def _(eng, ci, a, sp):
    o = a[0]
    if o.var == 'None':
        return none()
    v = o.f[0]
    if isinstance(v, Ref):
        v = v.get()
    return some(clone_val(v))


@S('Option::filter')
def _(eng, ci, a, sp):
    if a[0].var == 'None':
        return none()
    keep = eng.call_closure(a[1], [Ref(a[0].f, 0)])
    return a[0] if eng.branch(keep) else none()


@S('Option::or')
def _(eng, ci, a, sp):
    return a[0] if a[0].var == 'Some' else a[1]


@S('Option::unwrap_unchecked')
def _(eng, ci, a, sp):
    return a[0].f[0]


# ---------------------------------------------------------------------------------------- Result
@S('Result::is_ok')
def _(eng, ci, a, sp):
    return deref_all(a[0]).var == 'Ok'


@S('Result::is_err')
def _(eng, ci, a, sp):
    return deref_all(a[0]).var == 'Err'


@S('Result::unwrap', 'Result::expect')
def _(eng, ci, a, sp):
    r = a[0]
    if r.var == 'Err':
        msg = bytes_to_str(a[1]) if len(a) > 1 else 'called `Result::unwrap()` on an `Err` value'
        raise Panic(msg, sp, kind='unwrap')
    return r.f[0]


@S('Result::unwrap_or')
def _(eng, ci, a, sp):
    return a[0].f[0] if a[0].var == 'Ok' else a[1]


@S('Result::unwrap_or_default')
def _(eng, ci, a, sp):
    if a[0].var == 'Ok':
        return a[0].f[0]
    return default_for(eng, ci.raw)


@S('Result::unwrap_or_else')
def _(eng, ci, a, sp):
    return a[0].f[0] if a[0].var == 'Ok' else eng.call_closure(a[1], [a[0].f[0]])


@S('Result::map')
def _(eng, ci, a, sp):
    if a[0].var == 'Err':
        return a[0]
    return ok(eng.call_closure(a[1], [a[0].f[0]]))


@S('Result::map_err')
def _(eng, ci, a, sp):
    if a[0].var == 'Ok':
        return a[0]
    return err(eng.call_closure(a[1], [a[0].f[0]]))


@S('Result::and_then')
def _(eng, ci, a, sp):
    if a[0].var == 'Err':
        return a[0]
    return eng.call_closure(a[1], [a[0].f[0]])


@S('Result::ok')
def _(eng, ci, a, sp):
    return some(a[0].f[0]) if a[0].var == 'Ok' else none()


@S('Result::err')
def _(eng, ci, a, sp):
    return some(a[0].f[0]) if a[0].var == 'Err' else none()


@S('Result::as_ref', 'Result::as_mut')
def _(eng, ci, a, sp):
    r = deref_all(a[0])
    return Enum('Result', r.var, [Ref(r.f, 0)])


@S('Result::or_else')
def _(eng, ci, a, sp):
    if a[0].var == 'Ok':
        return a[0]
    return eng.call_closure(a[1], [a[0].f[0]])


# ---------------------------------------------------------------------------------------- Try / ?
@S('Try::branch')
def _(eng, ci, a, sp):
    v = a[0]
    if v.ty == 'Result':
        if v.var == 'Ok':
            return Enum('ControlFlow', 'Continue', [v.f[0]])
        return Enum('ControlFlow', 'Break', [Enum('Result', 'Err', [v.f[0]])])
    if v.ty == 'Option':
        if v.var == 'Some':
            return Enum('ControlFlow', 'Continue', [v.f[0]])
        return Enum('ControlFlow', 'Break', [Enum('Option', 'None')])
    raise Unsupported('Try::branch on %r' % (v,))


def result_err_type(ty):
    """'Result<A, B>' -> 'B' """
    ty = ty.strip()
    j = ty.find('<')
    if j < 0:
        return None
    parts = split_top(ty[j + 1:ty.rindex('>')])
    return parts[1] if len(parts) > 1 else None


@S('FromResidual::from_residual')
def _(eng, ci, a, sp):
    r = a[0]
    if r.ty == 'Option':
        return Enum('Option', 'None')
    e = r.f[0]
    tgt = result_err_type(ci.selfty)
    m = re.search(r'FromResidual<(.*)>$', ci.traitfull)
    src = result_err_type(m.group(1)) if m else None
    if tgt and src and _norm_ty(tgt) != _norm_ty(src):
        e = convert_from(eng, e, src, tgt, sp)
    return Enum('Result', 'Err', [e])


def convert_from(eng, v, src, tgt, sp):
    """<tgt as From<src>>::from(v)"""
    tb = type_base(tgt)
    key = 'From<%s>' % _norm_ty(src)
    nm = eng.impl_index.get((tb, key, 'from'))
    if nm:
        return eng.run_body(eng.body(nm), [v])
    h = eng.summaries.get('<%s as From<%s>>::from' % (tb, _norm_ty(src))) or eng.summaries.get('<%s as From>::from' % tb)
    if h:
        return h(eng, None, [v], sp)
    if tb in ('Error', 'Box'):     # anyhow::Error / Box<dyn Error>: opaque wrapper
        return Opaque('anyhow::Error', v)
    raise Unsupported('no From<%s> for %s' % (src, tgt))


@S('From::from')
def _(eng, ci, a, sp):
    m = re.match(r'From<(.*)>$', ci.traitfull.split('::')[-1] if '<' not in ci.traitfull.split('::')[-1] else
                 ci.traitfull[ci.traitfull.index('From<'):])
    src = m.group(1) if m else None
    tgt = ci.selfty
    return convert_value(eng, a[0], src, tgt, sp)


@S('Into::into')
def _(eng, ci, a, sp):
    k = ci.traitfull.index('Into<')
    tgt = ci.traitfull[k + 5:-1]
    src = ci.selfty
    return convert_value(eng, a[0], src, tgt, sp)


STRLIKE = {'String': 'String', 'OsString': 'OsString', 'PathBuf': 'PathBuf', 'Vec': 'Vec', 'CString': 'CString',
           'str': 'str', 'OsStr': 'OsStr', 'Path': 'Path', '[]': 'slice', 'CStr': 'CStr'}


def convert_value(eng, v, src, tgt, sp):
    tb = type_base(tgt) if tgt else None
    sb = type_base(src) if src else None
    if src and tgt and _norm_ty(src) == _norm_ty(tgt):
        return v
    # in-crate From impl?
    if src:
        nm = eng.impl_index.get((tb, 'From<%s>' % _norm_ty(src), 'from'))
        if nm:
            return eng.run_body(eng.body(nm), [v])
    if isinstance(v, Opaque) and v.ty == tb:
        return v
    if tb in STRLIKE and isinstance(v, Ref) and isinstance(deref_all(v), (Bytes, Vec)):
        v = deref_all(v)          # From<&PathBuf> for PathBuf and friends: a copy
    if tb in STRLIKE and isinstance(v, (Bytes, Vec)):
        owned = tb in ('String', 'OsString', 'PathBuf', 'Vec', 'CString') and not tgt.strip().startswith('&')
        if owned:
            return Vec(v.items, STRLIKE[tb])
        return Bytes(v.items, STRLIKE[tb])
    if tb == 'Box' and isinstance(v, (Bytes, Vec)):
        return Vec(v.items, 'BoxStr')
    if tb == 'Cow':
        if isinstance(v, Bytes):
            return Enum('Cow', 'Borrowed', [v])
        return Enum('Cow', 'Owned', [v])
    if tb in ('Error',) and tgt and 'anyhow' in tgt:
        return Opaque('anyhow::Error', v)
    if tb == 'Box' or (tgt and 'dyn ' in tgt):
        return Struct('Box', [new_cell(v)])
    if tb == 'Option':
        return some(v)
    if tb in INTW and (isinstance(v, int) or is_sym(v)):
        return eng.int_cast(v, sb if sb in INTW else None, tb)
    if tb == 'Rc':
        return new_cell(v)
    h = eng.summaries.get('<%s as From<%s>>::from' % (tb, _norm_ty(src) if src else '?'))
    if h:
        return h(eng, None, [v], sp)
    raise Unsupported('conversion %s -> %s of %r' % (src, tgt, v))


@S('TryFrom::try_from', 'TryInto::try_into')
def _(eng, ci, a, sp):
    if ci.method == 'try_into':
        tgt = ci.traitfull[ci.traitfull.index('<') + 1:-1]
        src = ci.selfty
    else:
        tgt = ci.selfty
        src = ci.traitfull[ci.traitfull.index('<') + 1:-1]
    tb, sb = type_base(tgt), type_base(src)
    if tb in INTW and sb in INTW:
        v = a[0]
        w = INTW[tb]
        lo, hi = (-(1 << (w - 1)), (1 << (w - 1)) - 1) if is_signed(tb) else (0, (1 << w) - 1)
        if isinstance(v, int):
            return ok(v) if lo <= v <= hi else err(Opaque('TryFromIntError'))
        sw = v.size()
        if is_signed(sb):
            inr = z3.And(v >= z3.BitVecVal(max(lo, -(1 << (sw - 1))), sw), v <= z3.BitVecVal(min(hi, (1 << (sw - 1)) - 1), sw))
        else:
            inr = z3.ULE(v, z3.BitVecVal(min(hi, (1 << sw) - 1), sw))
        if eng.branch(inr):
            return ok(eng.int_cast(v, sb, tb))
        return err(Opaque('TryFromIntError'))
    nm = eng.impl_index.get((tb, 'TryFrom<%s>' % _norm_ty(src), 'try_from'))
    if nm:
        return eng.run_body(eng.body(nm), [a[0]])
    raise Unsupported('try_from %s -> %s' % (src, tgt))


# ---------------------------------------------------------------------------------------- Deref & friends
def deref_value(eng, v):
    """value of `&*x` for library smart pointers / owned strings"""
    v0 = v
    if isinstance(v, Ref):
        v = v.get()
    if isinstance(v, Vec):
        kind = {'String': 'str', 'OsString': 'OsStr', 'PathBuf': 'Path', 'Vec': 'slice', 'CString': 'CStr', 'BoxStr': 'str'}[v.kind]
        return Bytes(v.items, kind)
    if isinstance(v, Bytes):
        return v
    if isinstance(v, Enum) and v.ty == 'Cow':
        if v.var == 'Borrowed':
            return v.f[0]
        return deref_value(eng, v.f[0])
    if isinstance(v, Struct) and v.name in ('Box', 'Pin', 'Rc', 'CellRef', 'CellRefMut', 'ManuallyDrop', 'AliasableBox'):
        inner = v.f[0]
        return inner if isinstance(inner, Ref) else Ref(v.f, 0)
    if isinstance(v, Ref):
        return v
    if isinstance(v, Struct):
        nm = eng.impl_index.get((v.name, 'Deref', 'deref'))
        if nm:
            return eng.run_body(eng.body(nm), [v0])
    raise Unsupported('deref of %r' % (v,))


@S('Deref::deref', 'DerefMut::deref_mut')
def _(eng, ci, a, sp):
    v = a[0]
    inner = v.get() if isinstance(v, Ref) else v
    if isinstance(inner, Ref) and type_base(ci.selfty) in ('Rc', 'Box', 'Arc'):
        return inner          # Rc<T> / Box<T> are modelled as the pointer itself
    if isinstance(inner, Vec) and ci.method == 'deref_mut':
        return v      # &mut Vec<T> -> &mut [T]: keep pointing at the vector
    return deref_value(eng, v)


@S('AsRef::as_ref', 'Borrow::borrow', 'AsMut::as_mut')
def _(eng, ci, a, sp):
    v = a[0]
    tgt = ci.traitfull[ci.traitfull.index('<') + 1:-1] if '<' in ci.traitfull else None
    inner = v.get() if isinstance(v, Ref) else v
    # `&T: AsRef<U>` blanket impl: look through nested references to a crate type
    d = 0
    while isinstance(inner, Ref) and isinstance(inner.get(), (Ref, Struct, Enum)) and d < 4:
        v = inner
        inner = inner.get()
        d += 1
    # in-crate AsRef impls on crate types
    if isinstance(inner, (Struct, Enum)):
        rt = eng.runtime_type(inner)
        for tk in ('AsRef<%s>' % _norm_ty(tgt) if tgt else None, 'AsRef'):
            nm = eng.impl_index.get((rt, tk, 'as_ref')) if tk else None
            if nm:
                return eng.run_body(eng.body(nm), [v])
        if isinstance(inner, Enum) and inner.ty == 'Cow':
            return retag(deref_value(eng, inner), tgt)
        if isinstance(inner, Enum) and inner.ty == 'Component':
            return retag(component_bytes(inner), tgt)
        raise Unsupported('as_ref on %r -> %s' % (inner, tgt))
    if isinstance(inner, Ref):
        inner = deref_all(inner)
    if isinstance(inner, (Vec, Bytes)):
        return retag(Bytes(inner.items, getattr(inner, 'kind', 'slice')) if isinstance(inner, Vec) else inner, tgt)
    raise Unsupported('as_ref on %r' % (inner,))


def retag(b, tgt):
    if tgt is None:
        return b
    tb = type_base(tgt)
    if tb in STRLIKE:
        return Bytes(b.items, STRLIKE[tb])
    return b


def component_bytes(c):
    if c.var == 'RootDir':
        return Bytes(b'/', 'OsStr')
    if c.var == 'CurDir':
        return Bytes(b'.', 'OsStr')
    if c.var == 'ParentDir':
        return Bytes(b'..', 'OsStr')
    return c.f[0]


@S('Clone::clone')
def _(eng, ci, a, sp):
    v = a[0]
    inner = v.get() if isinstance(v, Ref) else v
    if isinstance(inner, Ref):      # Rc<T>::clone, &T::clone
        return inner
    if isinstance(inner, (Struct, Enum)):
        rt = eng.runtime_type(inner)
        nm = eng.impl_index.get((rt, 'Clone', 'clone'))
        if nm:
            return eng.run_body(eng.body(nm), [v])
    return clone_val(inner)


@S('ToOwned::to_owned')
def _(eng, ci, a, sp):
    v = deref_all(a[0])
    if isinstance(v, Bytes):
        return Vec(v.items, {'str': 'String', 'OsStr': 'OsString', 'Path': 'PathBuf', 'slice': 'Vec', 'bytes': 'Vec', 'CStr': 'CString'}[v.kind])
    return clone_val(v)


@S('ToString::to_string')
def _(eng, ci, a, sp):
    v = deref_all(a[0])
    if isinstance(v, (Bytes, Vec)):
        return Vec(v.items, 'String')
    return Vec(display_items(eng, v), 'String')


@S('Default::default')
def _(eng, ci, a, sp):
    return default_for(eng, ci.selfty)


def default_for(eng, ty):
    tb = type_base(ty.split(' as ')[0].lstrip('<')) if ty.startswith('<') else type_base(ty)
    if 'unwrap_or_default' in ty:
        m = re.search(r'(?:Option|Result)::<(.*?)[,>]', ty)
        tb = type_base(m.group(1)) if m else tb
    if tb in ('String', 'OsString', 'PathBuf', 'Vec'):
        return Vec([], tb)
    if tb in INTW:
        return 0
    if tb == 'bool':
        return False
    if tb == 'Option':
        return none()
    if tb in ('HashMap', 'HashSet'):
        return Map(tb)
    if tb == 'VecDeque':
        return Deque()
    nm = eng.impl_index.get((tb, 'Default', 'default'))
    if nm:
        return eng.run_body(eng.body(nm), [])
    raise Unsupported('Default for %s' % ty)


def values_eq(eng, a, b):
    """structural equality as a python bool or z3 Bool"""
    a, b = deref_all(a), deref_all(b)
    if isinstance(a, (Bytes, Vec)) and isinstance(b, (Bytes, Vec)):
        if a.kind in ('Path', 'PathBuf') or b.kind in ('Path', 'PathBuf'):
            return path_eq(eng, a.items, b.items)
        if len(a.items) != len(b.items):
            return False
        r = True
        for x, y in zip(a.items, b.items):
            r = b_and(r, values_eq(eng, x, y))
            if r is False:
                return False
        return r
    if isinstance(a, Enum) and isinstance(b, Enum):
        if a.ty == 'Cow' or b.ty == 'Cow':
            return values_eq(eng, deref_value(eng, a) if a.ty == 'Cow' else a, deref_value(eng, b) if b.ty == 'Cow' else b)
        if a.var != b.var:
            return False
        r = True
        for x, y in zip(a.f, b.f):
            r = b_and(r, values_eq(eng, x, y))
        return r
    if isinstance(a, Enum) and a.ty == 'Cow':
        return values_eq(eng, deref_value(eng, a), b)
    if isinstance(b, Enum) and b.ty == 'Cow':
        return values_eq(eng, a, deref_value(eng, b))
    if isinstance(a, Struct) and isinstance(b, Struct):
        nm = eng.impl_index.get((a.name, 'PartialEq', 'eq'))
        if nm and a.name not in ('()',):
            return eng.run_body(eng.body(nm), [new_cell(a), new_cell(b)])
        r = True
        for x, y in zip(a.f, b.f):
            r = b_and(r, values_eq(eng, x, y))
        return r
    if isinstance(a, Arr) and isinstance(b, Arr):
        r = True
        for x, y in zip(a.items, b.items):
            r = b_and(r, values_eq(eng, x, y))
        return r
    if isinstance(a, bool) and isinstance(b, bool):
        return a == b
    if isinstance(a, int) and isinstance(b, int):
        return a == b
    if isinstance(a, Tok) or isinstance(b, Tok):
        if isinstance(a, Tok) and isinstance(b, Tok) and a.kind == b.kind:
            if a.val is b.val:
                return True
            if a.kind == 'float':
                raise Unsupported('comparison of two formatted floats')
            return values_eq(eng, a.val, b.val)
        t, o = (a, b) if isinstance(a, Tok) else (b, a)
        if isinstance(o, int):
            from .strings import tok_excludes
            if tok_excludes(t, o):
                return False
        raise Unsupported('comparison with opaque token %r %r' % (a, b))
    if is_sym(a) or is_sym(b):
        if z3.is_bool(a) or z3.is_bool(b) or isinstance(a, bool) or isinstance(b, bool):
            return (z3.BoolVal(a) if isinstance(a, bool) else a) == (z3.BoolVal(b) if isinstance(b, bool) else b)
        if (is_sym(a) and z3.is_int(a)) or (is_sym(b) and z3.is_int(b)):
            return (a if not isinstance(a, int) else z3.IntVal(a)) == (b if not isinstance(b, int) else z3.IntVal(b))
        w = a.size() if is_sym(a) else b.size()
        return to_bv(a, w) == to_bv(b, w)
    if isinstance(a, Opaque) and isinstance(b, Opaque):
        return values_eq(eng, a.data, b.data) if a.ty == b.ty else False
    if a == () and b == ():
        return True
    if isinstance(a, (Vec, Bytes)) != isinstance(b, (Vec, Bytes)):
        # e.g. Struct wrapper around string vs string: unwrap single-field newtypes
        if isinstance(a, Struct) and len(a.f) == 1:
            return values_eq(eng, a.f[0], b)
        if isinstance(b, Struct) and len(b.f) == 1:
            return values_eq(eng, a, b.f[0])
    if a is None and b is None:
        return True
    raise Unsupported('equality of %r and %r' % (a, b))


def path_eq(eng, x, y):
    """std::path::Path equality is component-wise"""
    from .strings import comps
    cx, cy = comps(eng, tuple(x)), comps(eng, tuple(y))
    if len(cx) != len(cy):
        return False
    r = True
    for p, q in zip(cx, cy):
        if p[0] != q[0]:
            return False
        if p[0] == 'Normal':
            if len(p[1]) != len(q[1]):
                return False
            for u, v in zip(p[1], q[1]):
                r = b_and(r, values_eq(eng, u, v))
    return r


@S('PartialEq::eq')
def _(eng, ci, a, sp):
    return values_eq(eng, a[0], a[1])


@S('PartialEq::ne')
def _(eng, ci, a, sp):
    return b_not(values_eq(eng, a[0], a[1]))


def ord_cmp(eng, a, b):
    a, b = deref_all(a), deref_all(b)
    if isinstance(a, int) and isinstance(b, int):
        return -1 if a < b else (0 if a == b else 1)
    if isinstance(a, Struct) and isinstance(b, Struct):
        for x, y in zip(a.f, b.f):
            c = ord_cmp(eng, x, y)
            if c != 0:
                return c
        return 0
    if is_sym(a) or is_sym(b):
        w = a.size() if is_sym(a) else b.size()
        A, B = to_bv(a, w), to_bv(b, w)
        # signedness unknown here: callers with symbolic ordering use typed summaries
        raise Unsupported('symbolic ordering without type')
    raise Unsupported('ordering of %r %r' % (a, b))


@S('std::cmp::max', 'cmp::max', 'Ord::max')
def _(eng, ci, a, sp):
    return minmax(eng, ci, a, True)


@S('std::cmp::min', 'cmp::min', 'Ord::min')
def _(eng, ci, a, sp):
    return minmax(eng, ci, a, False)


def minmax(eng, ci, a, want_max):
    x, y = a
    m = re.search(r'(?:max|min)::<(\w+)>', ci.raw)
    ty = m.group(1) if m else (type_base(ci.selfty) if ci.selfty else None)
    if isinstance(x, Struct) and x.name in ('Duration', 'Instant'):
        from .sysenv import tval
        X, Y = tval(x.f[0]), tval(y.f[0])
        if isinstance(X, int) and isinstance(Y, int):
            return Struct(x.name, [max(X, Y) if want_max else min(X, Y)])
        lt = X < Y
        return Struct(x.name, [z3.If(lt, Y, X) if want_max else z3.If(lt, X, Y)])
    if isinstance(x, int) and isinstance(y, int):
        return max(x, y) if want_max else min(x, y)
    if (is_sym(x) and z3.is_int(x)) or (is_sym(y) and z3.is_int(y)):
        X = x if not isinstance(x, int) else z3.IntVal(x)
        Y = y if not isinstance(y, int) else z3.IntVal(y)
        return z3.If(X < Y, Y, X) if want_max else z3.If(X < Y, X, Y)
    if ty not in INTW:
        raise Unsupported('min/max on %s' % ty)
    w = INTW[ty]
    X, Y = to_bv(x, w), to_bv(y, w)
    lt = (X < Y) if is_signed(ty) else z3.ULT(X, Y)
    # Ord::max returns the second argument when equal; value-wise identical for integers
    return z3.If(lt, Y, X) if want_max else z3.If(lt, X, Y)


@S('PartialOrd::lt', 'PartialOrd::le', 'PartialOrd::gt', 'PartialOrd::ge')
def _(eng, ci, a, sp):
    x, y = deref_all(a[0]), deref_all(a[1])
    if isinstance(x, Struct) and x.name in ('Instant', 'Duration'):
        from .sysenv import time_cmp
        return time_cmp(eng, ci.method, x, y)
    if isinstance(x, int) and isinstance(y, int):
        return {'lt': x < y, 'le': x <= y, 'gt': x > y, 'ge': x >= y}[ci.method]
    ty = type_base(ci.selfty)
    if ty in INTW:
        return eng.binop({'lt': 'Lt', 'le': 'Le', 'gt': 'Gt', 'ge': 'Ge'}[ci.method], x, y, ty)
    raise Unsupported('PartialOrd on %r' % (x,))


# ---------------------------------------------------------------------------------------- mem / ptr / misc
@S('mem::drop', 'std::mem::drop', 'drop')
def _(eng, ci, a, sp):
    eng.drop_value(a[0])
    return UNIT


@S('mem::swap', 'std::mem::swap')
def _(eng, ci, a, sp):
    x, y = a[0].get(), a[1].get()
    a[0].set(y)
    a[1].set(x)
    return UNIT


@S('mem::replace', 'std::mem::replace')
def _(eng, ci, a, sp):
    old = a[0].get()
    a[0].set(a[1])
    return old


@S('mem::take', 'std::mem::take')
def _(eng, ci, a, sp):
    old = a[0].get()
    a[0].set(default_like(old))
    return old


def default_like(v):
    if isinstance(v, Vec):
        return Vec([], v.kind)
    if isinstance(v, Enum) and v.ty == 'Option':
        return none()
    if isinstance(v, Map):
        return Map(v.kind)
    raise Unsupported('mem::take of %r' % (v,))


@S('mem::forget', 'std::mem::forget')
def _(eng, ci, a, sp):
    return UNIT


@S('must_use', 'hint::must_use', 'std::hint::must_use', 'convert::identity', 'IntoFuture::into_future',
   'assert_fused_future', 'assert_unpin', 'assert_fused_stream', 'async_await::assert_fused_future',
   'async_await::assert_unpin', 'async_await::assert_fused_stream', 'black_box')
def _(eng, ci, a, sp):
    if ci.method in ('assert_fused_future', 'assert_unpin', 'assert_fused_stream'):
        return UNIT
    return a[0]


@S('panic', 'panicking::panic', 'core::panicking::panic', 'panic_fmt', 'panicking::panic_fmt', 'core::panicking::panic_fmt',
   'begin_panic', 'panicking::begin_panic', 'panic_display', 'panicking::panic_display', 'panic_explicit',
   'unreachable_display', 'panic_str_2015', 'panicking::panic_explicit', 'panicking::unreachable_display')
def _(eng, ci, a, sp):
    msg = ''
    if a:
        v = a[0]
        if isinstance(v, Bytes):
            msg = bytes_to_str(v)
        elif isinstance(v, Struct) and v.name == 'Arguments':
            msg = show_items(format_arguments(eng, v))
        else:
            msg = repr(v)
    raise Panic(msg, sp, kind='panic')


@S('assert_failed', 'panicking::assert_failed', 'core::panicking::assert_failed')
def _(eng, ci, a, sp):
    k = a[0].var if isinstance(a[0], Enum) else '?'
    l, r = deref_all(a[1]), deref_all(a[2])
    raise Panic('assertion `left %s right` failed: left=%r right=%r' % ({'Eq': '==', 'Ne': '!='}.get(k, k), l, r), sp, kind='assert')


@S('Option::unwrap_failed', 'option::unwrap_failed', 'result::unwrap_failed', 'Option::expect_failed', 'option::expect_failed')
def _(eng, ci, a, sp):
    raise Panic('unwrap failed', sp, kind='unwrap')


@S('process::exit', 'std::process::exit')
def _(eng, ci, a, sp):
    raise ProcessExit(a[0])


@S('process::abort', 'std::process::abort')
def _(eng, ci, a, sp):
    raise Panic('abort', sp, kind='abort')


@S('process::id', 'std::process::id')
def _(eng, ci, a, sp):
    return 4242


# ---------------------------------------------------------------------------------------- Box / Rc / RefCell / Cell / Pin
@S('Box::new', 'Rc::new', 'Arc::new')
def _(eng, ci, a, sp):
    return new_cell(a[0])


@S('Box::pin', 'Rc::pin')
def _(eng, ci, a, sp):
    return Struct('Pin', [new_cell(a[0])])


@S('Box::new_uninit')
def _(eng, ci, a, sp):
    return Struct('Box', [Struct('Unique', [new_cell(Struct('MaybeUninit', []))])])


@S('box_assume_init_into_vec_unsafe', 'boxed::box_assume_init_into_vec_unsafe')
def _(eng, ci, a, sp):
    cell = a[0].f[0].f[0]
    mu = cell.get()
    arr = mu.f[1].f[0].f[0]
    return Vec(arr.items, 'Vec')


@S('Rc::strong_count')
def _(eng, ci, a, sp):
    raise Unsupported('Rc::strong_count')


@S('Pin::new_unchecked', 'Pin::new')
def _(eng, ci, a, sp):
    return Struct('Pin', [a[0]])


@S('Pin::as_mut', 'Pin::as_ref')
def _(eng, ci, a, sp):
    p = deref_all(a[0])        # &mut Pin<P>
    inner = p.f[0]
    # Pin<&mut T>::as_mut -> Pin<&mut T>; Pin<Box<T>>::as_mut -> Pin<&mut T>
    while isinstance(inner, Struct) and inner.name in ('Box',):
        inner = inner.f[0]
    return Struct('Pin', [inner])


@S('Pin::get_mut', 'Pin::get_unchecked_mut', 'Pin::into_inner', 'Pin::get_ref', 'Pin::into_ref', 'Pin::into_inner_unchecked')
def _(eng, ci, a, sp):
    return a[0].f[0]


@S('Pin::map_unchecked_mut')
def _(eng, ci, a, sp):
    return Struct('Pin', [eng.call_closure(a[1], [a[0].f[0]])])


@S('Pin::set')
def _(eng, ci, a, sp):
    p = deref_all(a[0])
    p.f[0].set(a[1])
    return UNIT


class CellState:
    __slots__ = ('v', 'readers', 'writer')


@S('RefCell::new')
def _(eng, ci, a, sp):
    return Struct('RefCell', [a[0], 0])       # [value, borrow flag: >0 readers, -1 writer]


@S('RefCell::borrow')
def _(eng, ci, a, sp):
    rc = deref_all(a[0])
    if rc.f[1] < 0:
        raise Panic('already mutably borrowed: BorrowError', sp, kind='borrow')
    rc.f[1] += 1
    return Struct('CellRef', [Ref(rc.f, 0), rc])


@S('RefCell::borrow_mut')
def _(eng, ci, a, sp):
    rc = deref_all(a[0])
    if rc.f[1] != 0:
        raise Panic('already borrowed: BorrowMutError', sp, kind='borrow')
    rc.f[1] = -1
    return Struct('CellRefMut', [Ref(rc.f, 0), rc])


@S('RefCell::into_inner')
def _(eng, ci, a, sp):
    return a[0].f[0]


@S('drop CellRef')
def _(eng, v):
    v.f[1].f[1] -= 1


@S('drop CellRefMut')
def _(eng, v):
    v.f[1].f[1] = 0


@S('Cell::new')
def _(eng, ci, a, sp):
    return Struct('Cell', [a[0]])


@S('Cell::get')
def _(eng, ci, a, sp):
    return deref_all(a[0]).f[0]


@S('Cell::set')
def _(eng, ci, a, sp):
    deref_all(a[0]).f[0] = a[1]
    return UNIT


@S('Cell::replace')
def _(eng, ci, a, sp):
    c = deref_all(a[0])
    old = c.f[0]
    c.f[0] = a[1]
    return old


@S('Cell::take')
def _(eng, ci, a, sp):
    c = deref_all(a[0])
    old = c.f[0]
    c.f[0] = default_like(old)
    return old


# ---------------------------------------------------------------------------------------- Fn traits
@S('FnOnce::call_once', 'FnMut::call_mut', 'Fn::call')
def _(eng, ci, a, sp):
    f = a[0]
    tup = a[1]
    args = list(tup.f) if isinstance(tup, Struct) else []
    return eng.call_closure(f, args)


# ---------------------------------------------------------------------------------------- formatting
@S('Argument::new_display', 'Argument::new_debug', 'Argument::new_lower_hex', 'Argument::new_upper_hex')
def _(eng, ci, a, sp):
    return Struct('FmtArg', [ci.method[4:], a[0]])


@S('Arguments::new', 'Arguments::new_const', 'Arguments::new_v1', 'Arguments::from_str', 'Arguments::from_str_nonconst')
def _(eng, ci, a, sp):
    return Struct('Arguments', [a[0], a[1] if len(a) > 1 else None])


def display_items(eng, v, debug=False):
    v = deref_all(v)
    if isinstance(v, (Bytes, Vec)) and getattr(v, 'kind', '') not in ('Vec', 'slice') or isinstance(v, Bytes) and v.kind in ('str', 'OsStr', 'Path'):
        if debug:
            return [Tok('debug', v)]
        return list(v.items)
    if isinstance(v, bool):
        return list(b'true' if v else b'false')
    if isinstance(v, int):
        return list(str(v).encode())
    if is_sym(v) and not z3.is_bool(v):
        return [Tok('dec', v)]
    if isinstance(v, (Struct, Enum)) and not debug:
        rt = eng.runtime_type(v)
        nm = eng.impl_index.get((rt, 'Display', 'fmt'))
        if nm:
            fm = Struct('Formatter', [Vec([], 'String')])
            r = eng.run_body(eng.body(nm), [new_cell(v), new_cell(fm)])
            return list(fm.f[0].items)
    return [Tok('debug' if debug else 'display', v)]


def format_arguments(eng, args):
    tmpl = args.f[0]
    fa = args.f[1]
    if isinstance(tmpl, Bytes) and tmpl.kind == 'str' or fa is None:
        return list(tmpl.items)
    items = list(tmpl.items)
    arr = deref_all(fa)
    argv = list(arr.items) if isinstance(arr, (Arr, Bytes, Vec)) else []
    out = []
    i = 0
    ai = 0
    while i < len(items):
        c = items[i]
        if c == 0:
            break
        if c == 0xc0:
            if ai >= len(argv):
                raise Unsupported('format template has more placeholders than arguments')
            fa1 = argv[ai]
            ai += 1
            out += display_items(eng, fa1.f[1], debug=(fa1.f[0] == 'debug'))
            i += 1
        elif c < 0x80:
            out += items[i + 1:i + 1 + c]
            i += 1 + c
        elif c & 0xf0 == 0xc0:
            # placeholder with options: bit0 flags(u32), bit1 width(u16), bit2 precision(u16), bit3 explicit argument index(u16)
            j = i + 1
            flags = width = prec = None
            if c & 1:
                flags = items[j:j + 4]
                j += 4
            if c & 2:
                width = items[j] | (items[j + 1] << 8)
                j += 2
            if c & 4:
                prec = items[j] | (items[j + 1] << 8)
                j += 2
            if c & 8:
                ai = items[j] | (items[j + 1] << 8)
                j += 2
            if ai >= len(argv):
                raise Unsupported('format template has more placeholders than arguments')
            fa1 = argv[ai]
            ai += 1
            v = deref_all(fa1.f[1])
            if isinstance(v, float) or (isinstance(v, Opaque) and v.ty == 'f64') or prec is not None:
                out.append(Tok('float', (v, prec)))
            elif width is None:
                out += display_items(eng, fa1.f[1], debug=(fa1.f[0] == 'debug'))
            else:
                out.append(Tok('fmt', (v, width)))
            i = j
        else:
            return [Tok('fmt', (tuple(items), tuple(argv)))]
    return out


@S('format', 'fmt::format', 'alloc::fmt::format', 'std::fmt::format')
def _(eng, ci, a, sp):
    return Vec(format_arguments(eng, a[0]), 'String')


@S('Formatter::write_str', 'Write::write_str')
def _(eng, ci, a, sp):
    f = deref_all(a[0])
    if isinstance(f, Struct) and f.name == 'Formatter':
        f.f[0].items.extend(a[1].items)
        return ok(UNIT)
    if isinstance(f, Vec):
        f.items.extend(a[1].items)
        return ok(UNIT)
    raise Unsupported('write_str on %r' % (f,))


@S('Formatter::write_fmt', 'Write::write_fmt')
def _(eng, ci, a, sp):
    f = deref_all(a[0])
    if isinstance(f, Struct) and f.name == 'Formatter':
        f.f[0].items.extend(format_arguments(eng, a[1]))
        return ok(UNIT)
    if isinstance(f, Vec):
        f.items.extend(format_arguments(eng, a[1]))
        return ok(UNIT)
    h = eng.summaries.get('write_fmt ' + eng.runtime_type(f))
    if h:
        return h(eng, ci, a, sp)
    raise Unsupported('write_fmt on %r' % (f,))


@S('<str as Display>::fmt', '<String as Display>::fmt', '<i32 as Display>::fmt', '<i64 as Display>::fmt', '<usize as Display>::fmt',
   'Display::fmt')
def _(eng, ci, a, sp):
    f = deref_all(a[1])
    f.f[0].items.extend(display_items(eng, a[0]))
    return ok(UNIT)


@S('Debug::fmt')
def _(eng, ci, a, sp):
    f = deref_all(a[1])
    f.f[0].items.extend(display_items(eng, a[0], debug=True))
    return ok(UNIT)


def bytes_to_str(b):
    b = deref_all(b)
    try:
        return bytes(b.items).decode('utf-8', 'replace')
    except Exception:
        return repr(b)


# ---------------------------------------------------------------------------------------- integer helpers
@S('i32::checked_add', 'i64::checked_add', 'usize::checked_add', 'u64::checked_add')
def _(eng, ci, a, sp):
    ty = ci.segs[-2]
    r = eng.binop('AddWithOverflow', a[0], a[1], ty)
    if eng.branch(r.f[1]):
        return none()
    return some(r.f[0])


@S('usize::checked_sub', 'i32::checked_sub', 'i64::checked_sub', 'u64::checked_sub')
def _(eng, ci, a, sp):
    ty = ci.segs[-2]
    r = eng.binop('SubWithOverflow', a[0], a[1], ty)
    if eng.branch(r.f[1]):
        return none()
    return some(r.f[0])


@S('usize::saturating_sub')
def _(eng, ci, a, sp):
    x, y = a
    if isinstance(x, int) and isinstance(y, int):
        return max(0, x - y)
    X, Y = to_bv(x, 64), to_bv(y, 64)
    return z3.If(z3.ULT(X, Y), z3.BitVecVal(0, 64), X - Y)


@S('i32::abs', 'i64::abs')
def _(eng, ci, a, sp):
    x = a[0]
    if isinstance(x, int):
        return abs(x)
    return z3.If(x < 0, -x, x)


def REGISTRY_as_ref(eng, v, kind):
    """bytes view (of the given kind) of any AsRef<OsStr/Path/str/[u8]>-like value"""
    inner = deref_all(v)
    if isinstance(inner, (Vec, Bytes, Arr)):
        return Bytes(inner.items, kind)
    if isinstance(inner, Enum) and inner.ty == 'Cow':
        return Bytes(deref_value(eng, inner).items, kind)
    if isinstance(inner, Enum) and inner.ty == 'Component':
        return Bytes(component_bytes(inner).items, kind)
    if isinstance(inner, Struct):
        rt = inner.name
        for (b, t, m), nm in eng.impl_index.items():
            if b == rt and m == 'as_ref' and t and t.startswith('AsRef'):
                return REGISTRY_as_ref(eng, eng.run_body(eng.body(nm), [v if isinstance(v, Ref) else new_cell(inner)]), kind)
        nm = eng.impl_index.get((rt, 'Deref', 'deref'))
        if nm:
            return REGISTRY_as_ref(eng, eng.run_body(eng.body(nm), [v if isinstance(v, Ref) else new_cell(inner)]), kind)
        if len(inner.f) == 1:
            return REGISTRY_as_ref(eng, inner.f[0], kind)
    raise Unsupported('as_ref view of %r' % (inner,))


@S('const std::path::MAIN_SEPARATOR', 'const path::MAIN_SEPARATOR', 'const MAIN_SEPARATOR')
def _(eng):
    return 47


@S('downcast_ref')
def _(eng, ci, a, sp):
    """<dyn Error>::downcast_ref::<T>(): Some(&T) iff the object behind the reference is a T"""
    import re
    m = re.search(r'downcast_ref::<([^>]+)>', ci.raw or '')
    if not m:
        raise Unsupported('downcast_ref without a type argument: %s' % ci.raw)
    want = type_base(m.group(1))
    r = a[0]
    v = deref_all(r)
    d = 0
    while isinstance(v, Struct) and v.name == 'Box' and d < 4:
        r = v.f[0]
        v = deref_all(r)
        d += 1
    if eng.runtime_type(v) == want:
        return some(r if isinstance(r, Ref) else new_cell(v))
    return none()
