"""rusqlite.  The SQL text found in the MIR (a string constant, possibly assembled with format!) is parsed and interpreted
against the table model owned by `eng.world`; a statement shape that is not recognised is Unsupported (inconclusive),
never guessed."""
import re
import z3
from . import S
from ..values import *
from ..srcinfo import type_base
from ..mir import split_top
from .core import some, none, ok, err, deref_all, bytes_to_str


def sql_text(v):
    v = deref_all(v)
    if not isinstance(v, (Bytes, Vec)):
        raise Unsupported('SQL text is %r' % (v,))
    if not all(isinstance(x, int) for x in v.items):
        raise Unsupported('SQL text is not concrete: %r' % (v,))
    return re.sub(r'\s+', ' ', bytes(v.items).decode('utf-8')).strip()


def sql_error(kind='SqliteFailure', data=None):
    """rusqlite::Error value; kind 'ConstraintViolation' etc. are SqliteFailure codes"""
    from .core import none as _none
    if kind in ('SqliteFailure', 'ConstraintViolation', 'DatabaseBusy', 'DatabaseLocked', 'SystemIoFailure', 'DiskFull'):
        code = kind if kind != 'SqliteFailure' else 'SystemIoFailure'
        return Enum('rusqlite::Error', 'SqliteFailure', [Struct('Error', [Enum('ErrorCode', code), 0]), _none()])
    return Enum('rusqlite::Error', kind, [data] if data is not None else [])


def to_sql_value(eng, v):
    """engine value -> cell value (None = NULL, int/z3 term, bytes tuple for text)"""
    v = deref_all(v)
    if isinstance(v, bool):
        return 1 if v else 0
    if isinstance(v, int) or is_sym(v):
        if is_sym(v) and z3.is_bool(v):
            return v
        return v
    if isinstance(v, (Bytes, Vec)):
        return tuple(v.items)
    if isinstance(v, Enum) and v.ty == 'Option':
        if v.var == 'None':
            return None
        return to_sql_value(eng, v.f[0])
    if isinstance(v, Enum) and v.ty == 'Cow':
        return to_sql_value(eng, v.f[0])
    if isinstance(v, (Struct, Enum)):
        rt = eng.runtime_type(v)
        nm = eng.impl_index.get((rt, 'ToSql', 'to_sql'))
        if nm:
            r = eng.run_body(eng.body(nm), [new_cell(v)])
            if r.var != 'Ok':
                raise Unsupported('to_sql failed for %r' % (v,))
            out = r.f[0]           # ToSqlOutput::Borrowed(ValueRef::Text(bytes))
            inner = out.f[0]
            if isinstance(inner, Enum) and inner.ty == 'ValueRef':
                if inner.var == 'Null':
                    return None
                return to_sql_value(eng, inner.f[0])
            return to_sql_value(eng, inner)
    raise Unsupported('SQL parameter %r' % (v,))


def params_list(eng, p):
    p = deref_all(p)
    if isinstance(p, (Bytes, Arr, Vec)):
        return [to_sql_value(eng, x) for x in p.items]
    if p == () or (isinstance(p, Struct) and not p.f):
        return []
    raise Unsupported('SQL params %r' % (p,))


@S('Connection::execute')
def _(eng, ci, a, sp):
    return eng.world.sql_execute(eng, sql_text(a[1]), params_list(eng, a[2]), sp)


@S('Connection::execute_batch')
def _(eng, ci, a, sp):
    return eng.world.sql_batch(eng, sql_text(a[1]), sp)


@S('Connection::query_row')
def _(eng, ci, a, sp):
    r = eng.world.sql_query(eng, sql_text(a[1]), params_list(eng, a[2]), sp)
    if r.var == 'Err':
        return r
    rows = r.f[0]
    if not rows:
        return err(Enum('rusqlite::Error', 'QueryReturnedNoRows'))
    return eng.call_closure(a[3], [new_cell(Opaque('Row', rows[0]))])


@S('OptionalExtension::optional')
def _(eng, ci, a, sp):
    r = a[0]
    if r.var == 'Ok':
        return ok(some(r.f[0]))
    e = r.f[0]
    if isinstance(e, Enum) and e.var == 'QueryReturnedNoRows':
        return ok(none())
    return r


@S('Connection::prepare')
def _(eng, ci, a, sp):
    return ok(Opaque('Statement', sql_text(a[1])))


@S('Statement::query')
def _(eng, ci, a, sp):
    st = deref_all(a[0])
    r = eng.world.sql_query(eng, st.data, params_list(eng, a[1]), sp)
    if r.var == 'Err':
        return r
    return ok(Opaque('Rows', [r.f[0], 0]))


@S('Rows::next')
def _(eng, ci, a, sp):
    rows = deref_all(a[0])
    lst, pos = rows.data
    if pos >= len(lst):
        return ok(none())
    rows.data[1] = pos + 1
    return ok(some(new_cell(Opaque('Row', lst[pos]))))


def get_type(raw):
    m = re.search(r'Row::<[^>]*>::get::<(.*)>$', raw.strip()) or re.search(r'get::<(.*)>$', raw.strip())
    if not m:
        return None
    parts = split_top(m.group(1))
    return parts[-1].strip() if parts else None


def from_sql(eng, cell, ty, sp):
    """cell -> Result<T, rusqlite::Error>"""
    tb = type_base(ty)
    if type(cell) is LazyVal and not cell.forced:
        # keep the input lazy: its shape is chosen when the program first inspects the converted value.
        # (cells of the symbolic tables are well-typed by construction, so the conversion cannot fail)
        def conv(cell=cell, ty=ty):
            r = from_sql(eng, cell.force(), ty, sp)
            if r.var != 'Ok':
                raise Unsupported('lazy cell of the wrong SQL type for %s' % ty)
            return r.f[0]
        return ok(LazyVal(conv, cell.label))
    if type(cell) is LazyVal:
        cell = cell.force()
    if tb == 'Option':
        inner = ty[ty.index('<') + 1:ty.rindex('>')]
        if cell is None:
            return ok(none())
        r = from_sql(eng, cell, inner, sp)
        if r.var == 'Err':
            return r
        return ok(some(r.f[0]))
    if cell is None:
        return err(Enum('rusqlite::Error', 'InvalidColumnType'))
    if tb in INTW:
        if isinstance(cell, tuple):
            return err(Enum('rusqlite::Error', 'InvalidColumnType'))
        return ok(cell)
    if tb == 'bool':
        if isinstance(cell, bool) or (is_sym(cell) and z3.is_bool(cell)):
            return ok(cell)
        if isinstance(cell, int):
            return ok(cell != 0)
        if is_sym(cell):
            return ok(cell != z3.BitVecVal(0, cell.size()))
        return err(Enum('rusqlite::Error', 'InvalidColumnType'))
    if tb == 'String':
        if not isinstance(cell, tuple):
            return err(Enum('rusqlite::Error', 'InvalidColumnType'))
        return ok(Vec(cell, 'String'))
    # crate types with their own FromSql
    nm = eng.impl_index.get((tb, 'FromSql', 'column_result'))
    if nm:
        if isinstance(cell, tuple):
            vr = Enum('ValueRef', 'Text', [Bytes(cell, 'slice')])
        elif cell is None:
            vr = Enum('ValueRef', 'Null')
        else:
            vr = Enum('ValueRef', 'Integer', [cell])
        r = eng.run_body(eng.body(nm), [vr])
        if r.var == 'Err':
            return err(Enum('rusqlite::Error', 'FromSqlConversionFailure', [0, Opaque('Type'), r.f[0]]))
        return r
    raise Unsupported('FromSql for %s' % ty)


@S('Row::get')
def _(eng, ci, a, sp):
    row = deref_all(a[0]).data
    idx = deref_all(a[1])
    ty = get_type(ci.raw)
    if ty is None:
        raise Unsupported('Row::get without a type: %s' % ci.raw)
    if isinstance(idx, (Bytes, Vec)):
        key = bytes(idx.items).decode()
        if key not in row['byname']:
            return err(Enum('rusqlite::Error', 'InvalidColumnName'))
        cell = row['byname'][key]
    else:
        i = eng.concrete(idx, 'column index')
        if i >= len(row['cols']):
            return err(Enum('rusqlite::Error', 'InvalidColumnIndex'))
        cell = row['cols'][i]
    return from_sql(eng, cell, ty, sp)


@S('<String as FromSql>::column_result', 'FromSql::column_result')
def _(eng, ci, a, sp):
    v = a[0]
    tb = type_base(ci.selfty)
    if tb == 'String':
        if v.var == 'Text':
            return ok(Vec(v.f[0].items, 'String'))
        return err(Enum('FromSqlError', 'InvalidType'))
    raise Unsupported('column_result for %s' % ci.selfty)


@S('Connection::busy_timeout', 'Connection::open')
def _(eng, ci, a, sp):
    raise Unsupported('opening a database connection is outside the model')


@S('Connection::transaction')
def _(eng, ci, a, sp):
    raise Unsupported('rusqlite::Transaction is outside the model')
