"""Facts scraped from the Rust sources of the scratch copy that the MIR text does not carry:
struct field names (MIR uses indices), enum variants with discriminant values, and the
self-type/trait of each `impl` block (MIR names bodies `<impl at file:line:col: line:col>::method`)."""
import os
import re
from .mir import scan_balanced, split_top


def _strip_comments(src):
    out = []
    i = 0
    n = len(src)
    while i < n:
        if src.startswith('//', i):
            j = src.find('\n', i)
            if j < 0:
                break
            i = j
            continue
        if src.startswith('/*', i):
            j = src.find('*/', i)
            # keep newlines so that line numbers stay right
            out.append('\n' * src[i:j + 2].count('\n'))
            i = j + 2
            continue
        if src[i] == '"':
            j = i + 1
            while j < n and src[j] != '"':
                if src[j] == '\\':
                    j += 1
                j += 1
            out.append('"' + '\n' * src[i:j].count('\n') + '"')
            i = j + 1
            continue
        out.append(src[i])
        i += 1
    return ''.join(out)


class SrcInfo:
    def __init__(self, root):
        self.root = root
        self.structs = {}     # name -> [field names] (tuple structs: ['0','1',..])
        self.enums = {}       # name -> [(variant, discr, [field names])]
        self.impls = {}       # (file, line) -> (self type base, trait or None, trait generic args or None)
        self.lines = {}
        for dp, dn, fn in os.walk(os.path.join(root, 'src')):
            for f in fn:
                if f.endswith('.rs'):
                    self._scan(os.path.relpath(os.path.join(dp, f), root))

    def _scan(self, rel):
        raw = open(os.path.join(self.root, rel), encoding='utf-8').read()
        self.lines[rel] = raw.split('\n')
        src = _strip_comments(raw)
        for m in re.finditer(r'\bstruct\s+(\w+)\s*(<[^{;(]*>)?\s*(where[^{;]*)?([{(;])', src):
            name, opener = m.group(1), m.group(4)
            if opener == ';':
                self.structs.setdefault(name, [])
                continue
            j = scan_balanced(src, m.end(), ')}' if opener == '(' else '}')
            body = src[m.end():j]
            fields = []
            for k, part in enumerate(split_top(body)):
                part = re.sub(r'#\[[^\]]*\]', '', part).strip()
                if not part:
                    continue
                if opener == '(':
                    fields.append(str(k))
                else:
                    fm = re.match(r'(?:pub(?:\([^)]*\))?\s+)?(\w+)\s*:', part)
                    if fm:
                        fields.append(fm.group(1))
            self.structs.setdefault(name, fields)
        for m in re.finditer(r'\benum\s+(\w+)\s*(<[^{]*>)?\s*(where[^{]*)?\{', src):
            name = m.group(1)
            j = scan_balanced(src, m.end(), '}')
            body = src[m.end():j]
            variants = []
            nxt = 0
            for part in split_top(body):
                part = re.sub(r'#\[[^\]]*\]', '', part).strip()
                if not part:
                    continue
                vm = re.match(r'(\w+)\s*(.*)$', part, re.S)
                vname, rest = vm.group(1), vm.group(2).strip()
                fields = []
                if rest.startswith('('):
                    k = scan_balanced(rest, 1, ')')
                    fields = [str(i) for i, _ in enumerate(split_top(rest[1:k]))]
                    rest = rest[k + 1:].strip()
                elif rest.startswith('{'):
                    k = scan_balanced(rest, 1, '}')
                    for fp in split_top(rest[1:k]):
                        fm = re.match(r'\s*(\w+)\s*:', fp)
                        if fm:
                            fields.append(fm.group(1))
                    rest = rest[k + 1:].strip()
                if rest.startswith('='):
                    expr = rest[1:].strip()
                    dm = re.fullmatch(r"b'(.)'", expr)
                    if dm:
                        nxt = ord(dm.group(1))
                    elif re.fullmatch(r'-?\d+', expr):
                        nxt = int(expr)
                    elif re.fullmatch(r'0x[0-9a-fA-F]+', expr):
                        nxt = int(expr, 16)
                    else:
                        raise ValueError('enum discriminant expression %r in %s' % (expr, rel))
                variants.append((vname, nxt, fields))
                nxt += 1
            self.enums.setdefault(name, variants)
        # impl headers, by line
        lines = src.split('\n')
        for ln, text in enumerate(lines, 1):
            m = re.match(r'\s*(?:unsafe\s+)?impl\b', text)
            if not m:
                continue
            hdr = text
            k = ln
            while '{' not in hdr and k < len(lines):
                hdr += ' ' + lines[k]
                k += 1
            hdr = hdr[:hdr.index('{')] if '{' in hdr else hdr
            hdr = re.sub(r'^\s*(?:unsafe\s+)?impl\s*', '', hdr)
            if hdr.startswith('<'):
                j = scan_balanced(hdr, 1, '>')
                hdr = hdr[j + 1:].strip()
            hdr = re.split(r'\bwhere\b', hdr)[0].strip()
            tr = None
            mm = re.match(r'(.*?)\s+for\s+(.*)$', hdr)
            if mm:
                tr, ty = mm.group(1).strip(), mm.group(2).strip()
            else:
                ty = hdr
            self.impls[(rel, ln)] = (type_base(ty), trait_key(tr) if tr else None)

    def derive_impl(self, rel, line, c0, c1):
        """`<impl at file:L:C0: L:C1>` pointing into a #[derive(...)] list -> (type, trait)"""
        ls = self.lines.get(rel)
        if not ls or line > len(ls):
            return None
        text = ls[line - 1]
        if 'derive' not in text:
            return None
        tr = text[c0 - 1:c1 - 1].strip()
        for k in range(line, min(line + 12, len(ls))):
            m = re.match(r'\s*(?:pub(?:\([^)]*\))?\s+)?(?:struct|enum)\s+(\w+)', ls[k])
            if m:
                return (m.group(1), tr)
        return None

    def field_index(self, struct, field):
        return self.structs[struct].index(field)


def type_base(ty):
    """'&'a mut state::File<'x>' -> 'File' ; '[u8]' -> '[u8]' ; '(A, B)' -> '(,)'"""
    ty = ty.strip()
    ty = re.sub(r"^(&\s*('\w+\s+)?(mut\s+)?)+", '', ty)
    ty = re.sub(r'^dyn\s+', '', ty)
    if ty.startswith('['):
        return '[]'
    if ty.startswith('('):
        return '()'
    j = scan_balanced(ty, 0, '<')
    ty = ty[:j]
    return ty.split('::')[-1].strip()


def trait_key(tr):
    """'std::ops::Deref' -> 'Deref'; 'From<&'a OsStr>' -> 'From<&OsStr>' (generic args normalised)"""
    tr = tr.strip()
    tr = re.sub(r"'\w+\s*,?\s*", '', tr)
    tr = re.sub(r'for<\s*>\s*', '', tr)
    j = scan_balanced(tr, 0, '<')
    head = tr[:j].split('::')[-1].strip()
    if j < len(tr):
        args = tr[j + 1:tr.rindex('>')]
        args = ','.join(_norm_ty(a) for a in split_top(args))
        if args:
            return '%s<%s>' % (head, args)
    return head


def _norm_ty(t):
    t = t.strip()
    t = re.sub(r"'\w+\s*", '', t)
    t = re.sub(r'\s+', ' ', t)
    # strip module paths
    t = re.sub(r'(\w+::)+', '', t)
    t = t.replace('<>', '')
    t = t.replace('& ', '&')
    return t
