"""Value model of the MIR symbolic executor."""
import z3

INTW = {'u8': 8, 'i8': 8, 'u16': 16, 'i16': 16, 'u32': 32, 'i32': 32, 'u64': 64, 'i64': 64, 'usize': 64, 'isize': 64,
        'char': 32, 'u128': 128, 'i128': 128}


def is_signed(ty):
    return ty in ('i8', 'i16', 'i32', 'i64', 'isize', 'i128')


class Unsupported(Exception):
    """the engine has no semantics for something on this path -> inconclusive, never a violation"""


class Panic(Exception):
    def __init__(self, msg, span=None, kind='panic'):
        Exception.__init__(self, msg)
        self.msg = msg
        self.span = span
        self.kind = kind
        self.trace = []

    def site(self):
        """innermost frame inside the crate: (body name, (file, line))"""
        for name, sp in self.trace:
            if sp and not str(sp[0]).startswith('/'):
                return name, sp
        return (self.trace[0] if self.trace else (None, self.span))


class PathDead(Exception):
    pass


class ProcessExit(Exception):
    def __init__(self, code):
        Exception.__init__(self, 'exit %r' % (code,))
        self.code = code


class AutoList(list):
    """field list that grows on assignment (MIR initialises aggregates field by field in a few places)"""
    def set(self, i, v):
        while len(self) <= i:
            self.append(UNINIT)
        self[i] = v


class _Uninit:
    def __repr__(self):
        return '<uninit>'


UNINIT = _Uninit()
UNIT = ()


class Struct:
    __slots__ = ('name', 'f')

    def __init__(self, name, fields=()):
        self.name = name
        self.f = AutoList(fields)

    def __repr__(self):
        return '%s%r' % (self.name, list(self.f))


class Enum:
    __slots__ = ('ty', 'var', 'f')

    def __init__(self, ty, var, fields=()):
        self.ty = ty
        self.var = var
        self.f = AutoList(fields)

    def __repr__(self):
        return '%s::%s%r' % (self.ty, self.var, list(self.f)) if self.f else '%s::%s' % (self.ty, self.var)


class Arr:
    __slots__ = ('items',)

    def __init__(self, items):
        self.items = AutoList(items)

    def __repr__(self):
        return 'Arr%r' % (list(self.items),)


class Vec:
    """growable sequence: Vec<T>, String, OsString, PathBuf, CString (kind says which)"""
    __slots__ = ('items', 'kind')

    def __init__(self, items=(), kind='Vec'):
        self.items = list(items)
        self.kind = kind

    def __repr__(self):
        return '%s%s' % (self.kind, show_items(self.items))


class Bytes:
    """immutable view: &str, &[u8], &OsStr, &Path, &CStr, &[T]"""
    __slots__ = ('items', 'kind')

    def __init__(self, items=(), kind='str'):
        self.items = tuple(items)
        self.kind = kind

    def __repr__(self):
        return '&%s%s' % (self.kind, show_items(self.items))


def show_items(items):
    if all(isinstance(x, int) and not isinstance(x, bool) for x in items):
        try:
            return repr(bytes(items).decode('utf-8'))
        except Exception:
            return repr(list(items))
    return repr(list(items))


class LazyVal:
    """a symbolic input whose shape (e.g. None / Some(x)) is chosen only when the program first looks at it"""
    __slots__ = ('thunk', 'val', 'forced', 'label')

    def __init__(self, thunk, label='lazy'):
        self.thunk = thunk
        self.val = None
        self.forced = False
        self.label = label

    def force(self):
        if not self.forced:
            self.val = self.thunk()
            self.forced = True
            while isinstance(self.val, LazyVal):
                self.val = self.val.force()
        return self.val

    def __repr__(self):
        return '<lazy %s%s>' % (self.label, (' = %r' % (self.val,)) if self.forced else '')


class Ref:
    __slots__ = ('cont', 'key')

    def __init__(self, cont, key):
        self.cont = cont
        self.key = key

    def get(self):
        try:
            v = self.cont[self.key]
        except (KeyError, IndexError):
            return UNINIT
        if type(v) is LazyVal:
            v = v.force()
            try:
                self.cont[self.key] = v
            except TypeError:
                pass
        return v

    def set(self, v):
        c = self.cont
        if isinstance(c, AutoList):
            c.set(self.key, v)
        else:
            c[self.key] = v

    def __repr__(self):
        v = self.get()
        return '&<%s>' % (type(v).__name__ if not isinstance(v, (int, bool)) else v,)


def new_cell(v):
    return Ref([v], 0)


class FnItem:
    __slots__ = ('path',)

    def __init__(self, path):
        self.path = path

    def __repr__(self):
        return 'fn<%s>' % self.path


class Closure:
    __slots__ = ('ident', 'f', 'names', 'body')

    def __init__(self, ident, fields, names=(), body=None):
        self.ident = ident
        self.f = AutoList(fields)
        self.names = list(names)
        self.body = body

    def __repr__(self):
        return 'closure@%s' % self.ident[9:40]


class Coroutine:
    __slots__ = ('ident', 'f', 'saved', 'state', 'names')

    def __init__(self, ident, fields, names=()):
        self.ident = ident
        self.f = AutoList(fields)
        self.saved = {}
        self.state = 0
        self.names = list(names)

    def __repr__(self):
        return 'coroutine@%s#%d' % (self.ident[:60], self.state)


class Map:
    """HashMap / HashSet / BTreeMap as an association list (insertion ordered)"""
    __slots__ = ('items', 'kind')

    def __init__(self, kind='HashMap', items=()):
        self.kind = kind
        self.items = [list(x) for x in items]

    def __repr__(self):
        return '%s%r' % (self.kind, self.items)


class Deque:
    __slots__ = ('items',)

    def __init__(self, items=()):
        self.items = list(items)

    def __repr__(self):
        return 'Deque%r' % (self.items,)


class Opaque:
    """environment handle or library value the engine does not look into (fs::File, Metadata, Waker, io::Error...)"""
    __slots__ = ('ty', 'data')

    def __init__(self, ty, data=None):
        self.ty = ty
        self.data = data

    def __repr__(self):
        return '<%s %r>' % (self.ty, self.data)


class Tok:
    """opaque formatted token inside a string (e.g. Display of a symbolic integer)"""
    __slots__ = ('kind', 'val')

    def __init__(self, kind, val):
        self.kind = kind
        self.val = val

    def __repr__(self):
        return '{%s:%s}' % (self.kind, self.val)


# ------------------------------------------------------------------ helpers on scalars

def is_sym(v):
    return isinstance(v, z3.ExprRef)


def norm_int(v, ty):
    """wrap a concrete python int into the range of ty"""
    w = INTW[ty]
    v &= (1 << w) - 1
    if is_signed(ty) and v >> (w - 1):
        v -= 1 << w
    return v


def to_bv(v, w):
    if isinstance(v, bool):
        return z3.BitVecVal(1 if v else 0, w)
    if isinstance(v, int):
        return z3.BitVecVal(v, w)
    if z3.is_bool(v):
        return z3.If(v, z3.BitVecVal(1, w), z3.BitVecVal(0, w))
    return v


def b_not(v):
    if isinstance(v, bool):
        return not v
    return z3.Not(v)


def b_and(a, b):
    if a is True:
        return b
    if b is True:
        return a
    if a is False or b is False:
        return False
    return z3.And(a, b)


def b_or(a, b):
    if a is False:
        return b
    if b is False:
        return a
    if a is True or b is True:
        return True
    return z3.Or(a, b)


def deep_copy(v):
    """copy of a Copy-type aggregate (never follows references)"""
    if isinstance(v, Struct):
        return Struct(v.name, [deep_copy(x) for x in v.f])
    if isinstance(v, Enum):
        return Enum(v.ty, v.var, [deep_copy(x) for x in v.f])
    if isinstance(v, Arr):
        return Arr([deep_copy(x) for x in v.items])
    return v


def clone_val(v):
    """semantic Clone of an owned value (deep for owned containers, refs shared)"""
    if isinstance(v, Struct):
        return Struct(v.name, [clone_val(x) for x in v.f])
    if isinstance(v, Enum):
        return Enum(v.ty, v.var, [clone_val(x) for x in v.f])
    if isinstance(v, Arr):
        return Arr([clone_val(x) for x in v.items])
    if isinstance(v, Vec):
        return Vec([clone_val(x) for x in v.items], v.kind)
    if isinstance(v, Map):
        return Map(v.kind, [[clone_val(k), clone_val(x)] for k, x in v.items])
    if isinstance(v, Deque):
        return Deque([clone_val(x) for x in v.items])
    return v
