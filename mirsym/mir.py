"""Parser for rustc `-Zunpretty=mir -Zmir-include-spans=yes` text dumps.

Every body (fn, closure, coroutine poll fn, const, promoted) becomes a `Body` whose blocks hold
pre-parsed statements/terminators (plain tuples).  The parser fails closed: an unknown statement
form raises MirParseError, which the checks turn into "inconclusive" (exit 2).
"""
import re

class MirParseError(Exception):
    pass

OPEN = '([{<'
CLOSE = ')]}>'

_CHAR_LIT = re.compile(r"'(\\x[0-9a-fA-F]{2}|\\u\{[0-9a-fA-F]+\}|\\.|[^\\'])'")


def scan_balanced(s, i, stops):
    """Scan s from i until one of the `stops` chars is met at nesting depth 0.
    Returns the index of the stop char (or len(s))."""
    depth = 0
    n = len(s)
    while i < n:
        ch = s[i]
        if ch == '"':
            i += 1
            while i < n and s[i] != '"':
                if s[i] == '\\':
                    i += 1
                i += 1
            i += 1
            continue
        if ch == "'":
            m = _CHAR_LIT.match(s, i)
            if m:
                i = m.end()
                continue
            i += 1
            continue
        if depth == 0 and ch in stops:
            # '>' of '->' / '=>' is never a stop
            if not (ch == '>' and i > 0 and s[i - 1] in '-='):
                return i
        if ch in '([{':
            depth += 1
        elif ch in ')]}':
            depth -= 1
            if depth < 0:
                return i
        elif ch == '<':
            depth += 1
        elif ch == '>':
            if i > 0 and s[i - 1] in '-=':
                pass
            else:
                depth -= 1
                if depth < 0:
                    return i
        i += 1
    return n


def find_top(s, start, token):
    """index of `token` at bracket depth 0 (strings skipped), or None"""
    i = start
    n = len(s)
    depth = 0
    while i < n:
        ch = s[i]
        if ch == '"':
            i += 1
            while i < n and s[i] != '"':
                if s[i] == '\\':
                    i += 1
                i += 1
        elif ch == "'":
            m = _CHAR_LIT.match(s, i)
            if m:
                i = m.end(); continue
        elif ch in '([{':
            depth += 1
        elif ch in ')]}':
            depth -= 1
        elif depth == 0 and s.startswith(token, i):
            return i
        i += 1
    return None


def split_top(s, sep=','):
    out = []
    i = 0
    n = len(s)
    start = 0
    while i <= n:
        j = scan_balanced(s, i, sep)
        if j >= n:
            break
        if s[j] == sep:
            out.append(s[start:j].strip())
            start = j + 1
            i = j + 1
        else:
            # unbalanced closer; skip it
            i = j + 1
    last = s[start:].strip()
    if last:
        out.append(last)
    return out


# ---------------------------------------------------------------------------------- places

def parse_place(s):
    """-> (local, (proj, ...))"""
    s = s.strip()
    p, i = _place(s, 0)
    if i != len(s):
        raise MirParseError('trailing place text: %r' % s)
    return p


def _place(s, i):
    n = len(s)
    if s[i] == '_':
        m = re.compile(r'_(\d+)').match(s, i)
        if not m:
            raise MirParseError('place: %r' % s[i:])
        base = (int(m.group(1)), ())
        i = m.end()
    elif s[i] == '(':
        i += 1
        if s[i] == '*':
            inner, i = _place(s, i + 1)
            if s[i] != ')':
                raise MirParseError('deref close: %r' % s)
            i += 1
            base = (inner[0], inner[1] + (('deref',),))
        else:
            inner, i = _place(s, i)
            if s.startswith(' as ', i):
                j = s.index(')', i)
                name = s[i + 4:j]
                base = (inner[0], inner[1] + (('downcast', name),))
                i = j + 1
            elif s[i] == '.':
                m = re.compile(r'\.(\d+): ').match(s, i)
                if not m:
                    raise MirParseError('field: %r' % s[i:])
                j = scan_balanced(s, m.end(), ')')
                ty = s[m.end():j]
                base = (inner[0], inner[1] + (('field', int(m.group(1)), ty),))
                i = j + 1
            elif s[i] == ')':
                base = inner
                i += 1
            else:
                raise MirParseError('place paren: %r at %d' % (s, i))
    else:
        raise MirParseError('place start: %r' % s[i:])
    # index suffixes
    while i < n and s[i] == '[':
        j = scan_balanced(s, i + 1, ']')
        idx = s[i + 1:j]
        m = re.fullmatch(r'_(\d+)', idx)
        if m:
            base = (base[0], base[1] + (('index', int(m.group(1))),))
        else:
            m = re.fullmatch(r'(-?)(\d+) of (\d+)', idx)
            if m:
                base = (base[0], base[1] + (('cindex', int(m.group(2)), int(m.group(3)), bool(m.group(1))),))
            else:
                m = re.fullmatch(r'(\d+):(-?)(\d*)', idx)
                if m:
                    base = (base[0], base[1] + (('subslice', int(m.group(1)), int(m.group(3) or 0), bool(m.group(2))),))
                else:
                    raise MirParseError('index: %r' % idx)
        i = j + 1
    return base, i


# ---------------------------------------------------------------------------------- constants

_INT_TYS = ('u8', 'i8', 'u16', 'i16', 'u32', 'i32', 'u64', 'i64', 'usize', 'isize', 'u128', 'i128')


def unescape_bytes(body):
    """Rust string/byte-string literal body -> bytes"""
    out = bytearray()
    i = 0
    n = len(body)
    while i < n:
        ch = body[i]
        if ch == '\\':
            c = body[i + 1]
            if c == 'x':
                out.append(int(body[i + 2:i + 4], 16)); i += 4; continue
            if c == 'u':
                j = body.index('}', i)
                out += chr(int(body[i + 3:j], 16)).encode('utf-8'); i = j + 1; continue
            if c == '\n':
                i += 2
                while i < n and body[i] in ' \t\n':
                    i += 1
                continue
            out.append({'n': 10, 't': 9, 'r': 13, '0': 0, '\\': 92, '"': 34, "'": 39}[c]); i += 2; continue
        out += ch.encode('utf-8')
        i += 1
    return bytes(out)


def parse_const(s):
    s = s.strip()
    if s == 'true':
        return ('bool', True)
    if s == 'false':
        return ('bool', False)
    if s == '()':
        return ('unit',)
    if s == '[]':
        return ('emptyarr',)
    m = re.fullmatch(r'(-?\d+)_(\w+)', s)
    if m and m.group(2) in _INT_TYS:
        return ('int', int(m.group(1)), m.group(2))
    m = re.fullmatch(r'(-?[\d.]+(?:[eE][-+]?\d+)?)(f32|f64)', s)
    if m:
        return ('float', float(m.group(1)), m.group(2))
    if s.startswith('"') and s.endswith('"'):
        return ('str', unescape_bytes(s[1:-1]))
    if s.startswith('b"') and s.endswith('"'):
        return ('bytes', unescape_bytes(s[2:-1]))
    m = _CHAR_LIT.fullmatch(s)
    if m:
        return ('char', ord(unescape_bytes(m.group(1)).decode('utf-8')))
    m = re.fullmatch(r"b'(.*)'", s)
    if m:
        return ('int', unescape_bytes(m.group(1))[0], 'u8')
    if s.startswith('ZeroSized'):
        return ('zst', s)
    if s.startswith('{alloc'):
        return ('alloc', s)
    return ('path', s)


def parse_operand(s):
    s = s.strip()
    if s.startswith('no_retag '):
        s = s[9:]
    if s.startswith('copy '):
        return ('copy', parse_place(s[5:]))
    if s.startswith('move '):
        return ('move', parse_place(s[5:]))
    if s.startswith('const '):
        return ('const', parse_const(s[6:]))
    if re.match(r'[A-Za-z<{_]', s):
        return ('const', ('path', s))      # bare fn item used as a value
    raise MirParseError('operand: %r' % s)


BINOPS = {'Add', 'Sub', 'Mul', 'Div', 'Rem', 'BitXor', 'BitAnd', 'BitOr', 'Shl', 'Shr', 'Eq', 'Lt', 'Le', 'Ne', 'Ge', 'Gt',
          'Cmp', 'Offset', 'AddWithOverflow', 'SubWithOverflow', 'MulWithOverflow', 'AddUnchecked', 'SubUnchecked',
          'MulUnchecked', 'ShlUnchecked', 'ShrUnchecked'}
UNOPS = {'Not', 'Neg', 'PtrMetadata'}

_CAST_RE = re.compile(r'^(.*?) as (.*) \((IntToInt|IntToFloat|FloatToInt|FloatToFloat|PtrToPtr|FnPtrToPtr|Transmute|'
                      r'PointerExposeProvenance|PointerWithExposedProvenance|PointerCoercion\(.*\)|Subtype)\)$')


def parse_rvalue(s):
    s = s.strip()
    if s.startswith('no_retag '):
        s = s[9:]
    if s.startswith(('copy ', 'move ', 'const ')):
        m = _CAST_RE.match(s)
        if m:
            k = find_top(s, 0, ' as ')
            m2 = _CAST_RE.match(s[k:]) if k is not None else None
            if m2:
                return ('cast', parse_operand(s[:k]), m2.group(2), m2.group(3))
        return ('use', parse_operand(s))
    if s.startswith('&(fake) '):
        s = '&' + s[8:]
    if s.startswith('&'):
        t = s[1:]
        if t.startswith('fake) '):
            t = t[6:]
        for pre, kind in (('raw const ', 'rawconst'), ('raw mut ', 'rawmut'), ('mut ', 'mut'), ('fake shallow ', 'shared'),
                          ('fake ', 'shared'), ('two_phase mut ', 'mut')):
            if t.startswith(pre):
                t2 = t[len(pre):]
                if t2.startswith('(fake) '):
                    t2 = t2[7:]
                return ('ref', parse_place(t2), kind)
        return ('ref', parse_place(t), 'shared')
    m = re.match(r'^(\w+)\((.*)\)$', s)
    if m:
        head, inner = m.group(1), m.group(2)
        if head in BINOPS:
            a, b = split_top(inner)
            return ('binop', head, parse_operand(a), parse_operand(b))
        if head in UNOPS:
            return ('unop', head, parse_operand(inner))
        if head == 'discriminant':
            return ('disc', parse_place(inner))
        if head == 'Len':
            return ('len', parse_place(inner))
        if head == 'CopyForDeref':
            return ('use', ('copy', parse_place(inner)))
        if head == 'ShallowInitBox':
            a = split_top(inner)
            return ('shallowbox', parse_operand(a[0]), a[1])
        if head in ('SizeOf', 'AlignOf', 'UbChecks', 'ContractChecks', 'OffsetOf'):
            return ('nullop', head, inner)
    if s.startswith('['):
        inner = s[1:-1]
        parts = split_top(inner, ';')
        if len(parts) == 2:
            return ('repeat', parse_operand(parts[0]), parts[1])
        return ('array', [parse_operand(x) for x in split_top(inner)])
    if s.startswith('('):
        return ('tuple', [parse_operand(x) for x in split_top(s[1:-1])])
    if s.startswith('{'):
        j = scan_balanced(s, 1, '}')
        ident = s[:j + 1]
        rest = s[j + 1:].strip()
        ops, names = [], []
        if rest:
            if not (rest.startswith('{') and rest.endswith('}')):
                raise MirParseError('closure aggregate: %r' % s)
            for f in split_top(rest[1:-1]):
                k, v = f.split(': ', 1)
                names.append(k.strip()); ops.append(parse_operand(v))
        kind = 'closure' if ident.startswith('{closure') else 'coroutine'
        return (kind, ident, ops, names)
    m = _CAST_RE.match(s)
    if m and re.match(r'[A-Za-z<_]', s):
        return ('cast', ('const', ('path', m.group(1))), m.group(2), m.group(3))
    # ADT aggregate: Path, Path(ops), Path { f: op, .. }
    j = 0
    while True:
        j = scan_balanced(s, j, '({ ')
        if j < len(s) and s[j] == '{' and j > 0 and s[j - 1] == ':':
            j = scan_balanced(s, j + 1, '}') + 1
            continue
        break
    path = s[:j]
    rest = s[j:].strip()
    if not path:
        raise MirParseError('rvalue: %r' % s)
    if not rest:
        return ('adt', path, [], None)
    if rest.startswith('('):
        return ('adt', path, [parse_operand(x) for x in split_top(rest[1:-1])], None)
    if rest.startswith('{'):
        ops, names = [], []
        for f in split_top(rest[1:-1]):
            k, v = f.split(': ', 1)
            names.append(k.strip()); ops.append(parse_operand(v))
        return ('adt', path, ops, names)
    raise MirParseError('rvalue: %r' % s)


# ---------------------------------------------------------------------------------- statements / terminators

_SPAN_RE = re.compile(r'\s*// (?:in )?scope \d+ at (\S+?):(\d+):\d+: \d+:\d+\s*$')
_BB = re.compile(r'bb(\d+)')


def strip_span(line):
    m = _SPAN_RE.search(line)
    if m:
        return line[:m.start()].rstrip(), (m.group(1), int(m.group(2)))
    k = line.find(' // ')
    if k >= 0 and '"' not in line[k:]:
        return line[:k].rstrip(), None
    return line.rstrip(), None


def _targets(s):
    """'[return: bb1, unwind: bb2]' | 'bb3' | 'unwind continue' -> dict"""
    s = s.strip()
    d = {}
    if s.startswith('['):
        for part in split_top(s[1:-1]):
            if ': ' not in part:
                k, v = part.split(' ', 1) if ' ' in part else (part, '')
            else:
                k, v = part.split(': ', 1)
            m = _BB.fullmatch(v.strip())
            d[k.strip()] = int(m.group(1)) if m else v.strip()
    else:
        m = _BB.fullmatch(s)
        if m:
            d['return'] = int(m.group(1))
        else:
            d['unwind'] = s
    return d


def parse_line(text, span):
    """returns ('stmt', ...) or ('term', ...)"""
    t = text.strip()
    if not t.endswith(';'):
        raise MirParseError('no semicolon: %r' % t)
    t = t[:-1]
    if t.startswith(('StorageLive(', 'StorageDead(', 'FakeRead(', 'PlaceMention(', 'Retag(', 'AscribeUserType(', 'Coverage::',
                     'Deinit(', 'ConstEvalCounter', 'nop', 'BackwardIncompatibleDropHint(')):
        return ('stmt', ('nop',))
    if t == 'return':
        return ('term', ('return',))
    if t == 'unreachable':
        return ('term', ('unreachable',))
    if t.startswith('resume') or t.startswith('unwind ') or t == 'abort' or t == 'terminate' or t.startswith('terminate('):
        return ('term', ('resume',))
    if t.startswith('coroutine_drop'):
        return ('term', ('return',))
    m = re.fullmatch(r'goto -> bb(\d+)', t)
    if m:
        return ('term', ('goto', int(m.group(1))))
    if t.startswith('switchInt('):
        j = scan_balanced(t, len('switchInt('), ')')
        op = parse_operand(t[len('switchInt('):j])
        rest = t[j + 1:].strip()
        assert rest.startswith('-> ['), t
        cases, other = [], None
        for part in split_top(rest[4:-1]):
            k, v = part.split(': ')
            bb = int(v[2:])
            if k == 'otherwise':
                other = bb
            else:
                cases.append((int(k), bb))
        return ('term', ('switch', op, cases, other))
    if t.startswith('drop('):
        j = scan_balanced(t, 5, ')')
        pl = parse_place(t[5:j])
        tg = _targets(t[j + 1:].strip()[2:].strip())
        return ('term', ('drop', pl, tg.get('return')))
    if t.startswith('assert('):
        j = scan_balanced(t, 7, ')')
        parts = split_top(t[7:j])
        c = parts[0]
        expected = True
        if c.startswith('!'):
            expected = False
            c = c[1:]
        tg = _targets(t[j + 1:].strip()[2:].strip())
        return ('term', ('assert', parse_operand(c), expected, parts[1] if len(parts) > 1 else '', tg.get('success'), span))
    m = re.fullmatch(r'discriminant\((.*)\) = (\d+)', t)
    if m:
        return ('stmt', ('setdisc', parse_place(m.group(1)), int(m.group(2))))
    # assignment or call
    arrow = _find_call_arrow(t)
    if arrow is not None:
        lhs_rhs, tgt = t[:arrow].rstrip(), t[arrow + 4:]
        dest = None
        k = _find_assign(lhs_rhs)
        callpart = lhs_rhs
        if k is not None:
            dest = parse_place(lhs_rhs[:k])
            callpart = lhs_rhs[k + 3:]
        # callee(args): find the last balanced (...) group
        if not callpart.endswith(')'):
            raise MirParseError('call: %r' % t)
        depth = 0
        i = len(callpart) - 1
        while i >= 0:
            ch = callpart[i]
            if ch == ')':
                depth += 1
            elif ch == '(':
                depth -= 1
                if depth == 0:
                    break
            elif ch == '"':
                i -= 1
                while i >= 0 and not (callpart[i] == '"' and callpart[i - 1] != '\\'):
                    i -= 1
            i -= 1
        callee = callpart[:i]
        args = [parse_operand(a) for a in split_top(callpart[i + 1:-1])]
        tg = _targets(tgt)
        return ('term', ('call', dest, callee, args, tg.get('return'), span))
    k = _find_assign(t)
    if k is None:
        raise MirParseError('statement: %r' % t)
    return ('stmt', ('assign', parse_place(t[:k]), parse_rvalue(t[k + 3:]), span))


def _find_assign(t):
    """index of the top-level ' = ' separating place and rvalue"""
    j = scan_balanced(t, 0, '=')
    while j < len(t):
        if t[j - 1] == ' ' and t[j + 1:j + 2] == ' ':
            return j - 1
        j = scan_balanced(t, j + 1, '=')
    return None


def _find_call_arrow(t):
    """index of ') -> ' that ends a call terminator (top level), else None"""
    i = 0
    n = len(t)
    depth = 0
    last = None
    while i < n:
        ch = t[i]
        if ch == '"':
            i += 1
            while i < n and t[i] != '"':
                if t[i] == '\\':
                    i += 1
                i += 1
        elif ch == "'":
            m = _CHAR_LIT.match(t, i)
            if m:
                i = m.end(); continue
        elif ch in '([{':
            depth += 1
        elif ch in ')]}':
            depth -= 1
            if depth == 0 and ch == ')' and t.startswith(' -> ', i + 1):
                rest = t[i + 5:]
                if rest.startswith(('[', 'bb', 'unwind')):
                    last = i + 1
        i += 1
    return last


class Body:
    __slots__ = ('name', 'sig', 'argc', 'ret', 'locals', 'blocks', 'file', 'line', 'kind', 'raw', 'argtys')

    def __repr__(self):
        return '<Body %s>' % self.name


_FN_RE = re.compile(r'^fn (.*?)\((.*)\) -> (.*) \{$')


def load(path):
    """-> list of Body (unparsed blocks kept as raw lines; parsed lazily by Body.blocks access through parse_body)"""
    bodies = []
    lines = open(path, encoding='utf-8').read().split('\n')
    i = 0
    n = len(lines)
    while i < n:
        ln = lines[i]
        if ln.startswith('fn ') and ln.endswith('{'):
            j = i + 1
            while lines[j] != '}':
                j += 1
            b = Body()
            b.kind = 'fn'
            # name = up to the '(' that starts the parameter list: first '(' at depth 0 not inside <...> or {...}
            k = scan_balanced(ln, 3, '(')
            b.name = ln[3:k]
            close = scan_balanced(ln, k + 1, ')')
            b.sig = ln
            params = ln[k + 1:close]
            b.argtys = []
            for p in split_top(params):
                m = re.match(r'_(\d+): (.*)$', p)
                if m:
                    b.argtys.append((int(m.group(1)), m.group(2)))
            b.argc = len(b.argtys)
            m = re.match(r'^ -> (.*) \{$', ln[close + 1:])
            b.ret = m.group(1) if m else '()'
            b.raw = lines[i + 1:j]
            b.blocks = None
            bodies.append(b)
            i = j
        elif (ln.startswith('const ') or ln.startswith('static ')) and ln.endswith(';') and ' = const ' in ln:
            # one-line form:  const NAME: TY = const VALUE;
            head, val = ln[:-1].split(' = const ', 1)
            head = head.split(' ', 1)[1]
            k = scan_balanced(head, 0, ':')
            while k < len(head) and not head.startswith(': ', k) or head.startswith('::', k) or (k > 0 and head[k - 1] == ':'):
                k = scan_balanced(head, k + (2 if head.startswith('::', k) else 1), ':')
                if k >= len(head):
                    break
            b = Body()
            b.kind = 'const'
            b.name = head[:k].strip()
            b.ret = head[k + 2:].strip()
            b.sig = ln
            b.argc = 0
            b.argtys = []
            b.raw = ['    bb0: {', '        _0 = const %s;' % val, '        return;', '    }']
            b.blocks = None
            bodies.append(b)
        elif (ln.startswith('const ') or ln.startswith('static ') or ln.startswith('promoted[')) and ln.endswith('= {'):
            j = i + 1
            while lines[j] != '}':
                j += 1
            b = Body()
            b.kind = 'const'
            head = ln[:-4]
            head = head.split(' ', 1)[1] if not head.startswith('promoted[') else head
            if head.startswith('mut '):
                head = head[4:]
            k = scan_balanced(head, 0, ':')
            # skip '::' occurrences
            while k < len(head) and head[k:k + 2] == '::' or (k > 0 and head[k - 1] == ':'):
                k = scan_balanced(head, k + 2 if head[k:k + 2] == '::' else k + 1, ':')
            b.name = head[:k].strip()
            b.ret = head[k + 1:].strip()
            b.sig = ln
            b.argc = 0
            b.argtys = []
            b.raw = lines[i + 1:j]
            b.blocks = None
            bodies.append(b)
            i = j
        i += 1
    return bodies


def parse_body(b):
    if b.blocks is not None:
        return b
    b.locals = {}
    for idx, ty in b.argtys:
        b.locals[idx] = ty
    b.locals[0] = b.ret
    b.blocks = {}
    b.file = None
    b.line = None
    cur = None
    for raw in b.raw:
        text, span = strip_span(raw)
        if span and b.file is None and not span[0].startswith('/'):
            b.file, b.line = span
        st = text.strip()
        if not st and 'def_id:' in raw:
            st = raw.strip()
        if st.startswith('// + def_id:') and cur is not None and b.blocks[cur][0]:
            last = b.blocks[cur][0][-1]
            if last[0] == 'assign' and last[2][0] in ('coroutine', 'closure'):
                m = re.search(r'::(\{closure#\d+\})\)\s*$', st)
                if m:
                    b.blocks[cur][0][-1] = ('assign', last[1], last[2] + (b.name + '::' + m.group(1),), last[3])
            continue
        if not st or st.startswith('//'):
            continue
        if cur is None:
            m = re.match(r'let (?:mut )?_(\d+): (.*);$', st)
            if m:
                b.locals[int(m.group(1))] = m.group(2)
                continue
            m = re.match(r'bb(\d+)(?: \(cleanup\))?: \{$', st)
            if m:
                cur = int(m.group(1))
                b.blocks[cur] = [[], None, '(cleanup)' in st]
                continue
            continue
        if st == '}':
            cur = None
            continue
        if b.blocks[cur][2]:
            continue        # cleanup blocks are never executed (panics end the path)
        kind, val = parse_line(st, span)
        if kind == 'stmt':
            if val[0] != 'nop':
                b.blocks[cur][0].append(val)
        else:
            b.blocks[cur][1] = val
    if b.file is None:
        for raw in b.raw:
            m = re.search(r' at (src/\S+?):(\d+):', raw)
            if m:
                b.file, b.line = m.group(1), int(m.group(2))
                break
    return b
