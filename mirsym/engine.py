"""Forking symbolic interpreter over rustc MIR (text dump) with z3.

Control flow is concrete per path; scalar data may be z3 terms.  A symbolic branch asks z3 which
successors are feasible and explores them depth-first by re-execution with a decision prefix.
"""
import os
import re
import sys
import time
import z3

from . import mir
from .srcinfo import SrcInfo, type_base, trait_key
from .values import *

sys.setrecursionlimit(20000)

STD_ENUMS = {
    'Option': {'None': 0, 'Some': 1},
    'Result': {'Ok': 0, 'Err': 1},
    'Poll': {'Ready': 0, 'Pending': 1},
    'ControlFlow': {'Continue': 0, 'Break': 1},
    'Cow': {'Borrowed': 0, 'Owned': 1},
    'Ordering': {'Less': -1, 'Equal': 0, 'Greater': 1},
    'ForkResult': {'Parent': 0, 'Child': 1},
    'WaitStatus': {'Exited': 0, 'Signaled': 1, 'Stopped': 2, 'PtraceEvent': 3, 'PtraceSyscall': 4, 'Continued': 5,
                   'StillAlive': 6},
    'TransactionBehavior': {'Deferred': 0, 'Immediate': 1, 'Exclusive': 2},
    'DropBehavior': {'Rollback': 0, 'Commit': 1, 'Ignore': 2, 'Panic': 3},
    'AssertKind': {'Eq': 0, 'Ne': 1, 'Match': 2},
    'Bound': {'Included': 0, 'Excluded': 1, 'Unbounded': 2},
    'SeekFrom': {'Start': 0, 'End': 1, 'Current': 2},
    'VarError': {'NotPresent': 0, 'NotUnicode': 1},
    'Component': {'Prefix': 0, 'RootDir': 1, 'CurDir': 2, 'ParentDir': 3, 'Normal': 4},
    'SigHandler': {'SigDfl': 0, 'SigIgn': 1, 'Handler': 2, 'SigAction': 3},
    'ErrorKind': {'NotFound': 0, 'PermissionDenied': 1, 'AlreadyExists': 12, 'Other': 39},
    'Infallible': {},
    'Alignment': {'Left': 0, 'Right': 1, 'Center': 2, 'Unknown': 3},
    'IntervalTimer': {'Real': 0, 'Virtual': 1, 'Prof': 2},
    'ValueRef': {'Null': 0, 'Integer': 1, 'Real': 2, 'Text': 3, 'Blob': 4},
    'ToSqlOutput': {'Borrowed': 0, 'Owned': 1},
    'FromSqlError': {'InvalidType': 0, 'OutOfRange': 1, 'InvalidBlobSize': 2, 'Other': 3},
}
STD_ENUMS['rusqlite::Error'] = {n: i for i, n in enumerate(
    ['SqliteFailure', 'SqliteSingleThreadedMode', 'FromSqlConversionFailure', 'IntegralValueOutOfRange', 'Utf8Error', 'NulError',
     'InvalidParameterName', 'InvalidPath', 'ExecuteReturnedResults', 'QueryReturnedNoRows', 'InvalidColumnIndex',
     'InvalidColumnName', 'InvalidColumnType', 'StatementChangedRows', 'ToSqlConversionFailure', 'InvalidQuery',
     'MultipleStatement', 'InvalidParameterCount'])}
STD_ENUMS['ErrorCode'] = {n: i for i, n in enumerate(
    ['InternalMalfunction', 'PermissionDenied', 'OperationAborted', 'DatabaseBusy', 'DatabaseLocked', 'OutOfMemory', 'ReadOnly',
     'OperationInterrupted', 'SystemIoFailure', 'DatabaseCorrupt', 'NotFound', 'DiskFull', 'CannotOpen',
     'FileLockingProtocolFailed', 'SchemaChanged', 'TooBig', 'ConstraintViolation', 'TypeMismatch', 'ApiMisuse',
     'NoLargeFileSupport', 'AuthorizationForStatementDenied', 'ParameterOutOfRange', 'NotADatabase', 'Unknown'])}
ERRNO = {'EPERM': 1, 'ENOENT': 2, 'EINTR': 4, 'EIO': 5, 'EBADF': 9, 'EAGAIN': 11, 'ENOMEM': 12, 'EACCES': 13, 'EEXIST': 17,
         'ENOTDIR': 20, 'EISDIR': 21, 'EINVAL': 22, 'ENOSPC': 28, 'EDEADLK': 35, 'UnknownErrno': 0}
STD_ENUMS['Errno'] = ERRNO
BARE_VARIANTS = {}
for _e in ('TransactionBehavior', 'DropBehavior'):
    for _v in STD_ENUMS[_e]:
        BARE_VARIANTS[_v] = _e


def find_top_angle(s, token):
    """index of `token` outside every (), [], {} and <> pair (`->` is not a bracket), or None"""
    depth = 0
    i, n = 0, len(s)
    while i < n:
        ch = s[i]
        if ch in '([{<':
            depth += 1
        elif ch in ')]}':
            depth -= 1
        elif ch == '>' and not (i and s[i - 1] == '-'):
            depth -= 1
        elif depth == 0 and s.startswith(token, i):
            return i
        i += 1
    return None


def strip_generics(path):
    """remove ::<...> turbofish groups and lifetime-only generic groups from a path string"""
    out = []
    i = 0
    n = len(path)
    while i < n:
        if path.startswith('::<', i) and not path.startswith('::<impl ', i):
            j = mir.scan_balanced(path, i + 3, '>')
            i = j + 1
            continue
        out.append(path[i])
        i += 1
    return ''.join(out)


class CallInfo:
    __slots__ = ('raw', 'kind', 'selfty', 'trait', 'traitfull', 'method', 'segs', 'norm', 'key2', 'target', 'summary', 'cl_ident')


class Frame:
    __slots__ = ('body', 'l')

    def __init__(self, body, args):
        self.body = body
        self.l = {}
        for (idx, _ty), a in zip(body.argtys, args):
            self.l[idx] = a


class Path:
    """per-path exploration state"""
    def __init__(self, prefix):
        self.solver = z3.Solver()
        self.solver.set('timeout', int(os.environ.get('VERIF_SOLVER_TIMEOUT_MS', '120000')))
        self.decisions = list(prefix)
        self.pos = 0
        self.events = []
        self.steps = 0
        self.ghost = {}
        self.notes = []
        self.nfresh = 0


class Engine:
    def __init__(self, srcroot, mir_files, step_budget=400000, max_paths=200000):
        self.src = SrcInfo(srcroot)
        self.bodies = {}
        self.by_last = {}
        self.impl_index = {}
        self.closures = {}
        self.fork_sites = {}
        import os as _os
        self.debug_slow = int(_os.environ.get('VERIF_DEBUG_SLOW', '0'))
        self.frames = []
        self.by_alias = {}
        self.callinfo = {}
        self.const_cache = {}
        self.summaries = {}
        self.stubs = {}
        self.step_budget = step_budget
        self.max_paths = max_paths
        self.path = None
        self.pending = []
        self.stats = {'paths': 0, 'steps': 0, 'queries': 0, 'solver_s': 0.0, 'max_query_s': 0.0, 'forks': 0,
                      'bound_exceeded': 0, 'unsupported': 0}
        self.entered = set()
        self.used_summaries = set()
        self.probes = {}
        self.enums = dict(STD_ENUMS)
        for name, variants in self.src.enums.items():
            self.enums[name] = {v: d for v, d, _f in variants}
        for f in mir_files:
            self._load(f)
        self._index()
        from . import summaries
        summaries.install(self)

    # ------------------------------------------------------------------ loading / indexing
    def _load(self, path):
        for b in mir.load(path):
            # duplicates (ctor shims printed twice, generic copies): keep the first
            self.bodies.setdefault(b.name, b)

    def _index(self):
        for name, b in self.bodies.items():
            m = re.search(r"<impl at ([^:>]+):(\d+):(\d+): \d+:(\d+)>::([\w]+)$", name)
            if m:
                info = self.src.impls.get((m.group(1), int(m.group(2))))
                if info is None:
                    info = self.src.derive_impl(m.group(1), int(m.group(2)), int(m.group(3)), int(m.group(4)))
                m = re.search(r"<impl at ([^:>]+):(\d+):\d+: \d+:\d+>::([\w]+)$", name)
                if info:
                    base, tr = info
                    self.impl_index.setdefault((base, tr, m.group(3)), name)
            if b.argtys:
                cm = re.match(r"(?:&mut |&)?(\{closure@[^}]*\})", b.argtys[0][1])
                if cm and '{closure#' in name.split('::')[-1]:
                    self.closures.setdefault(cm.group(1), name)
                cm = re.match(r"(?:std::pin::)?Pin<&mut (\{(?:async|coroutine)[^}]*\})>", b.argtys[0][1])
                if cm:
                    self.closures.setdefault(norm_coroutine_ident(cm.group(1)), name)
            last = name.split('::')[-1]
            self.by_last.setdefault(last, []).append(name)
            am = re.search(r"(?:\w+::)*<impl at ([^:>]+):(\d+):(\d+): \d+:(\d+)>", name)
            if am:
                info = self.src.impls.get((am.group(1), int(am.group(2))))
                if info and info[1] is None:
                    self.by_alias.setdefault(name[:am.start()] + info[0] + name[am.end():], name)

    def body(self, name):
        b = self.bodies[name]
        if b.blocks is None:
            mir.parse_body(b)
        return b

    # ------------------------------------------------------------------ exploration
    def explore(self, run_one, on_end=None, label='', pending=None, stop_when_pending=None, bfs=False, deadline=None):
        """run `run_one()` once per feasible path.  on_end(outcome, value_or_exc, path) is called per path.
        outcome in {'ok','panic','exit','unsupported','bound'}.  With stop_when_pending=k the loop returns as soon as k
        unexplored decision prefixes are queued (they stay in self.pending) so that they can be handed to worker processes."""
        self.pending = [[]] if pending is None else list(pending)
        n = 0
        while self.pending:
            if stop_when_pending is not None and len(self.pending) >= stop_when_pending:
                break
            if deadline is not None and time.time() > deadline:
                break           # time slice used up: what is left in self.pending goes back to the coordinator
            prefix = self.pending.pop(0) if bfs else self.pending.pop()
            self.path = Path(prefix)
            n += 1
            if n > self.max_paths:
                self.stats['bound_exceeded'] += 1
                break
            outcome, val = 'ok', None
            try:
                val = run_one()
            except PathDead:
                self.stats['steps'] += self.path.steps
                continue
            except Panic as e:
                outcome, val = 'panic', e
            except ProcessExit as e:
                outcome, val = 'exit', e
            except Unsupported as e:
                outcome, val = 'unsupported', e
                self.stats['unsupported'] += 1
            except BoundExceeded as e:
                outcome, val = 'bound', e
                self.stats['bound_exceeded'] += 1
            self.stats['paths'] += 1
            self.stats['steps'] += self.path.steps
            if self.debug_slow and self.path.steps > self.debug_slow:
                import sys as _s
                print('SLOW PATH steps=%d outcome=%s %s events=%s' % (self.path.steps, outcome, str(val)[:100],
                      [e[0] for e in self.path.events][-30:]), file=_s.stderr, flush=True)
            if on_end:
                on_end(outcome, val, self.path)
        return n

    def check(self, extra=None):
        p = self.path
        t0 = time.time()
        if extra is not None:
            p.solver.push()
            p.solver.add(extra)
        r = p.solver.check()
        if extra is not None:
            p.solver.pop()
        dt = time.time() - t0
        self.stats['queries'] += 1
        self.stats['solver_s'] += dt
        if dt > self.stats['max_query_s']:
            self.stats['max_query_s'] = dt
        if dt > 5 and os.environ.get('VERIF_DEBUG_SLOWQ'):
            import sys as _s
            print('SLOW QUERY %.1fs extra=%s\nassertions=%s\nevents=%s' % (dt, str(extra)[:2000], str(p.solver.assertions())[:4000], [e[0] for e in p.events][-60:]), file=_s.stderr, flush=True)
        if r == z3.unknown:
            raise Unsupported('solver returned unknown (%s) after %.1fs' % (p.solver.reason_unknown(), dt))
        return r == z3.sat

    def model(self, extra=None):
        p = self.path
        if extra is not None:
            p.solver.push()
            p.solver.add(extra)
        try:
            self.stats['queries'] += 1
            if p.solver.check() != z3.sat:
                return None
            return p.solver.model()
        finally:
            if extra is not None:
                p.solver.pop()

    def assume(self, cond):
        if cond is True:
            return
        if cond is False:
            raise PathDead()
        self.path.solver.add(cond)

    def branch(self, cond, label=None):
        """cond: python bool or z3 Bool -> python bool, forking if both are feasible"""
        if isinstance(cond, bool):
            return cond
        cond = z3.simplify(cond)
        if z3.is_true(cond):
            return True
        if z3.is_false(cond):
            return False
        p = self.path
        if p.pos < len(p.decisions):
            d = p.decisions[p.pos]
            p.pos += 1
            p.solver.add(cond if d else z3.Not(cond))
            return bool(d)
        t = self.check(cond)
        f = self.check(z3.Not(cond))
        if t and f:
            self.stats['forks'] += 1
            lab = label or self.cur_site()
            self.fork_sites[lab] = self.fork_sites.get(lab, 0) + 1
            self.pending.append(p.decisions + [0])
            p.decisions.append(1)
            p.pos += 1
            p.solver.add(cond)
            return True
        if t:
            p.decisions.append(1)
            p.pos += 1
            p.solver.add(cond)
            return True
        if f:
            p.decisions.append(0)
            p.pos += 1
            p.solver.add(z3.Not(cond))
            return False
        raise PathDead()

    def cur_site(self):
        return self.frames[-1] if self.frames else '?'

    def choose(self, n, label=None):
        """nondeterministic choice among n alternatives (environment / harness enumeration)"""
        if n <= 1:
            return 0
        p = self.path
        if p.pos < len(p.decisions):
            d = p.decisions[p.pos]
            p.pos += 1
            return d
        self.stats['forks'] += n - 1
        self.fork_sites[label or '?'] = self.fork_sites.get(label or '?', 0) + n - 1
        for k in range(n - 1, 0, -1):
            self.pending.append(p.decisions + [k])
        p.decisions.append(0)
        p.pos += 1
        return 0

    def fresh(self, name, ty):
        p = self.path
        p.nfresh += 1
        nm = '%s!%d' % (name, p.nfresh)
        if ty == 'bool':
            return z3.Bool(nm)
        return z3.BitVec(nm, INTW[ty])

    def event(self, ev_kind, **data):
        self.path.events.append((ev_kind, data))

    def concrete(self, v, what='value'):
        """force a scalar to a concrete python value, forking over feasible values (small domains only)"""
        if not is_sym(v):
            return v
        s = z3.simplify(v)
        if z3.is_bv_value(s):
            return s.as_long()
        if z3.is_true(s):
            return True
        if z3.is_false(s):
            return False
        if z3.is_bool(s):
            return self.branch(s)
        # enumerate values
        for _ in range(64):
            m = self.model()
            if m is None:
                raise PathDead()
            c = m.eval(s, model_completion=True).as_long()
            if self.branch(s == z3.BitVecVal(c, s.size())):
                return c
        raise BoundExceeded('too many concrete values for %s' % what)

    # ------------------------------------------------------------------ types
    def place_type(self, body, place):
        ty = body.locals.get(place[0])
        for pr in place[1]:
            k = pr[0]
            if k == 'deref':
                ty = strip_ref(ty) if ty else None
            elif k == 'field':
                ty = pr[2]
            elif k in ('index', 'cindex'):
                ty = elem_type(ty) if ty else None
            elif k == 'subslice':
                pass
        return ty

    def operand_type(self, body, op):
        if op[0] == 'const':
            c = op[1]
            if c[0] == 'int':
                return c[2]
            if c[0] == 'bool':
                return 'bool'
            if c[0] == 'char':
                return 'char'
            if c[0] == 'path':
                cb = self.find_const(c[1])
                return cb.ret if cb else None
            return None
        return self.place_type(body, op[1])

    # ------------------------------------------------------------------ places / operands
    def place_ref(self, fr, place, for_write=False):
        cont, key = fr.l, place[0]
        variant = None
        for pr in place[1]:
            k = pr[0]
            if k == 'deref':
                v = _slot_get(cont, key)
                if isinstance(v, Ref):
                    cont, key = v.cont, v.key
                elif isinstance(v, Struct) and v.name in ('Box', 'Pin', 'NonNull', 'Unique', 'Rc'):
                    inner = v
                    while isinstance(inner, Struct) and inner.name in ('Box', 'Pin', 'NonNull', 'Unique', 'Rc'):
                        inner = inner.f[0]
                    if not isinstance(inner, Ref):
                        raise Unsupported('deref of %r' % (v,))
                    cont, key = inner.cont, inner.key
                elif v is UNINIT:
                    raise Unsupported('deref of uninit in %s %r' % (fr.body.name, place))
                else:
                    # pointer-like value without a separate pointee cell (&str, &[T] ...): pointee is the value itself
                    cont, key = [v], 0
                variant = None
            elif k == 'field':
                v = _slot_get(cont, key)
                i = pr[1]
                if isinstance(v, Coroutine):
                    if variant is not None:
                        cont, key = v.saved, (variant, i)
                    else:
                        cont, key = v.f, i
                elif isinstance(v, (Struct, Enum, Closure)):
                    cont, key = v.f, i
                elif v is UNINIT:
                    if variant is not None:
                        nv = Enum('?', variant, [])
                    else:
                        nv = Struct('?', [])
                    _slot_set(cont, key, nv)
                    cont, key = nv.f, i
                else:
                    v2 = self.field_of_special(v, i, pr[2])
                    cont, key = [v2], 0
                variant = None
            elif k == 'downcast':
                variant = pr[1]
            elif k == 'index':
                v = _slot_get(cont, key)
                i = self.concrete(fr.l[pr[1]], 'index')
                cont, key = self._index_cont(v), i
                if not (0 <= i < len(cont)):
                    raise Panic('index out of bounds: the len is %d but the index is %d' % (len(cont), i), kind='bounds')
            elif k == 'cindex':
                v = _slot_get(cont, key)
                c = self._index_cont(v)
                i = (len(c) - pr[1]) if pr[3] else pr[1]
                cont, key = c, i
            else:
                raise Unsupported('projection %r' % (pr,))
        return cont, key

    def _index_cont(self, v):
        if isinstance(v, Arr):
            return v.items
        if isinstance(v, (Bytes, Vec)):
            return v.items
        if isinstance(v, Ref):
            return self._index_cont(v.get())
        raise Unsupported('index into %r' % (v,))

    def field_of_special(self, v, i, ty):
        # fat/opaque values whose fields MIR peeks at
        if isinstance(v, Ref) and i == 0:
            return v      # e.g. (_x.0: NonNull<..>) on a pointer-like wrapper
        if isinstance(v, (Bytes, Vec)) and i == 0:
            return v      # Path { inner: OsStr }, PathBuf { inner: OsString }, String { vec } ...
        raise Unsupported('field %d of %r' % (i, v))

    def read_place(self, fr, place):
        cont, key = self.place_ref(fr, place)
        v = _slot_raw(cont, key)       # whole-value reads keep lazy inputs lazy; inspection points force them
        if v is UNINIT:
            raise Unsupported('read of uninitialised place %r in %s' % (place, fr.body.name))
        return v

    def write_place(self, fr, place, v):
        if not place[1]:
            fr.l[place[0]] = v
            return
        cont, key = self.place_ref(fr, place, True)
        _slot_set(cont, key, v)

    def eval_operand(self, fr, op):
        k = op[0]
        if k == 'copy':
            pl = op[1]
            if not pl[1]:
                v = fr.l.get(pl[0], UNINIT)
                if v is UNINIT:
                    raise Unsupported('read of uninitialised local _%d in %s' % (pl[0], fr.body.name))
            else:
                v = self.read_place(fr, pl)
            if isinstance(v, (Struct, Enum, Arr)):
                return deep_copy(v)
            return v
        if k == 'move':
            pl = op[1]
            if not pl[1]:
                v = fr.l.get(pl[0], UNINIT)
                if v is UNINIT:
                    raise Unsupported('move of uninitialised local _%d in %s' % (pl[0], fr.body.name))
                return v
            return self.read_place(fr, pl)
        return self.eval_const(op[1])

    def eval_const(self, c):
        k = c[0]
        if k == 'int':
            return c[1]
        if k == 'bool':
            return c[1]
        if k == 'unit':
            return UNIT
        if k == 'emptyarr':
            return Arr([])
        if k == 'str':
            return Bytes(c[1], 'str')
        if k == 'bytes':
            return Bytes(c[1], 'bytes')
        if k == 'char':
            return c[1]
        if k == 'zst':
            m = re.search(r'(\{closure@[^}]*\})', c[1])
            if m:
                return Closure(m.group(1), [])
            return FnItem(c[1])
        if k == 'float':
            return c[1]
        if k == 'path':
            p = c[1]
            cb = self.find_const(p)
            if cb is not None:
                return self.eval_const_body(cb)
            hook = self.summaries.get('const ' + strip_generics(p))
            if hook:
                return hook(self)
            return FnItem(p)
        if k == 'alloc':
            return Opaque('alloc', c[1])
        raise Unsupported('const %r' % (c,))

    def find_const(self, p):
        p0 = strip_generics(p)
        if p0 in self.const_cache:
            return self.const_cache[p0]
        res = None
        b = self.bodies.get(p0)
        if b is not None and b.kind == 'const':
            res = b
        else:
            last = p0.split('::')[-1]
            cands = [n for n in self.by_last.get(last, []) if self.bodies[n].kind == 'const'
                     and (n == p0 or p0.endswith('::' + n) or n.endswith('::' + p0))]
            segs0 = p0.split('::')
            nm0 = self.impl_index.get((type_base(segs0[-2]), None, last)) if len(segs0) >= 2 else None
            if len(cands) == 1:
                res = self.bodies[cands[0]]
            elif nm0 and self.bodies[nm0].kind == 'const':
                res = self.bodies[nm0]
            elif 'promoted[' in p0:
                # `<T as Trait>::method::promoted[i]` vs body `mod::<impl at ..>::method::promoted[i]`
                m = re.match(r'^<(.*) as (.*)>::(\w+)::(promoted\[\d+\])$', p0)
                if m:
                    key = (type_base(m.group(1)), trait_key(m.group(2)), m.group(3))
                    nm = self.impl_index.get(key)
                    if nm and (nm + '::' + m.group(4)) in self.bodies:
                        res = self.bodies[nm + '::' + m.group(4)]
                else:
                    m = re.match(r'^(.*)::(\w+)::(promoted\[\d+\])$', p0)
                    if m:
                        segs = m.group(1).split('::')
                        nm = self.impl_index.get((type_base(segs[-1]), None, m.group(2)))
                        if nm and (nm + '::' + m.group(3)) in self.bodies:
                            res = self.bodies[nm + '::' + m.group(3)]
        self.const_cache[p0] = res
        return res

    def eval_const_body(self, b):
        key = ('val', b.name)
        # constants are re-evaluated per use: they are tiny, and values may be mutable python objects
        return self.run_body(self.body(b.name), [])

    # ------------------------------------------------------------------ rvalues
    def eval_rvalue(self, fr, rv):
        k = rv[0]
        if k == 'use':
            return self.eval_operand(fr, rv[1])
        if k == 'ref':
            pl = rv[1]
            if pl[1] and pl[1][-1][0] == 'deref':
                # &*p == p  (reborrow): return the pointer value itself
                return self.read_place(fr, (pl[0], pl[1][:-1]))
            if not pl[1]:
                return Ref(fr.l, pl[0])
            cont, key = self.place_ref(fr, pl, True)
            return Ref(cont, key)
        if k == 'binop':
            a = force(self.eval_operand(fr, rv[2]))
            b = force(self.eval_operand(fr, rv[3]))
            ty = self.operand_type(fr.body, rv[2]) or self.operand_type(fr.body, rv[3])
            return self.binop(rv[1], a, b, ty, self.operand_type(fr.body, rv[3]))
        if k == 'unop':
            a = force(self.eval_operand(fr, rv[2]))
            if rv[1] == 'Not':
                if isinstance(a, bool):
                    return not a
                if z3.is_bool(a):
                    return z3.Not(a)
                ty = self.operand_type(fr.body, rv[2])
                if isinstance(a, int):
                    return norm_int(~a, ty)
                return ~a
            if rv[1] == 'Neg':
                ty = self.operand_type(fr.body, rv[2])
                if isinstance(a, int):
                    return norm_int(-a, ty)
                return -a
            if rv[1] == 'PtrMetadata':
                return self.seq_len(a)
            raise Unsupported('unop ' + rv[1])
        if k == 'disc':
            cont, key = self.place_ref(fr, rv[1])
            v = _slot_get(cont, key)
            if v is UNINIT:
                raise Unsupported('discriminant of uninitialised place in %s' % fr.body.name)
            return self.discriminant(v)
        if k == 'cast':
            return self.cast(fr, rv)
        if k == 'tuple':
            return Struct('()', [self.eval_operand(fr, o) for o in rv[1]])
        if k == 'array':
            return Arr([self.eval_operand(fr, o) for o in rv[1]])
        if k == 'repeat':
            v = self.eval_operand(fr, rv[1])
            n = rv[2].strip()
            m = re.fullmatch(r'(?:const )?(\d+)(?:_usize)?', n)
            if not m:
                raise Unsupported('repeat count %r' % n)
            return Arr([deep_copy(v) for _ in range(int(m.group(1)))])
        if k == 'adt':
            return self.make_adt(fr, rv)
        if k == 'closure':
            c = Closure(rv[1], [self.eval_operand(fr, o) for o in rv[2]], rv[3])
            if len(rv) > 4 and rv[4] in self.bodies:
                c.body = rv[4]      # macro-generated closures share one span-based ident: the def path disambiguates
            return c
        if k == 'coroutine':
            if len(rv) <= 4 or rv[4] not in self.bodies:
                raise Unsupported('coroutine without poll body: %s' % rv[1])
            return Coroutine(rv[4], [self.eval_operand(fr, o) for o in rv[2]], rv[3])
        if k == 'len':
            return self.seq_len(force(self.read_place(fr, rv[1])))
        if k == 'shallowbox':
            return self.eval_operand(fr, rv[1])
        if k == 'nullop':
            if rv[1] in ('UbChecks', 'ContractChecks'):
                return False
            raise Unsupported('nullop %r' % (rv,))
        raise Unsupported('rvalue %r' % (rv,))

    def seq_len(self, v):
        if isinstance(v, Ref):
            v = v.get()
        if isinstance(v, (Bytes, Vec)):
            return len(v.items)
        if isinstance(v, Arr):
            return len(v.items)
        raise Unsupported('len of %r' % (v,))

    def discriminant(self, v):
        if isinstance(v, Enum):
            if v.ty == '__PrivResult':
                return int(v.var[1:])
            tab = self.enums.get(v.ty)
            if tab is None or v.var not in tab:
                # late-bound enum type (aggregate printed without its type, e.g. `Immediate`)
                e = BARE_VARIANTS.get(v.var)
                if e:
                    return self.enums[e][v.var]
                for name, t in self.enums.items():
                    if v.ty == '?' and v.var in t:
                        return t[v.var]
                raise Unsupported('discriminant of %r' % (v,))
            return tab[v.var]
        if isinstance(v, Coroutine):
            return v.state
        if isinstance(v, SymEnum):
            return v.disc
        raise Unsupported('discriminant of %r' % (v,))

    def make_adt(self, fr, rv):
        path, ops, names = rv[1], rv[2], rv[3]
        vals = [self.eval_operand(fr, o) for o in ops]
        p = strip_generics(path)
        segs = p.split('::')
        last = segs[-1]
        if len(segs) >= 2 and segs[-2] == '__PrivResult':
            return Enum('__PrivResult', last, vals)
        if len(segs) >= 2:
            ety = type_base(segs[-2])
            tab = self.enums.get(ety)
            if tab is not None and last in tab:
                return Enum(ety, last, vals)
        if len(segs) == 1 and last in BARE_VARIANTS and not vals:
            return Enum(BARE_VARIANTS[last], last, [])
        if len(segs) == 1 and not vals and names is None:
            # bare unit variant of a crate enum imported by `use`
            owners = [e for e, t in self.enums.items() if last in t and e in self.src.enums]
            if len(owners) == 1 and last not in self.src.structs:
                return Enum(owners[0], last, [])
        name = type_base(last)
        if names is not None and name in self.src.structs and self.src.structs[name]:
            order = self.src.structs[name]
            if set(names) == set(order) and names != order:
                by = dict(zip(names, vals))
                vals = [by[n] for n in order]
        return Struct(name, vals)

    # ------------------------------------------------------------------ arithmetic
    def binop(self, op, a, b, ty, tyb=None):
        if ty is None:
            ty = 'usize' if not (isinstance(a, bool) or (is_sym(a) and z3.is_bool(a))) else 'bool'
        if ty == 'bool' or isinstance(a, bool) or (is_sym(a) and z3.is_bool(a)):
            if op == 'Eq':
                return (a == b) if isinstance(a, bool) and isinstance(b, bool) else (_zb(a) == _zb(b))
            if op == 'Ne':
                return (a != b) if isinstance(a, bool) and isinstance(b, bool) else (_zb(a) != _zb(b))
            if op == 'BitAnd':
                return b_and(a, b)
            if op == 'BitOr':
                return b_or(a, b)
            if op == 'BitXor':
                return (a != b) if isinstance(a, bool) and isinstance(b, bool) else z3.Xor(_zb(a), _zb(b))
            raise Unsupported('bool binop ' + op)
        if ty not in INTW:
            if isinstance(a, int) and isinstance(b, int):
                ty = 'i128'
            elif isinstance(a, float) or isinstance(b, float):
                return {'Lt': a < b, 'Le': a <= b, 'Gt': a > b, 'Ge': a >= b, 'Eq': a == b, 'Ne': a != b,
                        'Mul': a * b, 'Add': a + b, 'Sub': a - b, 'Div': a / b if b else 0.0}[op]
            else:
                raise Unsupported('binop %s on type %s (%r, %r)' % (op, ty, a, b))
        w = INTW[ty]
        sg = is_signed(ty)
        base = op.replace('WithOverflow', '').replace('Unchecked', '')
        if (is_sym(a) and z3.is_int(a)) or (is_sym(b) and z3.is_int(b)):
            return self.int_theory_binop(op, base, a, b, ty)
        if isinstance(a, int) and isinstance(b, int):
            if base == 'Add':
                r = a + b
            elif base == 'Sub':
                r = a - b
            elif base == 'Mul':
                r = a * b
            elif base == 'Div':
                if b == 0:
                    raise Panic('attempt to divide by zero')
                r = abs(a) // abs(b) * (1 if (a >= 0) == (b >= 0) else -1)
            elif base == 'Rem':
                if b == 0:
                    raise Panic('attempt to calculate the remainder with a divisor of zero')
                r = abs(a) % abs(b) * (1 if a >= 0 else -1)
            elif base == 'BitAnd':
                r = a & b
            elif base == 'BitOr':
                r = a | b
            elif base == 'BitXor':
                r = a ^ b
            elif base == 'Shl':
                r = a << (b % w)
            elif base == 'Shr':
                r = a >> (b % w)
            elif base in ('Eq', 'Ne', 'Lt', 'Le', 'Gt', 'Ge'):
                return {'Eq': a == b, 'Ne': a != b, 'Lt': a < b, 'Le': a <= b, 'Gt': a > b, 'Ge': a >= b}[base]
            elif base == 'Cmp':
                return Enum('Ordering', 'Less' if a < b else ('Equal' if a == b else 'Greater'))
            else:
                raise Unsupported('binop ' + op)
            if op.endswith('WithOverflow'):
                lo, hi = (-(1 << (w - 1)), (1 << (w - 1)) - 1) if sg else (0, (1 << w) - 1)
                return Struct('()', [norm_int(r, ty), not (lo <= r <= hi)])
            return norm_int(r, ty)
        A, B = to_bv(a, w), to_bv(b, w)
        if B.size() != w:
            B = z3.ZeroExt(w - B.size(), B) if B.size() < w else z3.Extract(w - 1, 0, B)
        if A.size() != w:
            A = z3.ZeroExt(w - A.size(), A) if A.size() < w else z3.Extract(w - 1, 0, A)
        if base == 'Eq':
            return A == B
        if base == 'Ne':
            return A != B
        if base == 'Lt':
            return (A < B) if sg else z3.ULT(A, B)
        if base == 'Le':
            return (A <= B) if sg else z3.ULE(A, B)
        if base == 'Gt':
            return (A > B) if sg else z3.UGT(A, B)
        if base == 'Ge':
            return (A >= B) if sg else z3.UGE(A, B)
        if base == 'Add':
            r = A + B
            if op.endswith('WithOverflow'):
                if sg:
                    ov = z3.Or(z3.Not(z3.BVAddNoOverflow(A, B, True)), z3.Not(z3.BVAddNoUnderflow(A, B)))
                else:
                    ov = z3.Not(z3.BVAddNoOverflow(A, B, False))
                return Struct('()', [r, ov])
            return r
        if base == 'Sub':
            r = A - B
            if op.endswith('WithOverflow'):
                if sg:
                    ov = z3.Or(z3.Not(z3.BVSubNoOverflow(A, B)), z3.Not(z3.BVSubNoUnderflow(A, B, True)))
                else:
                    ov = z3.Not(z3.BVSubNoUnderflow(A, B, False))
                return Struct('()', [r, ov])
            return r
        if base == 'Mul':
            r = A * B
            if op.endswith('WithOverflow'):
                ov = z3.Or(z3.Not(z3.BVMulNoOverflow(A, B, sg)), z3.Not(z3.BVMulNoUnderflow(A, B))) if sg \
                    else z3.Not(z3.BVMulNoOverflow(A, B, False))
                return Struct('()', [r, ov])
            return r
        if base == 'BitAnd':
            return A & B
        if base == 'BitOr':
            return A | B
        if base == 'BitXor':
            return A ^ B
        if base == 'Div':
            return (A / B) if sg else z3.UDiv(A, B)
        if base == 'Rem':
            return z3.SRem(A, B) if sg else z3.URem(A, B)
        if base == 'Shl':
            return A << B
        if base == 'Shr':
            return (A >> B) if sg else z3.LShR(A, B)
        raise Unsupported('symbolic binop ' + op)

    def int_theory_binop(self, op, base, a, b, ty):
        """operands modelled as mathematical integers (z3 Int) that are known to stay inside the machine range, e.g. run ids:
        comparisons are exact; +,- report overflow by a range test"""
        A = a if not isinstance(a, int) else z3.IntVal(a)
        B = b if not isinstance(b, int) else z3.IntVal(b)
        if z3.is_bv(A) or z3.is_bv(B):
            raise Unsupported('mixing Int-theory and bit-vector operands in %s' % op)
        if base in ('Eq', 'Ne', 'Lt', 'Le', 'Gt', 'Ge'):
            return {'Eq': A == B, 'Ne': A != B, 'Lt': A < B, 'Le': A <= B, 'Gt': A > B, 'Ge': A >= B}[base]
        if base in ('Add', 'Sub'):
            r = A + B if base == 'Add' else A - B
            if op.endswith('WithOverflow'):
                w = INTW[ty]
                lo, hi = (-(1 << (w - 1)), (1 << (w - 1)) - 1) if is_signed(ty) else (0, (1 << w) - 1)
                return Struct('()', [r, z3.Or(r < lo, r > hi)])
            return r
        raise Unsupported('Int-theory binop ' + op)

    def cast(self, fr, rv):
        v = force(self.eval_operand(fr, rv[1]))
        to, kind = rv[2].strip(), rv[3]
        if kind == 'IntToInt':
            frm = self.operand_type(fr.body, rv[1])
            return self.int_cast(v, frm, to)
        if kind.startswith('PointerCoercion(Unsize'):
            # &[T;N] -> &[T] ; Box<T> -> Box<dyn ..> ; &T -> &dyn Trait
            if isinstance(v, Ref) and re.match(r"&(?:'\w+ )?(?:mut )?\[", to):
                inner = v.get()
                if isinstance(inner, Arr):
                    if 'mut ' in to.split('[')[0]:
                        return v
                    return Bytes(inner.items, 'slice')
            return v
        if kind.startswith('PointerCoercion(') or kind in ('PtrToPtr', 'Transmute', 'FnPtrToPtr', 'Subtype'):
            if kind == 'Transmute' and isinstance(v, Struct) and v.name in ('NonNull', 'Unique'):
                return v.f[0]
            return v
        if kind == 'IntToFloat':
            if is_sym(v):
                raise Unsupported('symbolic int->float')
            return float(v)
        if kind == 'FloatToInt':
            if is_sym(v):
                raise Unsupported('symbolic float->int')
            lo, hi = (-(1 << (INTW[to] - 1)), (1 << (INTW[to] - 1)) - 1) if is_signed(to) else (0, (1 << INTW[to]) - 1)
            return max(lo, min(hi, int(v)))
        if kind == 'FloatToFloat':
            return v
        raise Unsupported('cast kind ' + kind)

    def int_cast(self, v, frm, to):
        if to not in INTW:
            raise Unsupported('int cast to ' + to)
        if isinstance(v, bool):
            return 1 if v else 0
        if is_sym(v) and z3.is_bool(v):
            return z3.If(v, z3.BitVecVal(1, INTW[to]), z3.BitVecVal(0, INTW[to]))
        if isinstance(v, Enum):
            v = self.discriminant(v)
        if isinstance(v, int):
            return norm_int(v, to)
        w, vw = INTW[to], v.size()
        if w > vw:
            return z3.SignExt(w - vw, v) if (frm and is_signed(frm)) else z3.ZeroExt(w - vw, v)
        if w < vw:
            return z3.Extract(w - 1, 0, v)
        return v

    # ------------------------------------------------------------------ interpreter
    def run_body(self, body, args):
        if body.blocks is None:
            mir.parse_body(body)
        self.entered.add(body.name)
        fr = Frame(body, args)
        self.frames.append(body.name)
        try:
            return self._run(body, fr)
        finally:
            self.frames.pop()

    def _run(self, body, fr):
        blocks = body.blocks
        bb = 0
        p = self.path
        while True:
            blk = blocks[bb]
            for st in blk[0]:
                p.steps += 1
                if st[0] == 'assign':
                    v = self.eval_rvalue(fr, st[2])
                    pl = st[1]
                    if not pl[1]:
                        fr.l[pl[0]] = v
                    else:
                        self.write_place(fr, pl, v)
                else:   # setdisc
                    cont, key = self.place_ref(fr, st[1], True)
                    v = _slot_get(cont, key)
                    if isinstance(v, Coroutine):
                        v.state = st[2]
                    else:
                        self.set_discriminant(fr, st[1], cont, key, v, st[2])
            if p.steps > self.step_budget:
                raise BoundExceeded('step budget exceeded in %s' % body.name)
            t = blk[1]
            p.steps += 1
            k = t[0]
            if k == 'goto':
                bb = t[1]
            elif k == 'call':
                args2 = [self.eval_operand(fr, a) for a in t[3]]
                try:
                    r = self.call(t[2], args2, fr, t[5])
                except Panic as e:
                    if len(e.trace) < 12:
                        e.trace.append((body.name, t[5]))
                    raise
                if t[4] is None:
                    raise Panic('call to %s returned but MIR says it diverges' % t[2], t[5])
                if t[1] is not None:
                    self.write_place(fr, t[1], r)
                bb = t[4]
            elif k == 'switch':
                v = force(self.eval_operand(fr, t[1]))
                bb = self.switch(fr, t, v)
            elif k == 'return':
                return fr.l.get(0, UNIT)
            elif k == 'drop':
                cont, key = self.place_ref(fr, t[1])
                v = _slot_get(cont, key)
                if v is not UNINIT:
                    self.drop_value(v)
                bb = t[2]
            elif k == 'assert':
                v = force(self.eval_operand(fr, t[1]))
                if not t[2]:
                    v = b_not(v)
                if not self.branch(v):
                    raise Panic(t[3].strip('"'), t[5], kind='assert')
                bb = t[4]
            elif k == 'unreachable':
                raise Unsupported('reached `unreachable` in %s bb%d' % (body.name, bb))
            elif k == 'resume':
                raise Unsupported('reached `resume` in %s' % body.name)
            else:
                raise Unsupported('terminator %r' % (t,))

    def switch(self, fr, t, v):
        cases, other = t[2], t[3]
        if isinstance(v, bool):
            iv = 1 if v else 0
            for c, dst in cases:
                if c == iv:
                    return dst
            return other
        if isinstance(v, int):
            if v < 0:
                ty = self.operand_type(fr.body, t[1])
                w = INTW.get(ty, 64) if ty else 64
                v += 1 << w
            for c, dst in cases:
                if c == v:
                    return dst
            if other is None:
                raise Unsupported('switch fell through')
            return other
        if z3.is_bool(v):
            # cases are 0 / 1
            tgt = {c: dst for c, dst in cases}
            if self.branch(v):
                return tgt.get(1, other)
            return tgt.get(0, other)
        for c, dst in cases:
            if self.branch(v == (z3.BitVecVal(c, v.size()) if z3.is_bv(v) else z3.IntVal(c))):
                return dst
        if other is None:
            raise PathDead()
        return other

    def set_discriminant(self, fr, place, cont, key, v, n):
        ty = self.place_type(fr.body, place)
        ety = type_base(ty) if ty else None
        tab = self.enums.get(ety)
        if tab is None:
            raise Unsupported('set discriminant on %r (%s)' % (v, ty))
        for name, d in tab.items():
            if d == n:
                if isinstance(v, Enum):
                    v.ty, v.var = ety, name
                else:
                    _slot_set(cont, key, Enum(ety, name, []))
                return
        raise Unsupported('no variant %d in %s' % (n, ety))

    # ------------------------------------------------------------------ drop
    def drop_value(self, v, depth=0):
        if depth > 12:
            return
        if isinstance(v, Struct):
            h = self.summaries.get('drop ' + v.name)
            if h is not None:
                h(self, v)
                return
            nm = self.impl_index.get((v.name, 'Drop', 'drop'))
            if nm is not None:
                self.run_body(self.body(nm), [new_cell(v)])
            for x in list(v.f):
                self.drop_value(x, depth + 1)
        elif isinstance(v, Enum):
            for x in list(v.f):
                self.drop_value(x, depth + 1)
        elif isinstance(v, (Arr, Vec, Deque)):
            for x in list(v.items):
                self.drop_value(x, depth + 1)
        elif isinstance(v, Map):
            for kv in list(v.items):
                for x in kv:
                    self.drop_value(x, depth + 1)
        elif isinstance(v, Closure):
            pass   # closures capture by reference here, or own values that have no Drop side effects we model
        elif isinstance(v, Coroutine):
            h = self.summaries.get('drop coroutine')
            if h is not None:
                h(self, v)
        elif isinstance(v, Opaque):
            h = self.summaries.get('drop ' + v.ty)
            if h is not None:
                h(self, v)

    # ------------------------------------------------------------------ calls
    def parse_callee(self, raw):
        ci = self.callinfo.get(raw)
        if ci is not None:
            return ci
        ci = CallInfo()
        ci.raw = raw
        ci.target = None
        ci.summary = None
        ci.cl_ident = None
        s = raw.strip()
        m = None
        if s.startswith('<'):
            j = mir.scan_balanced(s, 1, '>')
            inner = s[1:j]
            rest = s[j + 1:]
            k = find_top_angle(inner, ' as ')
            if k is not None and rest.startswith('::'):
                ci.kind = 'trait'
                ci.selfty = inner[:k].strip()
                ci.traitfull = inner[k + 4:].strip()
                ci.trait = trait_key(ci.traitfull)
                meth = strip_generics(rest[2:])
                ci.method = meth.split('::')[0]
                ci.segs = [type_base(ci.selfty), ci.method]
                ci.norm = '%s::%s' % (ci.trait.split('<')[0], ci.method)
                cm = re.match(r"(?:&mut |&)?(\{closure@[^}]*\})", ci.selfty)
                if cm:
                    ci.cl_ident = cm.group(1)
                self.callinfo[raw] = ci
                self._resolve(ci)
                return ci
        ci.kind = 'path'
        p = strip_generics(s)
        # `core::str::<impl str>::trim_end` -> 'str::trim_end'
        p = re.sub(r'<impl ([^>]*)>', lambda mm: 'impl_' + type_base(mm.group(1)).replace('[]', 'slice'), p)
        ci.segs = p.split('::')
        ci.method = ci.segs[-1]
        ci.selfty = ci.segs[-2] if len(ci.segs) >= 2 else None
        ci.trait = None
        ci.traitfull = None
        ci.norm = '::'.join(ci.segs[-2:]) if len(ci.segs) >= 2 else ci.segs[0]
        self.callinfo[raw] = ci
        self._resolve(ci)
        return ci

    EXTERN_ROOTS = ('std', 'core', 'alloc', 'nix', 'rusqlite', 'futures', 'futures_util', 'libc', 'tempfile', 'rand',
                    'sha1', 'clap', 'anyhow', 'libsqlite3_sys', 'term_size', 'common_path', 'lazy_static', 'ouroboros')

    def _resolve(self, ci):
        """find an in-crate body for the callee, if any (static part; generic receivers are resolved at run time)"""
        if ci.kind == 'trait':
            base = type_base(ci.selfty)
            nm = self.impl_index.get((base, ci.trait, ci.method))
            if nm:
                ci.target = nm
            return
        segs = ci.segs
        if segs[0] in self.EXTERN_ROOTS:
            return
        if len(segs) >= 2:
            base = type_base(segs[-2])
            if base.startswith('impl_'):
                base = base[5:]
            nm = self.impl_index.get((base, None, segs[-1]))
            if nm:
                ci.target = nm
                return
        full = '::'.join(segs)
        if full in self.bodies and self.bodies[full].kind == 'fn':
            ci.target = full
            return
        if full in self.by_alias:
            ci.target = self.by_alias[full]
            return
        cands = []
        for n in self.by_last.get(segs[-1], []):
            b = self.bodies[n]
            if b.kind != 'fn' or '<impl at' in n:
                continue
            if n == full or full.endswith('::' + n) or n.endswith('::' + full):
                cands.append(n)
        if len(cands) == 1:
            ci.target = cands[0]
        elif len(cands) > 1:
            # prefer the body whose defining file matches the module named by the call path
            for n in cands:
                b = self.body(n)
                mod = module_of(b.file)
                if len(segs) >= 2 and mod.split('::')[-1] == segs[-2]:
                    ci.target = n
                    return

    def call(self, callee, args, fr, span):
        ci = self.parse_callee(callee)
        if self.probes:
            pr = self.probes.get(ci.norm)
            if pr is not None:
                pr(self, ci, args)      # observation only: the real body still runs
        st = self.stubs.get(ci.norm)
        if st is None and ci.target:
            st = self.stubs.get(ci.target)
        if st is not None:
            self.used_summaries.add('stub:' + ci.norm)
            return st(self, ci, args, span)
        if ci.target is not None:
            return self.run_body(self.body(ci.target), args)
        h = self.lookup_summary(ci)
        if h is not None:
            self.used_summaries.add(ci.norm)
            for i, a in enumerate(args):
                if type(a) is LazyVal:
                    args[i] = a.force()
            return h(self, ci, args, span)
        # receiver-typed dispatch for generic parameters / dyn objects
        r = self.dynamic_dispatch(ci, args, span)
        if r is not NotImplemented:
            return r
        raise Unsupported('no body or summary for call %s (norm %s) in %s' % (callee[:160], ci.norm, fr.body.name if fr else '?'))

    def lookup_summary(self, ci):
        if ci.summary is not None:
            return ci.summary or None
        s = self.summaries
        h = None
        if ci.kind == 'trait':
            h = s.get('<%s as %s>::%s' % (type_base(ci.selfty), ci.trait.split('<')[0], ci.method)) or s.get(ci.norm)
        else:
            segs = ci.segs
            for k in range(min(len(segs), 4), 0, -1):
                h = s.get('::'.join(segs[-k:]))
                if h:
                    break
        ci.summary = h or False
        return h

    def runtime_type(self, v):
        d = 0
        while isinstance(v, Ref) and d < 6:
            v = v.get()
            d += 1
        if isinstance(v, Struct):
            return v.name
        if isinstance(v, Enum):
            return v.ty
        if isinstance(v, Closure):
            return v.ident
        if isinstance(v, Coroutine):
            return v.ident
        if isinstance(v, Vec):
            return v.kind
        if isinstance(v, Bytes):
            return v.kind
        if isinstance(v, Opaque):
            return v.ty
        if isinstance(v, FnItem):
            return 'fn'
        return type(v).__name__

    def dynamic_dispatch(self, ci, args, span):
        if ci.kind != 'trait' or not args:
            return NotImplemented
        rt = self.runtime_type(args[0])
        nm = self.impl_index.get((rt, ci.trait, ci.method))
        if nm:
            return self.run_body(self.body(nm), args)
        h = self.summaries.get('<%s as %s>::%s' % (rt, ci.trait.split('<')[0], ci.method))
        if h:
            self.used_summaries.add('<%s as %s>::%s' % (rt, ci.trait.split('<')[0], ci.method))
            return h(self, ci, args, span)
        return NotImplemented

    def call_closure(self, f, args):
        """call a closure / fn item / boxed callable value with an argument list"""
        d = 0
        while isinstance(f, Ref) and d < 6:
            g = f.get()
            if isinstance(g, (Closure, FnItem, Coroutine, PyCallable)) or isinstance(g, Ref) or \
                    (isinstance(g, Struct) and g.name in ('Box', 'Rc')):
                f = g
                d += 1
            else:
                break
        while isinstance(f, Struct) and f.name in ('Box', 'Rc', 'Pin'):
            f = f.f[0]
            while isinstance(f, Ref):
                f = f.get()
        if isinstance(f, PyCallable):
            return f.fn(self, args)
        if isinstance(f, FnItem):
            return self.call(f.path, args, None, None)
        if isinstance(f, Closure):
            nm = f.body or self.closures.get(f.ident)
            if nm is None:
                raise Unsupported('no body for closure %s' % f.ident)
            b = self.body(nm)
            selfty = b.argtys[0][1]
            if selfty.startswith('&'):
                selfarg = new_cell(f)
            else:
                selfarg = f
            return self.run_body(b, [selfarg] + list(args))
        raise Unsupported('call of non-callable %r' % (f,))


class PyCallable:
    """a callable supplied by a spec (harness-side closure)"""
    def __init__(self, fn, name='py'):
        self.fn = fn
        self.name = name

    def __repr__(self):
        return '<py %s>' % self.name


class SymEnum:
    """enum value with a symbolic discriminant (only fieldless use)"""
    def __init__(self, ty, disc):
        self.ty = ty
        self.disc = disc


class BoundExceeded(Exception):
    pass


def _zb(v):
    return z3.BoolVal(v) if isinstance(v, bool) else v


def _slot_raw(cont, key):
    try:
        return cont[key]
    except (KeyError, IndexError):
        return UNINIT


def force(v):
    return v.force() if type(v) is LazyVal else v


def _slot_get(cont, key):
    try:
        v = cont[key]
    except (KeyError, IndexError):
        return UNINIT
    if type(v) is LazyVal:
        v = v.force()
        try:
            cont[key] = v
        except TypeError:
            pass
    return v


def _slot_set(cont, key, v):
    if isinstance(cont, AutoList):
        cont.set(key, v)
    else:
        cont[key] = v


def strip_ref(ty):
    ty = ty.strip()
    m = re.match(r"^&(?:'\w+ )?(?:mut )?(.*)$", ty)
    if m:
        return m.group(1)
    m = re.match(r'^\*(?:const|mut) (.*)$', ty)
    if m:
        return m.group(1)
    m = re.match(r'^(?:std::boxed::)?Box<(.*)>$', ty)
    if m:
        return mir.split_top(m.group(1))[0]
    return ty


def elem_type(ty):
    ty = ty.strip()
    if ty.startswith('['):
        inner = ty[1:-1]
        parts = mir.split_top(inner, ';')
        return parts[0]
    return None


def module_of(file):
    if not file:
        return ''
    f = file
    if f.startswith('src/bin/redo/'):
        f = f[len('src/bin/redo/'):]
    elif f.startswith('src/'):
        f = f[4:]
    f = f[:-3] if f.endswith('.rs') else f
    if f in ('lib', 'main'):
        return ''
    return f.replace('/', '::')


def norm_coroutine_ident(s):
    """`{coroutine@src/x.rs:1:2: 3:4 (#735)}` / `{async fn body of f<C>()}` -> comparable key"""
    s = re.sub(r' \(#\d+\)', '', s)
    s = re.sub(r'^\{async fn body of (?:\w+::)*', '{async fn body of ', s)
    return s
