#!/usr/bin/env python3-vt
"""dev spike: execute the real builder::run coroutine under JobServer::block_on with a combined jobserver + build world"""
import os, sys
sys.path.insert(0, os.path.dirname(os.path.dirname(os.path.abspath(__file__))))
os.environ.setdefault('VERIF_JOBS', '1')
from lib import prep
from lib.harness import log
from mirsym.values import *
from mirsym.engine import PyCallable
from mirsym.summaries.core import ok, err, deref_all, some, none
from specs import dbmodel, buildworld, buildjob, jobmodel, schedmodel

eng = prep.engine(need_bin=True)
schedmodel.install(eng)
eng.select_orders = os.environ.get('ORDERS', 'first')
n = [0]
import time
T0 = time.time()


def run():
    cfg = dict(targets=[b'a', b'b'], keep_going=False, top_level=2, pipe0=1, others0=0)
    cfg.update(eval(os.environ.get('CFG', '{}')))
    if cfg.pop('ifchange', False):
        cfg['should_build'] = FnItem('ifchange::should_build')
    w, sref, root = schedmodel.setup(eng, **cfg)
    if os.environ.get('LIVE'):
        oev = w.ev
        def ev(k, **kw):
            print('   ev', k, kw, flush=True)
            oev(k, **kw)
        w.ev = ev
    res = eng.call('JobServer::block_on', [sref, root], None, None)
    return res


def on_end(outcome, val, path):
    n[0] += 1
    w = eng.world
    import time
    print('PATH', n[0], '%.1fs' % (time.time() - T0), outcome, val if outcome != 'ok' else repr(val)[:100], eng.stats['steps'], flush=True)
    if os.environ.get('SHOW') or outcome != 'ok':
        for k, d in w.log:
            if k in ('stat', 'exists', 'sql-select-file', 'sql-select-deps', 'sql-begin'):
                continue
            print('    ', k, d)
    if outcome not in ('ok',):
        import traceback
        if hasattr(val, 'trace'):
            print(val.trace)


eng.explore(run, on_end, label='spike')
print('paths', n[0], eng.stats)
