#!/usr/bin/env python3-vt
"""C07 - each target built at most once per run, outcome independent of schedule: one redo process (see specs/schedfamily.py, DESIGN.md §5 C07)"""
import os, sys
sys.path.insert(0, os.path.dirname(os.path.dirname(os.path.abspath(__file__))))
from specs import schedfamily
schedfamily.main("C07")
