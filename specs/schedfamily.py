"""Entry for the properties decided only by the scheduler exploration (C06, C07); C05/C08/C09 add it to their own plans."""
import os

from lib.harness import Check, log
from lib.scenario import Scenario
from specs import schedcheck

TECH = ('symbolic execution of rustc MIR (mirsym) + z3 of the real builder::run coroutine under the real JobServer::block_on with '
        'the real BuildJob / Lock / should_build code over a jobserver + database + filesystem + fcntl-lock environment model; event '
        'traces judged per path class; native replay with the real binaries')


def main(pid):
    chk = Check(pid, TECH, need_bin=True)
    scn = Scenario(log)
    try:
        schedcheck.explore(chk, pid, scn)
        chk.finish(schedcheck.make_replay(chk, scn))
    finally:
        scn.cleanup()
