#!/usr/bin/env python3-vt
"""C17 - see specs/depsfamily.py, specs/depsobl.py and DESIGN.md section 5"""
import os, sys
sys.path.insert(0, os.path.dirname(os.path.dirname(os.path.abspath(__file__))))
from specs import depsfamily
depsfamily.main("C17")
