"""Database + filesystem model for the dependency-state properties (C01 C02 C03 C05 C11 C12 C14 C17 ...).

`Files` / `Deps` are Python tables whose cells may be symbolic (z3 terms) or *lazy* (shape chosen when the program first
looks).  The real SQL text issued by the crate is interpreted against them by DBWorld.sql_*.
"""
import re
import z3
from mirsym.values import *
from mirsym.summaries.core import some, none, ok, err, deref_all
from mirsym.summaries.env import World, io_error
from mirsym.summaries.sql import sql_error

BASE = b'/p'
ALWAYS = b'//ALWAYS'
S_MISSING = b'0'
S1 = b'1.000000-10-100-33188-0-0'
S2 = b'2.000000-10-100-33188-0-0'      # differs from S1 in mtime  (=> manual override when compared with S1)
S3 = b'1.000000-10-100-33261-0-0'      # differs from S1 only in st_mode (dirty, but not an override)
S4 = b'1.000000-11-100-33188-0-0'      # same mtime as S1, different size (cp -p / touch -r over an edited file): an override
S_LINK = b'7.000000-5-555-41471-0-0'    # a symbolic link (lstat) that points to a regular file with stamp S_LINK_TARGET
S_LINK_TARGET = b'6.000000-44-556-33188-0-0'
S_DIR = b'dir'
FILE_COLS = ['rowid', 'name', 'is_generated', 'is_override', 'checked_runid', 'changed_runid', 'failed_runid', 'stamp', 'csum']


class DBWorld(World):
    def __init__(self, eng, runid):
        self.eng = eng
        self.runid = runid
        self.files = {}            # rowid -> {col: cell}
        self.deps = {}             # (target, source) -> {'mode': b'm'|b'c', 'delete_me': 0|1}
        self.deps_lazy = {}        # target -> thunk producing edges on first query (graph shape enumeration)
        self.fs = {}               # name -> lazy/bytes stamp | None (missing)
        self.snapshot = None
        self.in_tx = False
        self.log = []
        self.next_rowid = 100
        self.allow_sql_errors = False

    def ev(self, ev_kind, **kw):
        self.log.append((ev_kind, kw))
        self.eng.event(ev_kind, **kw)

    # ---------------------------------------------------------------- construction helpers
    def add_file(self, rowid, name, **cells):
        row = {'rowid': rowid, 'name': tuple(name), 'is_generated': None, 'is_override': None, 'checked_runid': None,
               'changed_runid': None, 'failed_runid': None, 'stamp': None, 'csum': None}
        row.update(cells)
        self.files[rowid] = row
        return row

    def sym_file(self, rowid, name, tag=None, fs_choices=(None, S1, S2, S3), stamp_choices=(None, S_MISSING, S1), csum_choices=(None, b'abc'),
                 fixed=None):
        """a Files row whose every column is an unconstrained symbolic input (shapes chosen lazily)"""
        eng = self.eng
        tag = tag or ('f%d' % rowid)
        fixed = fixed or {}

        def opt_i64(col):
            def th():
                k = eng.choose(2, '%s.%s is' % (tag, col))
                if k == 0:
                    return None
                # run ids: mathematical integers known to fit i64 (the code only compares them / takes max)
                v = z3.Int('%s_%s' % (tag, col))
                eng.assume(z3.And(v >= -(1 << 62), v <= (1 << 62)))
                return v
            lv = LazyVal(th, '%s.%s' % (tag, col))
            return lv

        def choice(col, opts):
            def th():
                k = eng.choose(len(opts), '%s.%s' % (tag, col))
                o = opts[k]
                return tuple(o) if isinstance(o, bytes) else o
            return LazyVal(th, '%s.%s' % (tag, col))

        row = self.add_file(rowid, name,
                            is_generated=z3.Bool('%s_gen' % tag), is_override=z3.Bool('%s_ovr' % tag),
                            checked_runid=opt_i64('checked_runid'), changed_runid=opt_i64('changed_runid'),
                            failed_runid=opt_i64('failed_runid'), stamp=choice('stamp', stamp_choices),
                            csum=choice('csum', csum_choices))
        for k, v in fixed.items():
            row[k] = v
        self.fs[tuple(name)] = choice('fs', fs_choices)
        return row

    def cell(self, rowid, col):
        v = self.files[rowid][col]
        if type(v) is LazyVal:
            v = v.force()
            self.files[rowid][col] = v
        return v

    def fs_stamp(self, name):
        v = self.fs.get(tuple(name))
        if type(v) is LazyVal:
            v = v.force()
            self.fs[tuple(name)] = v
        return v

    # ---------------------------------------------------------------- filesystem
    def rel(self, path):
        items = tuple(deref_all(path).items)
        if not all(isinstance(x, int) for x in items):
            raise Unsupported('symbolic path in fs model')
        b = bytes(items)
        if b.startswith(BASE + b'/'):
            return tuple(b[len(BASE) + 1:])
        return tuple(b)

    def stat(self, eng, path, follow):
        name = self.rel(path)
        st = self.fs_stamp(name)
        self.ev('stat', name=bytes(name).decode('latin-1'), follow=follow, result=None if st is None else bytes(st).decode())
        if st is None:
            return err(io_error('NotFound'))
        if tuple(st) == tuple(S_LINK):
            if follow:
                st = S_LINK_TARGET
            else:
                return ok(Opaque('Metadata', {'stamp': tuple(st), 'is_dir': False, 'is_symlink': True, 'name': name}))
        return ok(Opaque('Metadata', {'stamp': tuple(st), 'is_dir': tuple(st) == tuple(S_DIR), 'is_symlink': False, 'name': name}))

    def exists(self, eng, path):
        name = self.rel(path)
        st = self.fs_stamp(name)
        self.ev('exists', name=bytes(name).decode('latin-1'), result=st is not None)
        return st is not None

    def is_dir(self, eng, path):
        name = self.rel(path)
        if name[-2:] == (47, 46):
            name = name[:-2]
        st = self.fs_stamp(name)
        return st is not None and tuple(st) == tuple(S_DIR)

    def is_file(self, eng, path):
        name = self.rel(path)
        st = self.fs_stamp(name)
        self.ev('exists', name=bytes(name).decode('latin-1'), result=st is not None, is_file=True)
        return st is not None and tuple(st) != tuple(S_DIR)

    def current_dir(self, eng):
        return ok(Vec(list(BASE), 'PathBuf'))

    def canonicalize(self, eng, p):
        return err(io_error('NotFound'))

    # ---------------------------------------------------------------- SQL
    def sql_batch(self, eng, sql, sp):
        s = sql.upper()
        if s.startswith('BEGIN'):
            self.snapshot = ({k: dict(v) for k, v in self.files.items()}, {k: dict(v) for k, v in self.deps.items()})
            self.in_tx = True
            self.ev('sql-begin', mode=s)
            return ok(UNIT)
        if s == 'COMMIT':
            self.snapshot = None
            self.in_tx = False
            self.ev('sql-commit')
            return ok(UNIT)
        if s == 'ROLLBACK':
            if self.snapshot is not None:
                self.files, self.deps = self.snapshot
            self.snapshot = None
            self.in_tx = False
            self.ev('sql-rollback')
            return ok(UNIT)
        raise Unsupported('SQL batch %r' % sql)

    def file_row(self, rid):
        r = self.files[rid]
        cols = [r[c] for c in FILE_COLS]
        return {'cols': cols, 'byname': {c: r[c] for c in FILE_COLS}}

    def maybe_fail(self, what):
        if self.allow_sql_errors and self.eng.choose(2, 'sql error in ' + what) == 1:
            self.ev('sql-error', what=what)
            return err(sql_error('SqliteFailure', what))
        return None

    # ---- a small generic interpreter: the statement text comes from the MIR, so an edited statement is still executed
    def _conds(self, text):
        """'a=? and b=1' -> [(col, '?'|literal)]"""
        out = []
        for part in re.split(r'\s+and\s+', text.strip(), flags=re.I):
            m = re.fullmatch(r'([\w.]+)\s*=\s*(\?|-?\d+|\'[^\']*\')', part.strip())
            if not m:
                raise Unsupported('SQL condition not modelled: %r' % part)
            out.append((m.group(1).split('.')[-1], m.group(2)))
        return out

    def _lit(self, tok, params):
        if tok == '?':
            if not params:
                raise Unsupported('SQL statement has more placeholders than parameters')
            return params.pop(0)
        if tok.startswith("'"):
            return tuple(tok[1:-1].encode())
        return int(tok)

    def _eq(self, a, b):
        if type(a) is LazyVal:
            a = a.force()
        if type(b) is LazyVal:
            b = b.force()
        if isinstance(a, bool):
            a = 1 if a else 0
        if isinstance(b, bool):
            b = 1 if b else 0
        if a is None or b is None:
            return False
        if isinstance(a, tuple) or isinstance(b, tuple):
            return isinstance(a, tuple) and isinstance(b, tuple) and tuple(a) == tuple(b)
        if isinstance(a, int) and isinstance(b, int):
            return a == b
        return self.eng.branch(a == b)

    def _rows(self, table):
        if table == 'Files':
            return [(rid, r) for rid, r in sorted(self.files.items())]
        if table == 'Deps':
            return [(k, dict(d, target=k[0], source=k[1])) for k, d in sorted(self.deps.items())]
        raise Unsupported('SQL table %r' % table)

    def _match(self, row, conds, vals):
        for (col, _), v in zip(conds, vals):
            if col not in row:
                raise Unsupported('SQL column %r' % col)
            if not self._eq(row[col], v):
                return False
        return True

    def _force_lazy_deps(self, conds, vals):
        for (col, _), v in zip(conds, vals):
            if col == 'target':
                t = v if isinstance(v, int) else self.eng.concrete(v, 'target id')
                if t in self.deps_lazy:
                    self.deps_lazy.pop(t)()
                return
        for t in list(self.deps_lazy):
            self.deps_lazy.pop(t)()

    def sql_query(self, eng, sql, params, sp):
        params = list(params)
        m = re.fullmatch(r'select (.*) from Files join Deps on Files.rowid = Deps.source where (.*)', sql)
        if m:
            conds = self._conds(m.group(2))
            vals = [self._lit(t, params) for _, t in conds]
            self._force_lazy_deps(conds, vals)
            out = []
            for k, d in self._rows('Deps'):
                if self._match(d, conds, vals) and k[1] in self.files:
                    fr = self.file_row(k[1])
                    out.append({'cols': [d['mode'], k[1]] + fr['cols'], 'byname': fr['byname']})
            self.ev('sql-select-deps', where=m.group(2), n=len(out))
            return ok(out)
        m = re.fullmatch(r'select (.*) from Files(?: where (.*?))?(?: order by (\w+))?', sql)
        if m:
            conds = self._conds(m.group(2)) if m.group(2) else []
            vals = [self._lit(t, params) for _, t in conds]
            out = []
            rows = self._rows('Files')
            if m.group(3) == 'name':
                rows = sorted(rows, key=lambda kv: bytes(kv[1]['name']))
            for rid, r in rows:
                if self._match(r, conds, vals):
                    out.append(self.file_row(rid))
            self.ev('sql-select-file', where=m.group(2), found=len(out))
            return ok(out)
        raise Unsupported('SQL query not modelled: %r' % sql)

    def sql_execute(self, eng, sql, params, sp):
        f = self.maybe_fail(sql[:40])
        if f is not None:
            return f
        params = list(params)
        m = re.fullmatch(r'update (\w+) set (.*?) where (.*)', sql)
        if m:
            table = m.group(1)
            sets = []
            for part in m.group(2).split(','):
                sm = re.fullmatch(r'\s*(\w+)\s*=\s*(\?|-?\d+)\s*', part)
                if not sm:
                    raise Unsupported('SQL set clause %r' % part)
                sets.append((sm.group(1), self._lit(sm.group(2), params)))
            conds = self._conds(m.group(3))
            vals = [self._lit(t, params) for _, t in conds]
            if table == 'Deps':
                self._force_lazy_deps(conds, vals)
            n = 0
            for k, r in self._rows(table):
                if self._match(r, conds, vals):
                    tgt = self.files[k] if table == 'Files' else self.deps[k]
                    for col, v in sets:
                        tgt[col] = v
                    n += 1
                    if table == 'Files':
                        self.ev('sql-update-file', rowid=k, row={c: tgt[c] for c in FILE_COLS[2:]})
            if table == 'Deps':
                self.ev('sql-update-deps', where=m.group(3), n=n)
            return ok(n)
        m = re.fullmatch(r'delete from (\w+) where (.*)', sql)
        if m:
            table = m.group(1)
            conds = self._conds(m.group(2))
            vals = [self._lit(t, params) for _, t in conds]
            if table == 'Deps':
                self._force_lazy_deps(conds, vals)
            dead = [k for k, r in self._rows(table) if self._match(r, conds, vals)]
            for k in dead:
                if table == 'Files':
                    del self.files[k]
                else:
                    del self.deps[k]
            self.ev('sql-delete', table=table, where=m.group(2), n=len(dead))
            return ok(len(dead))
        m = re.fullmatch(r'insert( or replace)? into (\w+) \((.*?)\) values \((.*?)\)', sql)
        if m:
            table = m.group(2)
            cols = [c.strip() for c in m.group(3).split(',')]
            toks = [t.strip() for t in m.group(4).split(',')]
            if len(cols) != len(toks):
                raise Unsupported('SQL insert column/value mismatch')
            rowv = {c: self._lit(t, params) for c, t in zip(cols, toks)}
            if table == 'Files':
                name = tuple(rowv['name'])
                for r in self.files.values():
                    if tuple(r['name']) == name:
                        if m.group(1):
                            raise Unsupported('insert or replace into Files')
                        return err(sql_error('ConstraintViolation'))
                rid = self.next_rowid
                self.next_rowid += 1
                self.add_file(rid, name, **{c: v for c, v in rowv.items() if c != 'name'})
                self.ev('sql-insert-file', rowid=rid, name=bytes(name).decode('latin-1'))
                return ok(1)
            if table == 'Deps':
                t, src = rowv['target'], rowv['source']
                t = eng.concrete(t, 'target id') if not isinstance(t, int) else t
                src = eng.concrete(src, 'source id') if not isinstance(src, int) else src
                if t in self.deps_lazy:
                    self.deps_lazy.pop(t)()
                if (t, src) in self.deps and not m.group(1):
                    return err(sql_error('ConstraintViolation'))
                dm = rowv.get('delete_me')
                self.deps[(t, src)] = {'mode': tuple(rowv['mode']), 'delete_me': (1 if dm else 0) if isinstance(dm, bool) else dm}
                self.ev('sql-add-dep', target=t, source=src, mode=bytes(rowv['mode']).decode())
                return ok(1)
        raise Unsupported('SQL statement not modelled: %r' % sql)


# ---------------------------------------------------------------------------------------------------- crate objects
def mk(eng, name, **fields):
    order = eng.src.structs[name]
    assert set(order) == set(fields), (name, sorted(set(order) ^ set(fields)))
    return Struct(name, [fields[f] for f in order])


def make_env(eng, runid, **over):
    f = dict(is_toplevel=False, base=Vec(list(BASE), 'PathBuf'), pwd=Vec([], 'PathBuf'),
             target=Struct('RedoPathBuf', [Vec([], 'String')]), depth=Vec([], 'String'), debug=0, debug_locks=False,
             debug_pids=False, locks_broken=False, verbose=0, xtrace=0, keep_going=False, log=0, log_inode=Vec([], 'OsString'),
             color=0, pretty=0, shuffle=False, startdir=Vec(list(BASE), 'PathBuf'), runid=Enum('Option', 'Some', [runid]),
             unlocked=False, no_oob=False, _redo_links_dir=Enum('Option', 'None'))
    f.update(over)
    return mk(eng, 'Env', **f)


def make_process_state(eng, env):
    lm = mk(eng, 'LockManager', file=Opaque('fs::File', 'locks'), locks=Struct('RefCell', [Map('HashSet'), 0]))
    return mk(eng, 'ProcessState', db=Opaque('Connection', None), lock_manager=new_cell(lm), env=env, wrote=0)


def begin(eng, ps_ref, behavior='Immediate'):
    r = eng.call('ProcessTransaction::new', [ps_ref, Enum('TransactionBehavior', behavior)], None, None)
    assert r.var == 'Ok', r
    return r.f[0]


def install_stubs(eng):
    """in-crate leaf functions replaced by the model (listed in the evidence as part of the claim)"""
    def from_metadata(e, ci, a, sp):
        md = deref_all(a[0])
        return ok(Struct('Stamp', [Enum('Cow', 'Owned', [Vec(md.data['stamp'], 'String')])]))
    eng.stubs['state::<impl at src/state.rs:993:1: 993:11>::from_metadata'] = from_metadata
    eng.stubs['Stamp::from_metadata'] = from_metadata
    eng.stubs['debug_level'] = lambda e, ci, a, sp: 0
    eng.stubs['logs::debug_level'] = eng.stubs['debug_level']
    eng.stubs['meta'] = lambda e, ci, a, sp: (e.event('log-meta', kind=bytes(deref_all(a[0]).items).decode(),
                                                    text=repr(deref_all(a[1]))), UNIT)[1]
    eng.stubs['logs::meta'] = eng.stubs['meta']
    eng.stubs['logs::write'] = lambda e, ci, a, sp: UNIT
    install_ouroboros_stubs(eng)
    eng.summaries['symlink_metadata'] = lambda e, ci, a, sp: e.world.stat(e, a[0], False)
    eng.summaries['fs::symlink_metadata'] = eng.summaries['symlink_metadata']
    eng.summaries['Path::symlink_metadata'] = eng.summaries['symlink_metadata']
    eng.summaries['fs::metadata'] = lambda e, ci, a, sp: e.world.stat(e, a[0], True)
    eng.summaries['Path::metadata'] = eng.summaries['fs::metadata']
    eng.summaries['Metadata::file_type'] = lambda e, ci, a, sp: Opaque('FileType', deref_all(a[0]).data)
    eng.summaries['FileType::is_symlink'] = lambda e, ci, a, sp: deref_all(a[0]).data['is_symlink']
    eng.summaries['Metadata::is_dir'] = lambda e, ci, a, sp: deref_all(a[0]).data['is_dir']
    eng.summaries['Metadata::is_file'] = lambda e, ci, a, sp: not deref_all(a[0]).data['is_dir'] and not deref_all(a[0]).data['is_symlink']


def file_struct_fields(eng, f):
    f = deref_all(f)
    o = eng.src.structs['File']
    return {n: f.f[i] for i, n in enumerate(o)}


def load_file(eng, ptx_ref, rowid):
    r = eng.call('state::File::from_id', [ptx_ref, rowid], None, None)
    assert r.var == 'Ok', r
    return r.f[0]


def install_ouroboros_stubs(eng):
    """`Files::list` keeps a Statement and the Rows borrowed from it in an ouroboros self-referencing struct; the generated
    builder/accessor plumbing is replaced by a plain pair (no crate logic lives there)"""
    def try_build(e, ci, a, sp):
        b = a[0]
        stmt_cell = new_cell(b.f[0])
        r = e.call_closure(b.f[1], [stmt_cell])
        if r.var == 'Err':
            return r
        return ok(Struct('FilesRows', [stmt_cell, r.f[0]]))
    eng.stubs['FilesRowsTryBuilder::try_build'] = try_build

    def with_rows_mut(e, ci, a, sp):
        fr = deref_all(a[0])
        return e.call_closure(a[1], [Ref(fr.f, 1)])
    eng.stubs['FilesRows::with_rows_mut'] = with_rows_mut


def install_rdfs_stubs(eng):
    """ouroboros-generated builder/accessor code of paths::RecursiveDoFilesState replaced by a plain record (no crate logic there)"""
    def build(e, ci, a, sp):
        b = a[0]
        np = new_cell(b.f[0])
        dir_bits = e.call_closure(b.f[1], [np])
        ddf = e.call_closure(b.f[2], [np])
        return Struct('RecursiveDoFilesState', [ddf, dir_bits, np])
    eng.stubs['RecursiveDoFilesStateBuilder::build'] = build

    def with_mut(e, ci, a, sp):
        st = deref_all(a[0])
        fields = Struct('BorrowedMutFields', [Ref(st.f, 0), Ref(st.f, 1), st.f[2]])
        return e.call_closure(a[1], [fields])
    eng.stubs['RecursiveDoFilesState::with_mut'] = with_mut
