"""Targeted obligations over the real File/deps/cycles code and the small bin commands (ifcreate, always, stamp, ood,
ifchange::should_build), on top of the symbolic Files/Deps/filesystem model."""
import z3
from mirsym.values import *
from mirsym.engine import PyCallable
from mirsym.summaries.core import some, none, ok, err, deref_all
from mirsym.summaries.env import World
from specs import dbmodel, depscheck, orchestration
from specs.dbmodel import DBWorld, S1, S2, S3, S_MISSING, S_DIR, ALWAYS, BASE
from specs.depscheck import build_world, model_of, to_dbline, fmt_verdict, CLEAN, DIRTY


def cellv(w, rid, col):
    return w.cell(rid, col)


def truth(eng, v):
    if v is None:
        return False
    if isinstance(v, bool):
        return v
    return eng.branch(v)


def setup_tx(eng, w, R, **envover):
    env = dbmodel.make_env(eng, R, **envover)
    ps = dbmodel.make_process_state(eng, env)
    psr = new_cell(ps)
    ptx = dbmodel.begin(eng, psr)
    return new_cell(ptx), psr, env


# ------------------------------------------------------------------------------------------------ roles (C17, C11)
def roles_partition(chk):
    """File::is_source / is_target over every row x filesystem state"""
    eng = chk.eng
    st = {}

    def run():
        w, R, ids = build_world(eng, 1, 0, with_always=False)
        k = eng.choose(2, 'special name')
        if k == 1:
            w.files[ids[0]]['name'] = tuple(b'//ALWAYS')
            w.files[ids[0]]['is_generated'] = None      # invariant of real histories: pseudo files are never marked generated
            w.fs[tuple(b'//ALWAYS')] = None
        st.update(w=w, R=R, ids=ids, special=(k == 1))
        ptxr, psr, env = setup_tx(eng, w, R)
        f = dbmodel.load_file(eng, ptxr, ids[0])
        fr = new_cell(f)
        envr = new_cell(env)
        s = eng.call('state::File::is_source', [fr, envr], None, None)
        t = eng.call('state::File::is_target', [fr, envr], None, None)
        return s, t

    def judge(outcome, val, path):
        w, R, ids = st['w'], st['R'], st['ids']
        m = model_of(eng, w, R, ids)
        wit = {'line': to_dbline(m, ids[0], 'roles'), 'model': m}
        if outcome == 'panic':
            return {'role': 'roles-panic', 'kind': 'dbstate', 'real': 'PANIC', 'ref': '-', 'what': 'is_source/is_target panics: ' + val.msg,
                    'witness': wit}
        s, t = val
        if s.var != 'Ok' or t.var != 'Ok':
            return None
        S, T = s.f[0], t.f[0]
        rid = ids[0]
        gen = cellv(w, rid, 'is_generated')
        ovr = cellv(w, rid, 'is_override')
        fs = w.fs_stamp(w.files[rid]['name'])
        stamp = cellv(w, rid, 'stamp')
        exists = fs is not None
        as_recorded = stamp is not None and tuple(stamp) == (tuple(fs) if fs is not None else tuple(S_MISSING))

        def viol(formula):
            return formula is True or (formula is not False and eng.check(formula))
        both = b_and(S, T)
        chk.goal('roles: some state is a source', not viol(b_not(S)) or viol(S))
        chk.goal('roles: some state is a target', viol(T))
        bad = None
        if viol(both):
            bad = ('both', both)
        elif st['special'] and viol(b_or(S, T)):
            bad = ('special-name-listed', b_or(S, T))
        elif not st['special']:
            g = gen if gen is not None else False
            o = ovr if ovr is not None else False
            # existing and not generated => source (and not target)
            if exists:
                f1 = b_and(b_not(g), b_not(S))
                if viol(f1):
                    bad = ('existing-non-generated-not-source', f1)
            if bad is None and exists and as_recorded:
                f2 = b_and(b_and(g, b_not(o)), b_not(T))
                if viol(f2):
                    bad = ('generated-as-recorded-not-target', f2)
            # together they cover exactly the known files that exist or were generated
            if bad is None:
                f3 = b_and(g if not exists else True, b_and(b_not(S), b_not(T)))
                if viol(f3):
                    bad = ('existing-or-generated-file-in-neither-list', f3)
                    chk.goal('roles: a generated file that no longer exists is met', not exists)
            if bad is None and not exists:
                chk.goal('roles: a generated file that no longer exists is met', viol(g))
                f4 = b_and(b_not(g), b_or(S, T))
                if viol(f4):
                    bad = ('vanished-non-generated-file-listed', f4)
        if bad:
            m = model_of(eng, w, R, ids, bad[1] if not isinstance(bad[1], bool) else None)
            mm = eng.model(bad[1] if not isinstance(bad[1], bool) else None)

            def ev(x):
                if isinstance(x, bool):
                    return x
                return z3.is_true(mm.eval(x, model_completion=True))
            exp = 'source=%s,target=%s' % ('true' if ev(S) else 'false', 'true' if ev(T) else 'false')
            return {'role': 'roles:' + bad[0], 'kind': 'dbstate', 'real': exp, 'ref': '-', 'witness': {'line': to_dbline(m, ids[0], 'roles'), 'model': m},
                    'what': 'is_source/is_target: %s (%s)' % (bad[0], exp),
                    'expect': {'type': 'contains', 'text': 'VERDICT=' + exp}}
        return None

    chk.explore('is_source / is_target partition', run, judge)


# ------------------------------------------------------------------------------------------------ set_failed (C05)
def set_failed_facts(chk):
    eng = chk.eng
    st = {}

    def run():
        w, R, ids = build_world(eng, 1, 0, with_always=False)
        st.update(w=w, R=R, ids=ids)
        ptxr, psr, env = setup_tx(eng, w, R)
        f = dbmodel.load_file(eng, ptxr, ids[0])
        fr = new_cell(f)
        r = eng.call('state::File::set_failed', [fr, new_cell(env)], None, None)
        if r.var == 'Ok':
            eng.call('state::File::save', [fr, ptxr], None, None)
        return r

    def judge(outcome, val, path):
        w, R, ids = st['w'], st['R'], st['ids']
        if outcome != 'ok' or val.var != 'Ok':
            return None
        row = w.files[ids[0]]
        fs = w.fs_stamp(row['name'])
        fr = row['failed_runid']
        bad = None
        if fr is None or eng.check(fr != R):
            bad = 'failed_runid is not the current run'
        else:
            g = row['is_generated']
            want = fs is not None
            if (isinstance(g, bool) and g != want) or (not isinstance(g, bool) and eng.check(g != want)):
                bad = 'is_generated after a failure should be %s (file %s)' % (want, 'exists' if want else 'is missing')
        chk.goal('set_failed: file missing afterwards', fs is None)
        chk.goal('set_failed: file still there', fs is not None)
        if bad:
            m = model_of(eng, w, R, ids)
            return {'role': 'set_failed:' + bad.split(' ')[0], 'kind': 'dbstate', 'real': '-', 'ref': '-',
                    'witness': {'line': to_dbline(m, ids[0], 'set_failed'), 'model': m}, 'what': 'File::set_failed: ' + bad,
                    'expect': {'type': 'always'}}
        return None

    chk.explore('set_failed marks the row failed in this run', run, judge)


# ------------------------------------------------------------------------------------------------ should_build (C05, C03)
def should_build_facts(chk):
    """ifchange::should_build: a target that already failed in this run is refused with exit 32; a checksummed target that is its
    own only uncertainty is simply Dirty; otherwise the kernel verdict is passed on"""
    eng = chk.eng
    orchestration.install_proc_stubs(eng)
    st = {}

    def run():
        w, R, ids = build_world(eng, 2, 1)
        st.update(w=w, R=R, ids=ids)
        snap = depscheck.snapshot(w)
        ptxr, psr, env = setup_tx(eng, w, R)
        name = w.files[ids[0]]['name']
        path = Struct('RedoPath', [Bytes(list(BASE) + [47] + list(name), 'str')])
        r = eng.call('ifchange::should_build', [ptxr, new_cell(path)], None, None)
        ref = depscheck.RefEval(eng, w, snap[0], snap[1], snap[2], R)
        failed = ref.cell(ids[0], 'failed_runid')
        failed_now = failed is not None and eng.branch(z3.And(failed != 0, failed >= R))
        try:
            ov = ref.verdict(ids[0], R)
        except depscheck.CyclicRef:
            ov = ('Err', 'CyclicDependency')
        return r, failed_now, ov

    def judge(outcome, val, path):
        w, R, ids = st['w'], st['R'], st['ids']
        if outcome != 'ok':
            if outcome == 'panic':
                m = model_of(eng, w, R, ids)
                return {'role': 'should_build-panics', 'kind': 'none', 'what': 'should_build panics: ' + val.msg, 'witness': {'model': m}}
            return None
        r, failed_now, ov = val
        chk.goal('should_build: a failed-this-run target is met', failed_now)
        bad = None
        if failed_now:
            okk = r.var == 'Err'
            if okk:
                kind = r.f[0].f[eng.src.structs['RedoError'].index('kind')]
                okk = isinstance(kind, Enum) and kind.var == 'ImmediateExit' and kind.f[0] == 32
            if not okk:
                bad = 'a target that failed in this run is not refused with ImmediateExit(32): %r' % (r,)
        elif r.var == 'Ok':
            d = r.f[0].f[1]
            rv = CLEAN if d.var == 'Clean' else (DIRTY if d.var == 'Dirty' else
                                                 [dbmodel.file_struct_fields(eng, f)['id'] for f in d.f[0].items])
            want = ov
            if isinstance(ov, list) and ov == [ids[0]]:
                want = DIRTY
                chk.goal('should_build: own checksum uncertainty collapses to Dirty')
            if isinstance(want, tuple):
                bad = 'should_build succeeds where the kernel reports %s' % (want,)
            elif rv != want:
                bad = 'should_build passes on %s, expected %s' % (fmt_verdict(rv), fmt_verdict(want))
        if bad:
            m = model_of(eng, w, R, ids)
            c = {'role': 'should_build:' + bad.split(' ')[0] + bad.split(' ')[1], 'kind': 'none', 'what': 'ifchange::should_build: ' + bad,
                 'witness': {'line': to_dbline(m, ids[0], 'materialise'), 'model': m}}
            if failed_now:
                # replay: materialise the state, then run the real `redo-ifchange <target>` as a sub-redo of that run: it must
                # refuse with exit status 32 and must not run the target's script
                c['kind'] = 'subredo'
                c['target_name'] = bytes(w.files[ids[0]]['name']).decode('latin-1')
                c['runid'] = m['runid']
                c['expect_rc'] = 32
            return c
        return None

    chk.explore('ifchange::should_build', run, judge)


# ------------------------------------------------------------------------------------------------ two-phase deps (C02)
def two_phase_edges(chk):
    """zap_deps1; add_dep(d) for d in D; zap_deps2  leaves Deps(T) == D (all delete_me = 0); without zap_deps2 the old
    edges are still there"""
    eng = chk.eng
    st = {}

    def run():
        w, R, ids = build_world(eng, 3, 2, with_always=False, edge_modes=(None, b'm', b'c'))
        st.update(w=w, R=R, ids=ids)
        T = ids[0]
        if T in w.deps_lazy:
            w.deps_lazy.pop(T)()
        for t in list(w.deps_lazy):
            w.deps_lazy.pop(t)
        old = {k: dict(v) for k, v in w.deps.items() if k[0] == T}
        st['old'] = old
        ptxr, psr, env = setup_tx(eng, w, R)
        f = dbmodel.load_file(eng, ptxr, T)
        fr = new_cell(f)
        eng.call('state::File::zap_deps1', [fr, ptxr], None, None)
        D = []
        for s in ids[1:]:
            k = eng.choose(3, 'declare %d' % s)
            if k:
                mode = 'Modified' if k == 1 else 'Created'
                D.append((s, b'm' if k == 1 else b'c'))
                name = w.files[s]['name']
                r = eng.call('state::File::add_dep::<Path>', [fr, ptxr, Enum('DepMode', mode), Bytes(list(BASE) + [47] + list(name), 'Path')],
                             None, None)
                assert r.var == 'Ok', r
        st['D'] = D
        st['mid'] = {k: dict(v) for k, v in w.deps.items() if k[0] == T}
        finish = eng.choose(2, 'job finishes (zap_deps2)')
        st['finish'] = finish
        if finish:
            eng.call('state::File::zap_deps2', [fr, ptxr], None, None)
        return None

    def judge(outcome, val, path):
        w, ids = st['w'], st['ids']
        T = ids[0]
        if outcome != 'ok':
            return {'role': 'two-phase:' + outcome, 'kind': 'none', 'what': 'two-phase edge replacement: %s %s' % (outcome, val), 'witness': {}}
        now = {k: v for k, v in w.deps.items() if k[0] == T}
        D = dict(((T, s), m) for s, m in st['D'])
        chk.goal('two-phase: an old edge is dropped', st['finish'] and any(k not in D for k in st['old']))
        chk.goal('two-phase: an old edge is re-declared', any(k in D for k in st['old']))
        bad = None
        if st['finish']:
            if set(now) != set(D):
                bad = 'after the build Deps(T) = %r but the script declared %r' % (sorted(now), sorted(D))
            else:
                for k, m in D.items():
                    if tuple(now[k]['mode']) != tuple(m) or now[k]['delete_me'] not in (0, False):
                        bad = 'edge %r recorded as %r' % (k, now[k])
        else:
            for k in st['old']:
                if k not in now:
                    bad = 'old edge %r vanished although the job never finished' % (k,)
        if bad:
            R = st['R']
            m = model_of(eng, w, R, ids)
            # native replay: the same prior edges, the same declarations, on a real database
            m['deps'] = [[t, s_, bytes(d['mode']).decode(), 0] for (t, s_), d in st['old'].items()]
            decl = ','.join('%s-%s' % (bytes(w.files[s_]['name']).hex(), mm.decode()) for s_, mm in st['D'])
            line = to_dbline(m, T, 'twophase:%d:%s' % (1 if st['finish'] else 0, decl))
            want = sorted('%d>%d:%s:0' % (T, s_, mm.decode()) for s_, mm in st['D'])
            old_keys = sorted('%d>%d' % k for k in st['old'])
            fin = st['finish']

            return {'role': 'two-phase:' + ('finished' if st['finish'] else 'unfinished'), 'kind': 'dbstate', 'real': '-', 'ref': '-',
                    'what': 'two-phase edge replacement: ' + bad,
                    'expect': {'type': 'twophase', 'want': want, 'old_keys': old_keys, 'finish': bool(fin), 'T': T},
                    'witness': {'line': line, 'old': sorted(st['old']), 'declared': st['D']}}
        return None

    chk.explore('two-phase replacement of the dependency list', run, judge)


# ------------------------------------------------------------------------------------------------ quiescent / memo (C02)
def quiet_and_memo(chk, nfiles=2):
    """(a) in a quiescent state (every stamp as on disk, nothing failed, no dependency changed after its consumer, no ALWAYS,
    no ifcreate path existing) every target is Clean; (b) a file checked in this run is Clean without touching the disk"""
    eng = chk.eng
    st = {}

    def run():
        w, R, ids = build_world(eng, nfiles, nfiles, with_always=False)
        st.update(w=w, R=R, ids=ids)
        mode = eng.choose(2, 'quiescent | memo')
        st['mode'] = mode
        if mode == 0:
            for i in ids:
                row = w.files[i]
                row['failed_runid'] = None
                ch = z3.Int('q_changed_%d' % i)
                eng.assume(z3.And(ch > 0, ch < R))
                row['changed_runid'] = ch
                ck = z3.Int('q_checked_%d' % i)
                eng.assume(z3.And(ck >= 0, ck < R))
                row['checked_runid'] = LazyVal(lambda ck=ck: (None if eng.choose(2, 'checked null') else ck), 'checked')
                row['stamp'] = tuple(S1)
                w.fs[tuple(row['name'])] = tuple(S1)
            # edges: only m-edges whose source did not change after max(changed, checked) of the target; c-edges to absent paths
            w.quiet = True
        else:
            row = w.files[ids[0]]
            row['failed_runid'] = None
            ch = z3.Int('m_changed')
            ck = z3.Int('m_checked')
            eng.assume(z3.And(ch <= R, ck >= R, ck != 0))
            row['changed_runid'] = ch
            row['checked_runid'] = ck
        r, fr, ptxr, psr = depscheck.call_is_dirty(eng, w, R, ids[0])
        return depscheck.real_verdict(eng, r)

    def judge(outcome, val, path):
        w, R, ids = st['w'], st['R'], st['ids']
        if outcome != 'ok':
            return None
        rv = val
        if st['mode'] == 1:
            chk.goal('memo: reached')
            stats = [d for k, d in w.log if k in ('stat', 'exists')]
            if rv != CLEAN or stats:
                m = model_of(eng, w, R, ids)
                return {'role': 'memo-not-honoured', 'kind': 'dbstate', 'real': fmt_verdict(rv), 'ref': 'Clean',
                        'what': 'a file already checked in this run is answered %s%s' % (fmt_verdict(rv), ' after touching the disk' if stats else ''),
                        'witness': {'line': to_dbline(m, ids[0]), 'model': m}}
            return None
        # quiescent: check the edge premises on the path actually taken; skip states that violate them
        for (t, s), d in w.deps.items():
            if tuple(d['mode']) == (99,):
                if w.fs_stamp(w.files[s]['name']) is not None:
                    return None
            else:
                cht = w.cell(t, 'changed_runid')
                ckt = w.cell(t, 'checked_runid')
                chs = w.cell(s, 'changed_runid')
                ckt = 0 if ckt is None else ckt
                lim = z3.If(cht > ckt, cht, ckt) if not isinstance(ckt, int) or True else cht
                if eng.check(chs > lim):
                    if not eng.check(chs <= lim):
                        return None
                    eng.assume(chs <= lim)
        if isinstance(rv, tuple):
            return None      # cycles are C12's subject
        chk.goal('quiescent: a target with a dependency', len(w.deps) > 0)
        if rv != CLEAN:
            # only generated, non-overridden files consult their edges; all rows here are quiescent, so any non-Clean is over-building
            m = model_of(eng, w, R, ids)
            return {'role': 'over-building-in-quiescent-state', 'kind': 'dbstate', 'real': fmt_verdict(rv), 'ref': 'Clean',
                    'what': 'nothing changed since the last successful build, yet is_dirty answers %s' % fmt_verdict(rv),
                    'witness': {'line': to_dbline(m, ids[0]), 'model': m}}
        return None

    chk.explore('quiescent state is Clean; checked-this-run is memoised', run, judge)


# ------------------------------------------------------------------------------------------------ cycles (C12)
class EnvWorld(World):
    def __init__(self, eng, env=None):
        self.eng = eng
        self.envmap = dict(env or {})
        self.log = []

    def getenv(self, eng, k, os_string=True):
        v = self.envmap.get(k)
        if v is None:
            return none() if os_string else err(Enum('VarError', 'NotPresent'))
        val = Vec(list(v), 'OsString' if os_string else 'String')
        return some(val) if os_string else ok(val)

    def setenv(self, eng, k, v):
        self.envmap[k] = [ord(c) for c in v] if isinstance(v, str) else v
        self.log.append(('setenv', k))

    def fcntl(self, eng, fd, arg, sp):
        self.log.append(('fcntl', repr(arg)[:40]))
        eng.event('fcntl')
        return ok(0)


def cycles_facts(chk):
    """cycles::add / cycles::check through the real REDO_CYCLES string encoding, and Lock::try_lock / wait_lock consulting it
    before any fcntl"""
    eng = chk.eng
    st = {}
    eng.summaries['AsRawFd::as_raw_fd'] = lambda e, ci, a, sp: 9
    eng.stubs['fid_flock'] = lambda e, ci, a, sp: ok(Opaque('flock', a[1]))

    def ids_str(xs):
        return ':'.join(str(x) for x in xs)

    def run():
        # ids are decimal strings: include ids that are substrings / prefixes / suffixes of one another
        inherited = [[], [7], [7, 12], [21], [112, 5]][eng.choose(5, 'inherited REDO_CYCLES')]
        w = EnvWorld(eng, {'REDO_CYCLES': [ord(c) for c in ids_str(inherited)]} if inherited else {})
        eng.world = w
        st.update(w=w, inherited=inherited)
        addid = [None, 7, 12, 31, 2, 1][eng.choose(6, 'lock id added by this job')]
        st['added'] = addid
        if addid is not None:
            eng.call('cycles::add::<String>', [Vec(list(str(addid).encode()), 'String')], None, None)
        probe = [7, 12, 31, 1, 3, 2, 21][eng.choose(7, 'lock id probed')]
        st['probe'] = probe
        # through the Lock API: check must come before fcntl
        lm = dbmodel.mk(eng, 'LockManager', file=Opaque('fs::File', 'locks'), locks=Struct('RefCell', [Map('HashSet'), 0]))
        lock = dbmodel.mk(eng, 'Lock', manager=new_cell(lm), owned=False, fid=probe)
        how = eng.choose(2, 'try_lock | wait_lock')
        st['how'] = how
        if how == 0:
            return eng.call('state::Lock::try_lock', [new_cell(lock)], None, None)
        return eng.call('state::Lock::wait_lock', [new_cell(lock), Enum('LockType', 'Exclusive')], None, None)

    def judge(outcome, val, path):
        w = st['w']
        if outcome != 'ok':
            return {'role': 'cycles:' + outcome, 'kind': 'none', 'what': 'cycle bookkeeping: %s %s' % (outcome, val), 'witness': dict(st, w=None)}
        held = set(st['inherited']) | ({st['added']} if st['added'] is not None else set())
        should_fail = st['probe'] in held
        chk.goal('cycles: a held lock id is probed', should_fail)
        chk.goal('cycles: a free lock id is probed', not should_fail)
        is_cyc = val.var == 'Err' and val.f[0].f[eng.src.structs['RedoError'].index('kind')].var == 'CyclicDependency'
        touched = any(k == 'fcntl' for k, d in w.log)
        bad = None
        if should_fail and not is_cyc:
            bad = 'lock %d is held by an ancestor (REDO_CYCLES=%r) but the attempt is not refused as a cyclic dependency' % (st['probe'], sorted(held))
        elif should_fail and touched:
            bad = 'fcntl is reached although the lock is held by an ancestor'
        elif not should_fail and is_cyc:
            bad = 'lock %d is reported cyclic although no ancestor holds it (%r)' % (st['probe'], sorted(held))
        elif not should_fail and not touched:
            bad = 'lock attempt on a free id never reaches fcntl'
        if bad:
            return {'role': 'cycles:' + ('missed' if should_fail else 'spurious'), 'kind': 'cycles', 'what': 'cycle detection: ' + bad,
                    'witness': {'inherited': st['inherited'], 'added': st['added'], 'probe': st['probe'],
                                'line': '%s %s %d' % (ids_str(st['inherited']) or '-', st['added'] if st['added'] is not None else '-', st['probe'])},
                    'expect_native': 'CYCLIC' if should_fail else 'FREE'}
        return None

    chk.explore('cycles::add/check and Lock::{try_lock,wait_lock}', run, judge)


# ------------------------------------------------------------------------------------------------ bin commands on the model
class CmdWorld(DBWorld):
    """DBWorld + argv/env for the small bin commands"""

    def __init__(self, eng, runid, argv, target=b'tgt'):
        DBWorld.__init__(self, eng, runid)
        self._argv = argv
        self.target = target
        self.stdout = []

    def argv(self, eng):
        return self._argv

    def getenv(self, eng, k, os_string=True):
        return none() if os_string else err(Enum('VarError', 'NotPresent'))

    def setenv(self, eng, k, v):
        pass

    # the command may run in a directory other than the one its .do file lives in (`cd sub && redo-ifcreate x`)
    cmd_cwd = None

    def current_dir(self, eng):
        return ok(Vec(list(self.cmd_cwd or BASE), 'PathBuf'))

    def rel(self, path):
        items = tuple(deref_all(path).items)
        if not all(isinstance(x, int) for x in items):
            raise Unsupported('symbolic path in fs model')
        b = bytes(items)
        if not b.startswith(b'/'):
            b = (self.cmd_cwd or BASE) + b'/' + b
        if b.startswith(BASE + b'/'):
            return tuple(b[len(BASE) + 1:])
        return tuple(b)


def install_cmd_stubs(eng, R, target=b'tgt', **envover):
    def env_ok(e, ci, a, sp):
        return ok(dbmodel.make_env(e, R, target=Struct('RedoPathBuf', [Vec(list(target), 'String')]), **envover))
    for n in ('Env::inherit', 'redo::Env::inherit', 'env::<impl at src/env.rs:85:1: 85:9>::inherit', 'Env::init', 'redo::Env::init',
              'env::<impl at src/env.rs:85:1: 85:9>::init'):
        eng.stubs[n] = env_ok

    def ps_init(e, ci, a, sp):
        return ok(dbmodel.make_process_state(e, a[0]))
    for n in ('ProcessState::init', 'redo::ProcessState::init', 'state::<impl at src/state.rs:85:1: 85:18>::init'):
        eng.stubs[n] = ps_init
    for n in ('LogBuilder::setup', 'logs::<impl at src/logs.rs:283:1: 283:16>::setup', 'redo::logs::LogBuilder::setup'):
        eng.stubs[n] = lambda e, ci, a, sp: UNIT
    eng.summaries['<LogBuilder as From>::from'] = lambda e, ci, a, sp: Opaque('LogBuilder')


def ifcreate_always_facts(chk):
    """redo-ifcreate: existing path => error and nothing committed; absent => a `c` edge is committed.
    redo-always: an `m` edge to //ALWAYS is committed and ALWAYS is stamped changed in this run."""
    eng = chk.eng
    st = {}

    def run():
        R = z3.Int('R')
        eng.assume(z3.And(R > 0, R < (1 << 62)))
        which = eng.choose(2, 'ifcreate | always')
        st['which'] = which
        w = CmdWorld(eng, R, [b'redo-ifcreate', b'watched'] if which == 0 else [b'redo-always'])
        eng.world = w
        st.update(w=w, R=R)
        w.sym_file(1, ALWAYS, tag='always', fs_choices=(None,), stamp_choices=(None,), csum_choices=(None,),
                   fixed={'is_generated': None, 'is_override': None, 'checked_runid': None, 'failed_runid': None})
        w.sym_file(2, b'tgt')
        # the script may have changed directory before calling the command: names are the caller's, relative to ITS cwd
        sub = eng.choose(2, 'command runs in a subdirectory of the script directory') if which == 0 else 0
        st['sub'] = sub
        if sub:
            w.cmd_cwd = BASE + b'/sub'
            w.fs[tuple(b'sub')] = tuple(S_DIR)
        w.fs[tuple(b'watched')] = LazyVal(lambda: [None, tuple(S1)][eng.choose(2, 'watched exists next to the script')], 'watched')
        w.fs[tuple(b'sub/watched')] = LazyVal(lambda: [None, tuple(S1)][eng.choose(2, 'sub/watched exists')], 'sub/watched')
        install_cmd_stubs(eng, R)
        return eng.call('ifcreate::run' if which == 0 else 'always::run', [], None, None)

    def judge(outcome, val, path):
        w, R = st['w'], st['R']
        if outcome not in ('ok',):
            return {'role': 'ifcreate-always:' + outcome, 'kind': 'none', 'what': '%s: %s %s' % (['redo-ifcreate', 'redo-always'][st['which']], outcome, val),
                    'witness': {}}
        committed = any(k == 'sql-commit' for k, d in w.log)
        bad = None
        if st['which'] == 0:
            wname = b'sub/watched' if st['sub'] else b'watched'
            exists = w.fs_stamp(wname) is not None
            chk.goal('ifcreate: watched path exists', exists)
            chk.goal('ifcreate: watched path absent', not exists)
            chk.goal('ifcreate: called from another directory than the script\'s', bool(st['sub']))
            wid = [rid for rid, r in w.files.items() if tuple(r['name']) == tuple(wname)]
            edge = [d for (t, s), d in w.deps.items() if t == 2 and wid and s == wid[0]]
            if exists:
                if val.var != 'Err':
                    bad = 'declaring redo-ifcreate for an existing path is not an error'
                elif committed and edge:
                    bad = 'an edge was committed for an existing path'
            else:
                if val.var != 'Ok':
                    bad = 'redo-ifcreate on an absent path fails: %r' % (val,)
                elif not (committed and edge and tuple(edge[0]['mode']) == (99,) and edge[0]['delete_me'] in (0, False)):
                    bad = 'no committed created-mode edge (%r, committed=%s)' % (edge, committed)
        else:
            edge = w.deps.get((2, 1))
            ch = w.cell(1, 'changed_runid')
            if val.var != 'Ok':
                bad = 'redo-always fails: %r' % (val,)
            elif not (committed and edge and tuple(edge['mode']) == (109,)):
                bad = 'no committed m-edge to //ALWAYS'
            elif ch is None or eng.check(ch != R):
                bad = '//ALWAYS is not stamped as changed in this run'
            elif w.cell(1, 'stamp') is None or tuple(w.cell(1, 'stamp')) != tuple(S_MISSING):
                # with a NULL stamp the pseudo file is "never built": a target that depends on it stays dirty even after it was
                # rebuilt in this run, i.e. it is rebuilt once per dependent instead of once per run
                bad = '//ALWAYS stamp is %r after redo-always (must be the "missing" stamp, else dependents are rebuilt more than once per run)' % (w.cell(1, 'stamp'),)
            chk.goal('always: reached')
        if bad:
            c = {'role': 'ifcreate-always:' + bad.split(' ')[0], 'kind': 'none', 'what': bad, 'witness': {'sub': st.get('sub')}}
            if st['which'] == 1:
                c.update(kind='scenario', files=orchestration.ALWAYS_FILES, script=orchestration.ALWAYS_SCRIPT, violated='always_more_than_once')
            else:
                c.update(kind='scenario', files=orchestration.IFCREATE_FILES, script=orchestration.IFCREATE_SCRIPT, violated='ifcreate_wrong_dir')
            return c
        return None

    chk.explore('redo-ifcreate / redo-always record the right edge', run, judge)


def stamp_facts(chk):
    """redo-stamp: equal digest => checked in this run, changed_runid untouched; different => changed in this run, csum replaced"""
    eng = chk.eng
    st = {}
    # SHA-1 itself is outside the claim: the digest of stdin is an environment choice (handlers read it from the world)
    eng.summaries['unistd::isatty'] = lambda e, ci, a, sp: ok(False)
    eng.summaries['Digest::new'] = lambda e, ci, a, sp: Opaque('Sha1')
    eng.summaries['Sha1::new'] = eng.summaries['Digest::new']
    eng.summaries['io::copy'] = lambda e, ci, a, sp: ok(0)
    eng.summaries['io::stdin'] = lambda e, ci, a, sp: Opaque('Stdin')
    eng.summaries['stdin'] = eng.summaries['io::stdin']
    eng.summaries['Digest::finalize'] = lambda e, ci, a, sp: Opaque('Digest', None)
    eng.summaries['Argument::new_lower_hex'] = lambda e, ci, a, sp: Struct('FmtArg', ['display', Bytes(list(e.world.digest), 'str')])

    def run():
        R = z3.Int('R')
        eng.assume(z3.And(R > 0, R < (1 << 62)))
        w = CmdWorld(eng, R, [b'redo-stamp'])
        eng.world = w
        st.update(w=w, R=R)
        w.sym_file(2, b'tgt', csum_choices=(None, b'aaaa', b'bbbb'))
        st['before'] = dict(w.files[2])
        install_cmd_stubs(eng, R)
        digest = [b'aaaa', b'bbbb'][eng.choose(2, 'digest of stdin')]
        st['digest'] = digest
        w.digest = digest
        return eng.call('stamp::run', [], None, None)

    def judge(outcome, val, path):
        w, R = st['w'], st['R']
        if outcome != 'ok' or val.var != 'Ok':
            return {'role': 'stamp:' + outcome, 'kind': 'none', 'what': 'redo-stamp: %s %s' % (outcome, val), 'witness': {}}
        b = st['before']
        old = b['csum'].force() if type(b['csum']) is LazyVal else b['csum']
        same = old is not None and tuple(old) == tuple(st['digest'])
        row = w.files[2]
        chk.goal('stamp: digest unchanged', same)
        chk.goal('stamp: digest changed', not same)
        bad = None
        committed = any(k == 'sql-commit' for k, d in w.log)
        if not committed:
            bad = 'nothing committed'
        elif same:
            if row['checked_runid'] is None or eng.check(row['checked_runid'] != R):
                bad = 'unchanged digest: not marked checked in this run'
            else:
                oldch = b['changed_runid'].force() if type(b['changed_runid']) is LazyVal else b['changed_runid']
                newch = row['changed_runid']
                if (oldch is None) != (newch is None) or (oldch is not None and eng.check(oldch != newch)):
                    bad = 'unchanged digest: changed_runid was modified'
        else:
            if row['changed_runid'] is None or eng.check(row['changed_runid'] != R):
                bad = 'changed digest: not marked changed in this run'
            elif row['csum'] is None or tuple(row['csum']) != tuple(st['digest']):
                bad = 'changed digest: csum not replaced'
        if not bad and row['failed_runid'] is not None:
            # record_new_state leaves changed_runid / failed_runid to redo-stamp for a target that was stamped in this run;
            # if the failure mark of an earlier run survives, the rebuilt target stays dirty and is rebuilt for every dependent
            bad = 'failure mark: failed_runid is still %r after redo-stamp (the target can never become clean again)' % (row['failed_runid'],)
        if not bad and not surely(eng, row['is_generated']):
            bad = 'generated flag: the stamped target is not marked generated'
        if bad:
            return {'role': 'stamp:' + bad.split(':')[0].replace(' ', '-'), 'kind': 'scenario', 'what': 'redo-stamp: ' + bad, 'witness': {},
                    'files': orchestration.STAMP_FAIL_FILES, 'script': orchestration.STAMP_FAIL_SCRIPT, 'violated': 'stamped_target_stays_dirty'}
        return None

    chk.explore('redo-stamp: changed vs checked marking, failure mark cleared', run, judge)


def surely(eng, v):
    if v is None:
        return False
    if isinstance(v, (bool, int)):
        return bool(v)
    if z3.is_bool(v):
        return not eng.check(z3.Not(v))
    return not eng.check(v == 0)


def _install_print(eng):
    def _print(e, ci, a, sp):
        # render now: the arguments borrow locals that the caller's loop overwrites
        try:
            from mirsym.summaries.core import format_arguments
            items = format_arguments(e, deref_all(a[0]))
            e.world.printed.append(bytes(items).decode('latin-1') if all(isinstance(x, int) for x in items) else None)
        except Unsupported:
            e.world.printed.append(None)
        return UNIT
    eng.summaries['_print'] = _print
    eng.summaries['io::_print'] = eng.summaries['_print']
    eng.summaries['print::_print'] = eng.summaries['_print']


def ood_facts(chk, nfiles=2):
    """redo-ood: uses the same kernel with in-memory bookkeeping and commits nothing; every target that the builder-side
    verdict calls not Clean is listed (lower bound) and nothing is listed in a state where the builder verdict of every target
    is Clean"""
    eng = chk.eng
    st = {}
    _install_print(eng)

    def run():
        w, R, ids = build_world(eng, nfiles, nfiles, row_kw=dict(stamp_choices=(S1,), fs_choices=(None, S1, S2)),
                                fixed={i + 2: {'failed_runid': None, 'is_override': False} for i in range(nfiles)})
        st.update(w=w, R=R, ids=ids)
        w._argv = [b'redo-ood']
        w.argv = lambda e: w._argv
        w.getenv = lambda e, k, os_string=True: (none() if os_string else err(Enum('VarError', 'NotPresent')))
        w.setenv = lambda e, k, v: None
        w.printed = []
        snap = depscheck.snapshot(w)
        st['snap'] = snap
        install_cmd_stubs(eng, R)
        # record what the kernel answers for each file redo-ood asks about (the real body runs; the wrapper only listens)
        st['verdicts'] = []
        body_name = eng.parse_callee('redo::is_dirty').target or eng.parse_callee('is_dirty').target

        def listen(e, ci, a, sp):
            r = e.run_body(e.body(body_name), a)
            if r.var == 'Ok':
                fid = dbmodel.file_struct_fields(e, a[1])['id']
                st['verdicts'].append((e.concrete(fid, 'file id'), depscheck.real_verdict(e, r)))
            return r
        eng.stubs[body_name] = listen
        try:
            r = eng.call('ood::run', [], None, None)
        finally:
            eng.stubs.pop(body_name, None)
        eng.drop_value  # (ptx is dropped inside run: rollback)
        return r

    def judge(outcome, val, path):
        w, R, ids = st['w'], st['R'], st['ids']
        if outcome != 'ok':
            return {'role': 'ood:' + outcome, 'kind': 'none', 'what': 'redo-ood: %s %s' % (outcome, val), 'witness': {}}
        if val.var != 'Ok':
            return None
        chk.goal('ood: something is listed', len(w.printed) > 0)
        chk.goal('ood: nothing is listed', len(w.printed) == 0)
        bad = None
        if any(k == 'sql-commit' for k, d in w.log):
            bad = 'redo-ood commits a transaction'
        else:
            # after the implicit rollback the tables must equal the snapshot
            files0 = st['snap'][0]
            for rid, row in w.files.items():
                for col, v in row.items():
                    v0 = files0[rid][col]
                    if type(v0) is LazyVal:
                        v0 = v0.force() if v0.forced else v0
                    if type(v) is LazyVal:
                        v = v.force() if v.forced else v
                    if v is not v0 and not (isinstance(v, (int, bool, tuple, type(None))) and v == v0):
                        if is_sym(v) and is_sym(v0) and v.eq(v0):
                            continue
                        bad = 'row %d column %s differs after redo-ood: %r -> %r' % (rid, col, v0, v)
        if bad:
            return {'role': 'ood:' + bad.split(' ')[0], 'kind': 'scenario', 'what': bad, 'witness': {},
                    'files': orchestration.OOD_FILES, 'script': orchestration.OOD_SCRIPT, 'violated': 'ood_changes_db'}
        # listing: exactly the targets for which the kernel (its verdict is decided against the reference semantics by the
        # "is_dirty == reference" obligation) answered something other than Clean -- Dirty *and* NeedTargets
        names = printed_names(w)
        if names is not None:
            for fid, verdict in st['verdicts']:
                nm = bytes(w.files[fid]['name']).decode()
                chk.goal('ood: a target that needs a checksummed dependency first is met', isinstance(verdict, list))
                want = verdict != CLEAN and not isinstance(verdict, tuple)
                if want != (nm in names):
                    m = model_of(eng, w, R, ids)
                    return {'role': 'ood:%s:%s' % ('not-listed' if want else 'listed', depscheck.kind_of(verdict)), 'kind': 'scenario',
                            'what': 'redo-ood %s %s although the dirtiness check answers %s for it' % (
                                'does not list' if want else 'lists', nm, fmt_verdict(verdict)),
                            'witness': {'model': m, 'printed': sorted(names)},
                            'files': orchestration.STAMP_FILES, 'script': orchestration.OOD_LIST_SCRIPT, 'violated': 'ood_omits_stamped'}
        return None

    chk.explore('redo-ood leaves the state untouched and lists what will be rebuilt', run, judge)


def printed_names(w):
    """the lines redo-ood printed (None if a formatted argument is not concrete)"""
    if any(x is None for x in w.printed):
        return None
    return set(x.strip() for x in w.printed)
