"""Per-property selection of the dependency-state obligations (C02 C03 C05 C12 C14 C17)."""
import os
import sys

from lib.harness import Check, log
from lib.replay import Replayer
from lib.scenario import Scenario
from specs import dbmodel, depscheck, depsobl, orchestration

TECH = ('symbolic execution of rustc MIR (mirsym) + z3 over symbolic Files/Deps tables (the crate\'s SQL text is interpreted) and a '
        'filesystem model; obligations decided per path class; native replay on a materialised sqlite database / with the real binaries')

PLAN = {
    'C02': ['sched', 'kernel', 'quiet_memo', 'two_phase'],
    'C03': ['sched', 'kernel', 'should_build', 'stamp', 'unlocked', 'env_inherit', 'record'],
    'C05': ['sched', 'kernel', 'set_failed', 'should_build', 'record', 'job_completion', 'script_args'],
    'C12': ['sched', 'kernel', 'cycles', 'env_inherit'],
    'C14': ['sched', 'kernel', 'ifcreate_always', 'stamp'],
    'C17': ['kernel', 'roles', 'ood'],
}


def main(pid):
    chk = Check(pid, TECH, need_bin=True)
    eng = chk.eng
    dbmodel.install_stubs(eng)
    rep = Replayer(log)
    scn = Scenario(log)
    # thorough: 3 files.  The full edge budget (3 edges: diamonds) is explored by C01 and C03, whose statements are about
    # verdicts as such; the other properties of the family share that kernel obligation and run it with 2 edges here
    N, E = ((3, 3) if pid == 'C03' else (3, 2)) if chk.thorough() else (2, 2)
    chk.bounds = {'files': N, 'max_edges': E, 'obligations': PLAN[pid]}
    chk.assumptions += depscheck.ASSUMPTIONS
    only = os.environ.get('VERIF_OBL')
    try:
        for ob in PLAN[pid]:
            if only and ob not in only.split(','):
                continue
            if ob == 'sched':
                from specs import schedcheck
                schedcheck.explore(chk, pid, scn)
                schedcheck.uninstall(eng)
            elif ob == 'kernel':
                wkw = None
                if pid == 'C14':
                    # a watched path may come into existence as a directory
                    from specs.dbmodel import S1, S2, S3, S_DIR
                    from specs.dbmodel import S_MISSING
                    wkw = {'row_kw': {'fs_choices': (None, S1, S2, S3, S_DIR)}, 'always_stamps': (None, S_MISSING)}
                depscheck.kernel_agreement(chk, N, E, goals=True, world_kw=wkw)
                if not only:
                    depscheck.validate_kernel(chk, rep, n=(60 if chk.thorough() else 24))
            elif ob == 'quiet_memo':
                depsobl.quiet_and_memo(chk, 2)
            elif ob == 'two_phase':
                depsobl.two_phase_edges(chk)
            elif ob == 'should_build':
                depsobl.should_build_facts(chk)
            elif ob == 'stamp':
                depsobl.stamp_facts(chk)
            elif ob == 'unlocked':
                orchestration.unlocked_reevaluates(chk)
            elif ob == 'job_completion':
                from specs import buildjob
                buildjob.job_completion_blocks(chk, pid)
            elif ob == 'script_args':
                from specs import buildjob, buildworld
                buildworld.install(eng)
                buildjob.script_arguments(chk, pid)
            elif ob == 'env_inherit':
                orchestration.inherit_clears_unlocked(chk)
            elif ob == 'set_failed':
                depsobl.set_failed_facts(chk)
            elif ob == 'cycles':
                depsobl.cycles_facts(chk)
            elif ob == 'ifcreate_always':
                depsobl.ifcreate_always_facts(chk)
            elif ob == 'record':
                from specs import buildjob, buildworld
                buildworld.install(eng)
                chk.assumptions += buildjob.ASSUMPTIONS
                buildjob.record_new_state_facts(chk, pid)
            elif ob == 'roles':
                depsobl.roles_partition(chk)
            elif ob == 'ood':
                depsobl.ood_facts(chk, 2)
        chk.finish(depscheck.make_replay(chk, rep, scn))
    finally:
        rep.cleanup()
        scn.cleanup()
