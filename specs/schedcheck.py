"""The scheduler itself: the real `builder::run` coroutine (both loops, `wait_for`, the job completion blocks, the cheat closure)
is executed under the real `JobServer::block_on`, with the real `BuildJob::start` / `start_self` / job future /
`record_new_state`, the real `ifchange::should_build` (or the always-dirty closure of `redo`), real `Lock` objects over an fcntl
model, and the jobserver environment of C08/C09.  One exploration, judged per property:

  C05  stop / keep-going decisions, error propagation        C06  lock discipline of one process (assume-guarantee half)
  C07  at most one execution per target and run; outcome = serial outcome         C08  ledger / -j limit       C09  aborts, hangs,
       lock-wait discipline

See DESIGN.md §5 (scheduler exploration)."""
import os

import z3
from lib.harness import log
from mirsym.values import *
from mirsym.engine import PyCallable
from mirsym.summaries.core import ok, err, deref_all
from specs import schedmodel, jobmodel, dbmodel
from specs.jobmodel import Hang
from specs.dbmodel import S1, S2

R = 10

FAILED_ROW = dict(is_generated=True, is_override=False, checked_runid=None, changed_runid=None, failed_runid=R, stamp=None, csum=None)
CSUM_ROW = dict(is_generated=True, is_override=False, checked_runid=None, changed_runid=5, failed_runid=None, stamp=tuple(S1), csum=tuple(b'abc'))
CLEAN_ROW = dict(is_generated=True, is_override=False, checked_runid=None, changed_runid=5, failed_runid=None, stamp=tuple(S1), csum=None)

ASSUMPTIONS = [
    'one redo process (builder::run under JobServer::block_on); its children (sh -e x.do) are not executed: a child\'s outcome is its '
    'exit status (0 or 1, symbolic) and five bytes on its capture file',
    'other redo processes appear only through the lock file: a byte they hold makes F_SETLK fail; when this process blocks in '
    'F_SETLKW the holder finishes (built / failed, recorded the way record_new_state / set_failed record it) and releases the lock',
    'wakers carry identity: FuturesUnordered polls a job future again only after its own waker was called (futures-util 0.3 semantics)',
    'futures::select! polls its arms in pseudo-random order: the written order plus a bounded number of deviations per path is explored',
    'rand::random::<f32>() (jitter of the lock back-off sleep) is fixed to 0.5; thread_rng().shuffle explores every permutation',
    'database rows are concrete in this exploration (the symbolic row space belongs to C01-C05/C11); SQL statements succeed',
]


def C(name, props, **kw):
    d = dict(name=name, props=set(props.split()), targets=[b'a', b'b'], flavour='redo', keep_going=False, top_level=2, pipe0=1,
             others0=0, prior=None, other_locks=None, sub_target=None, shuffle=False, no_do=(), select_budget=0, race=(), deps=(),
             free_at_try=None, cycles=(), foreign_parent=False, history=(), declares=None, default_do=False, scripts=None, succeed=False)
    d.update(kw)
    return d


def configs(thorough):
    A = 'C05 C06 C07 C08 C09'
    cs = [
        C('redo a b -j2', A),
        C('redo a b -j1', A, top_level=1, pipe0=0),
        C('redo -k a b -j1', 'C05 C07 C09', top_level=1, pipe0=0, keep_going=True),
        C('redo -k a b -j2', 'C05 C07', keep_going=True),
        C('ifchange a b (inherited, 1 token in pipe)', A, flavour='ifchange', top_level=0, pipe0=1),
        C('ifchange a b (inherited, token held by others)', 'C08 C09', flavour='ifchange', top_level=0, pipe0=0, others0=1),
        C('ifchange a b: a failed earlier in this run', 'C05 C09', flavour='ifchange', top_level=0, pipe0=1, prior={b'a': (FAILED_ROW, None)}),
        C('ifchange -k a b: a failed earlier in this run', 'C05 C09', flavour='ifchange', top_level=0, pipe0=1, keep_going=True,
          prior={b'a': (FAILED_ROW, None)}),
        C('ifchange -k b a: a failed earlier in this run', 'C05', flavour='ifchange', top_level=0, pipe0=1, keep_going=True,
          targets=[b'b', b'a'], prior={b'a': (FAILED_ROW, None)}),
        C('redo a b: no rule for a', 'C05 C09', no_do=(b'a',), top_level=1, pipe0=0),
        C('redo -k a b: no rule for a', 'C05', no_do=(b'a',), keep_going=True, top_level=1, pipe0=0),
        C('redo a a', 'C07 C09', targets=[b'a', b'a']),
        C('redo a b a', 'C07 C09', targets=[b'a', b'b', b'a']),
        C('redo a ./a -j2', 'C07 C09', targets=[b'a', b'./a']),
        C('redo a ./a -j1', 'C07 C09', targets=[b'a', b'./a'], top_level=1, pipe0=0),
        C('redo a ""', 'C05 C09', targets=[b'a', b'']),
        C('redo a ./a: a locked by another redo, which builds it', 'C07 C09', targets=[b'a', b'./a'], other_locks={b'a': 'built'}),
        C('redo --shuffle a b', 'C07', shuffle=True),
        C('redo a b: b locked by another redo, which builds it', 'C05 C06 C07 C08 C09', other_locks={b'b': 'built'}),
        C('redo a b: b locked by another redo, which fails', 'C05 C06 C09', other_locks={b'b': 'failed'}),
        C('ifchange a b: b locked by another redo, which builds it', 'C06 C07 C09', flavour='ifchange', top_level=0, pipe0=1,
          other_locks={b'b': 'built'}),
        C('ifchange a b: b locked by another redo, which fails', 'C05 C06 C08', flavour='ifchange', top_level=0, pipe0=1,
          other_locks={b'b': 'failed'}),
        C('redo b (inherited jobserver): b locked by another redo, which fails', 'C08 C09', targets=[b'b'], top_level=0, pipe0=0, others0=1,
          other_locks={b'b': 'failed'}),
        # directly below GNU make: the cheat pipe is this process's own, nobody reads what it writes there
        C('redo a b (GNU make jobserver): b locked by another redo, which fails', 'C08', top_level=0, pipe0=1, others0=0,
          other_locks={b'b': 'failed'}, foreign_parent=True),
        C('redo a b (GNU make jobserver): b locked by another redo, which builds it', 'C08', top_level=0, pipe0=1, others0=0,
          other_locks={b'b': 'built'}, foreign_parent=True),
        C('ifchange a b (GNU make jobserver)', 'C08', flavour='ifchange', top_level=0, pipe0=1, foreign_parent=True),
        C('redo b: the holder of b finishes between the row read and the lock attempt', 'C06', targets=[b'b'], other_locks={b'b': 'built'},
          race=(b'b',)),
        C('ifchange b: the holder of b finishes between the row read and the lock attempt', 'C06', targets=[b'b'], flavour='ifchange',
          top_level=0, pipe0=1, other_locks={b'b': 'built'}, race=(b'b',)),
        C('redo a b: the holder of b has finished when the second phase first tries the lock', 'C06 C09', other_locks={b'b': 'built'},
          free_at_try={b'b': 2}),
        C('ifchange t: t is up to date but its checksummed dependency s looks changed (redo-unlocked)', 'C06 C07 C08 C09', flavour='ifchange',
          targets=[b't'], top_level=0, pipe0=1, prior={b't': (CLEAN_ROW, tuple(S1)), b's': (CSUM_ROW, tuple(S2))}, deps=((b't', b's', b'm'),)),
        C('ifchange t u: both wait for the checksummed dependency s (redo-unlocked)', 'C06 C07 C09', flavour='ifchange',
          targets=[b't', b'u'], top_level=0, pipe0=1,
          prior={b't': (CLEAN_ROW, tuple(S1)), b'u': (CLEAN_ROW, tuple(S1)), b's': (CSUM_ROW, tuple(S2))},
          deps=((b't', b's', b'm'), (b'u', b's', b'm'))),
        C('ifchange a b inside b.do -> ... : b is being built by an ancestor (cycle)', 'C12 C09', flavour='ifchange', top_level=0, pipe0=1,
          cycles=(b'b',), sub_target=b'top'),
        C('ifchange b a -k: b is being built by an ancestor (cycle)', 'C12', flavour='ifchange', top_level=0, pipe0=1, keep_going=True,
          targets=[b'b', b'a'], cycles=(b'b',)),
        C('ifchange a b inside top.do (redo-log may hold the log lock)', 'C08 C09', flavour='ifchange', top_level=0, pipe0=0, others0=1,
          sub_target=b'top'),
    ]
    I = dict(flavour='ifchange', top_level=0, pipe0=1)
    SRC = {b'src': (dict(is_generated=False, is_override=False, checked_runid=None, changed_runid=5, failed_runid=None, stamp=tuple(S1), csum=None), tuple(S1))}
    cs += [
        C('history: ifchange a; again, nothing changed', 'C02', targets=[b'a'], history=[dict(name='nothing changed', expect=[])], **I),
        C('history: ifchange a; a removed', 'C02', targets=[b'a'], history=[dict(name='target removed', mutate='remove:a', expect=['a'])], **I),
        C('history: ifchange a fails; again', 'C02 C05', targets=[b'a'],
          history=[dict(name='failed last time, nothing changed', after_failure=True, only_after_failure=True, expect=['a'], result=None)], **I),
        C('history: ifchange a b (each declares its source); source of b edited; then nothing', 'C02', prior=SRC,
          declares={(97,): b'src', (98,): b'srcb'},
          history=[dict(name='source of b edited', mutate='touch:srcb', expect=['b']), dict(name='nothing changed', expect=[])], **I),
        C('history: ifchange a (declares src); src edited and the script stops declaring it; src edited again', 'C02', targets=[b'a'],
          prior=SRC, declares={(97,): b'src'},
          history=[dict(name='source edited', mutate='touch:src', expect=['a'], declares={}),
                   dict(name='former source edited', mutate='touch:src', expect=[])], **I),
        C('history: ifchange a; a.do edited', 'C02 C13', targets=[b'a'], history=[dict(name='.do edited', mutate='touch:a.do', expect=['a'])], **I),
        C('history: ifchange a built by default.do; a.do appears', 'C02 C13', targets=[b'a'], no_do=(b'a',), default_do=True,
          history=[dict(name='higher-priority .do created', mutate='create:a.do', expect=['a'], chosen='a.do'),
                   dict(name='nothing changed', expect=[])], **I),
        C('history: ifchange a built by a.do; a.do removed (default.do remains)', 'C02 C13', targets=[b'a'], default_do=True,
          history=[dict(name='chosen .do removed', mutate='remove:a.do', expect=['a'], chosen='default.do')], **I),
        C('history: ifchange a (a.do runs the real redo-ifcreate f); again; f created', 'C14', targets=[b'a'],
          scripts={b'a': [('ifcreate', [b'f'])]},
          history=[dict(name='nothing changed (f still absent)', expect=[]),
                   dict(name='f created', mutate='create:f', expect=['a'], result=None)], **I),
        C('history: ifchange a (a.do runs the real redo-always); two more runs', 'C14', targets=[b'a'], scripts={b'a': [('always',)]},
          history=[dict(name='a new run, nothing changed', expect=['a']), dict(name='another run', expect=['a'])], succeed=True, **I),
        C('history: ifchange a (declares redo-ifcreate f); again; f created', 'C14x', targets=[b'a'], declares={(97,): ('ifcreate', b'f')},
          history=[dict(name='nothing changed (f still absent)', expect=[]),
                   dict(name='f created', mutate='create:f', expect=['a'], result=None)], **I),
        C('history: ifchange a (declares redo-always); two more runs', 'C14x', targets=[b'a'], declares={(97,): ('always',)},
          history=[dict(name='a new run, nothing changed', expect=['a']), dict(name='another run', expect=['a'])], **I),
        # nested: a.do runs `redo-ifchange b`, executed with the real code as a sub-redo when a's script is seen to exit
        C('history: ifchange a (a.do: redo-ifchange b; b.do: redo-ifchange src); again; src edited; again', 'C01 C02', targets=[b'a'],
          prior=SRC, scripts={b'a': [('ifchange', [b'b'])]}, declares={(98,): b'src'},
          history=[dict(name='nothing changed', expect=[]), dict(name='source of b edited', mutate='touch:src', expect=['a', 'b']),
                   dict(name='nothing changed', expect=[])], **I),
        C('history: ifchange a (a.do: redo-ifchange b); b removed', 'C01', targets=[b'a'], scripts={b'a': [('ifchange', [b'b'])]},
          history=[dict(name='inner target removed', mutate='remove:b', expect=['a', 'b'])], **I),
        C('history: ifchange a (a.do: redo-ifchange b) and b.do fails; again', 'C05', targets=[b'a'], scripts={b'a': [('ifchange', [b'b'])]},
          history=[dict(name='inner target failed last time, nothing changed', after_failure=True, only_after_failure=True,
                        expect=['a', 'b'], result=None)], **I),
        # the checksum cut-off end to end: a.do: redo-ifchange s; s.do: redo-ifchange src; redo-stamp.  The second and third invocation
        # go through start_deps_unlocked -> the real redo-unlocked -> two nested redo-ifchange (REDO_NO_OOB / REDO_UNLOCKED)
        C('history: ifchange a (a -> stamped s -> src); src edited, same checksum; src edited, new checksum', 'C03', targets=[b'a'],
          prior=SRC, scripts={b'a': [('ifchange', [b's'])], b's': [('ifchange', [b'src']), ('stamp', {10: b'aaaa', 11: b'aaaa', 12: b'bbbb'})]},
          history=[dict(name='source edited, checksum of s unchanged', mutate='touch:src', expect=['s']),
                   dict(name='source edited, checksum of s changes', mutate='touch:src', expect=['a', 's'])], succeed=True, **I),
        # two dependents of one target in one command: a.do and b.do both run `redo-ifchange c` (nested, real code)
        C('history: ifchange a b (both scripts run redo-ifchange c); again', 'C07 C02', scripts={b'a': [('ifchange', [b'c'])], b'b': [('ifchange', [b'c'])]},
          history=[dict(name='nothing changed', expect=[])], succeed=True, **I),
        C('history: ifchange a; a edited by hand; a removed', 'C02', targets=[b'a'],
          history=[dict(name='target edited by hand', mutate='touch:a', expect=[], content={'a': 'edited-by-user'}),
                   dict(name='edited target removed', mutate='remove:a', expect=['a'])], **I),
    ]
    if thorough:
        cs += [
            C('redo a b c -j2', A, targets=[b'a', b'b', b'c']),
            C('redo -k a b c -j2', 'C05 C07', targets=[b'a', b'b', b'c'], keep_going=True),
            C('redo a b c -j3', 'C05 C07 C08 C09', targets=[b'a', b'b', b'c'], top_level=3, pipe0=2),
            C('redo --shuffle a b c', 'C07', targets=[b'a', b'b', b'c'], shuffle=True),
            C('redo a b -j2, select! deviations', A, select_budget=2),
            C('redo a b: b locked, select! deviations', 'C05 C06 C09', other_locks={b'b': 'built'}, select_budget=2),
            C('redo a b c: b and c locked by others', 'C06 C09', targets=[b'a', b'b', b'c'], other_locks={b'b': 'built', b'c': 'failed'}),
            C('ifchange a b c (inherited, 1 token in pipe, 1 held by others)', 'C05 C08 C09', flavour='ifchange', targets=[b'a', b'b', b'c'],
              top_level=0, pipe0=1, others0=1),
            C('redo a b c d -j2', 'C05 C07 C08 C09', targets=[b'a', b'b', b'c', b'd']),
            C('redo -k a b c d -j3', 'C05 C07 C08', targets=[b'a', b'b', b'c', b'd'], keep_going=True, top_level=3, pipe0=2),
            C('ifchange -k a b c: b failed earlier in this run', 'C05 C09', flavour='ifchange', targets=[b'a', b'b', b'c'], keep_going=True,
              top_level=0, pipe0=1, prior={b'b': (FAILED_ROW, None)}),
            C('redo a b c -j2: c locked by another redo, which builds it', 'C05 C06 C07 C09', targets=[b'a', b'b', b'c'],
              other_locks={b'c': 'built'}),
            C('ifchange a b c -j: b locked by another redo, which fails', 'C05 C06 C09', flavour='ifchange', targets=[b'a', b'b', b'c'],
              top_level=0, pipe0=2, other_locks={b'b': 'failed'}),
            C('redo a ./a b/../a', 'C07 C09', targets=[b'a', b'./a', b'b/../a']),
            C('history: ifchange a b (a declares redo-always); two more runs', 'C14', declares={(97,): ('always',)},
              history=[dict(name='a new run, nothing changed', expect=['a']), dict(name='another run', expect=['a'])], **I),
            C('ifchange a b: a is up to date', 'C05 C07', flavour='ifchange', top_level=0, pipe0=1, prior={b'a': (CLEAN_ROW, tuple(S1))}),
        ]
    return cs


def mutate(w, what):
    """what the user does between two invocations"""
    if not what:
        return
    for op in what if isinstance(what, (list, tuple)) else [what]:
        kind, name = op.split(':', 1)
        nm = tuple(name.encode())
        if kind == 'touch':            # edited: new mtime, new size
            w.fs[nm] = w.fresh_stamp()
            w.content[nm] = 'edited-by-user'
        elif kind == 'create':
            w.fs[nm] = w.fresh_stamp()
            w.content[nm] = 'created-by-user'
        elif kind == 'remove':
            w.fs[nm] = None
            w.content.pop(nm, None)
        else:
            raise Unsupported('mutation %r' % op)
        w.ev('user-' + kind, name=name)


def norm_name(t):
    p = os.path.normpath(t.decode('latin-1')) if t else ''
    return p.encode('latin-1')


def status_class(eng, st):
    """'ok' | 'fail' | 'either' for a (possibly symbolic) exit status under the current path condition"""
    if st is None:
        return 'running'
    if isinstance(st, int):
        return 'ok' if st == 0 else 'fail'
    z = eng.check(st == 0)
    nz = eng.check(st != 0)
    if z and nz:
        return 'either'
    return 'ok' if z else 'fail'


def install(eng):
    if not hasattr(eng, '_sched_saved_stubs'):
        eng._sched_saved_stubs = dict(eng.stubs)
        eng._sched_saved_summaries = dict(eng.summaries)
    schedmodel.install(eng)
    schedmodel.install_commands(eng)

    def probe_start(e, ci, a):
        v = deref_all(a[1])
        items = getattr(v, 'items', None)
        name = bytes(items).decode('latin-1') if items is not None and all(isinstance(x, int) for x in items) else repr(v)
        e.world.ev('job-start', target=name)
        e.world.pending_target = name
        e.world.pending_closure = a[2] if len(a) > 2 else None
    eng.probes['JobServerHandle::start'] = probe_start

    # a job that is finished the moment it is created (future::ready(rv)): refused / no rule / nothing to do
    base_ready = eng.summaries.get('future::ready')
    if base_ready is not None and not getattr(base_ready, '_sched_wrapped', False):
        def ready(e, ci, a, sp):
            v = a[0]
            ev = getattr(e.world, 'ev', None)
            if ev is not None and isinstance(v, int) and isinstance(getattr(e.world, 'log', None), list):
                ev('ready-job', rv=v)
            return base_ready(e, ci, a, sp)
        ready._sched_wrapped = True
        for k in ('future::ready', 'std::future::ready', 'futures::future::ready'):
            eng.summaries[k] = ready


def explore(chk, pid, scn=None):
    eng = chk.eng
    install(eng)
    thorough = chk.thorough()
    CFGS = [c for c in configs(thorough) if pid in c['props']]
    only = os.environ.get('VERIF_ONLY')
    if only and only.startswith('builder::run: '):
        only = only[len('builder::run: '):]
    chk.bounds.setdefault('scheduler', {})
    chk.bounds['scheduler'] = {'configurations': [c['name'] for c in CFGS], 'max_wakeups_per_path': 12, 'select_timeouts_per_path': 1,
                               'child_exit_status': '0 or 1', 'select_macro_orders': 'written order; + <= 2 deviations per path in the '
                               'configurations that say so (thorough)', 'targets_per_command': '<= 3 (thorough: 4)'}
    for a in ASSUMPTIONS:
        if a not in chk.assumptions:
            chk.assumptions.append(a)
    for cfg in CFGS:
        if only and only != 'sched' and only not in cfg['name']:
            continue
        run_config(chk, pid, cfg)
    if pid in ('C01', 'C02', 'C03', 'C14') and scn is not None and not chk.candidates:
        # model validation: the histories' expectations (which scripts run after which user action) against the compiled binaries
        for cfg in CFGS:
            if not cfg['history'] or any(s_.get('only_after_failure') for s_ in cfg['history']):
                continue
            try:
                dev, detail = history_replay(scn, {'witness': {'config': cfg['name']}})
            except Exception as e:
                dev, detail = True, 'scenario failed: %s' % e
            if dev:
                chk.inconclusive.append('history expectation disagrees with the real binaries on the unchanged obligations: %s: %s' % (
                    cfg['name'], detail[-300:]))
            else:
                chk.validated += 1


def run_config(chk, pid, cfg):
    eng = chk.eng
    st = {}

    def run():
        eng.select_orders = 'budget' if cfg['select_budget'] else 'first'
        sb = None
        if cfg['flavour'] == 'ifchange':
            sb = FnItem('ifchange::should_build')
        w, sref, root = schedmodel.setup(eng, targets=cfg['targets'], keep_going=cfg['keep_going'], top_level=cfg['top_level'],
                                         pipe0=cfg['pipe0'], others0=cfg['others0'], runid=R, should_build=sb, max_wakeups=12,
                                         prior=cfg['prior'], other_locks=cfg['other_locks'], sub_target=cfg['sub_target'],
                                         shuffle=cfg['shuffle'], no_do=cfg['no_do'], race=cfg['race'], deps=cfg['deps'],
                                         free_at_try=cfg['free_at_try'], cycles=cfg['cycles'], default_do=cfg['default_do'], scripts=cfg['scripts'])
        w.select_budget = cfg['select_budget']
        w.script_declares = cfg['declares']
        if cfg['succeed']:
            w.status_values = (0,)          # this history is about successful rebuilds only
        st.update(w=w, hang=None, res=None, r2=None, phase='run', runs=[])
        try:
            res = eng.call('JobServer::block_on', [sref, root], None, None)
        except Hang as e:
            st['hang'] = str(e)
            return None, None
        st['res'] = res
        st['phase'] = 'exit'
        st['running_at_return'] = len(w.running())
        r2 = None
        if pid == 'C08':
            p_before, x_before = w.P, w.X
            r2 = eng.call('JobServer::do_force_return_tokens', [sref], None, None)
            st['exit_written'] = (w.P - p_before, w.X - x_before)
        # further invocations of the same command on the world the earlier ones left (each a new process: new run id)
        mark = len(w.log)
        st['runs'].append({'step': 'first run', 'result': res.var, 'log_from': 0})
        for k, step in enumerate(cfg['history']):
            if res.var == 'Err' and not step.get('after_failure'):
                break
            if any(c['state'] != 'reaped' for c in w.children):
                break
            eng.call('JobServer::do_force_return_tokens', [sref], None, None) if pid != 'C08' or k else None
            mutate(w, step.get('mutate'))
            w.ev('next-run', step=step['name'])
            mark = len(w.log)
            if 'declares' in step:
                w.script_declares = step['declares']
            sref, root = schedmodel.new_run(eng, w, cfg['targets'], R + 1 + k, keep_going=cfg['keep_going'], top_level=cfg['top_level'],
                                            should_build=sb)
            w.wakeups = 0
            w.timeouts = 0
            try:
                res = eng.call('JobServer::block_on', [sref, root], None, None)
            except Hang as e:
                st['hang'] = str(e)
                return None, None
            st['runs'].append({'step': step['name'], 'result': res.var, 'log_from': mark, 'expect': step.get('expect'),
                               'expect_result': step.get('result', 'Ok')})
        return st['res'], r2

    def judge(outcome, val, path):
        w = st['w']
        F = facts(eng, w, cfg)
        wit = {'config': cfg['name'], 'flavour': cfg['flavour'], 'targets': [t.decode('latin-1') for t in cfg['targets']],
               'keep_going': cfg['keep_going'], 'top_level': cfg['top_level'], 'pipe0': cfg['pipe0'], 'others0': cfg['others0'],
               'statuses': F['status_by_target'], 'events': F['digest'], 'scenario': scenario_key(cfg, F),
               'other_locks': {k.decode('latin-1'): v for k, v in (cfg['other_locks'] or {}).items()},
               'variant': 'locked' if cfg['other_locks'] else ('unlocked-job' if cfg['deps'] else (
                   'nojob' if (cfg['no_do'] or cfg['prior']) else 'plain'))}
        if pid not in ('C12', 'C01', 'C02', 'C03', 'C13', 'C14'):
            chk.goal('sched: two jobs run at the same time', w.max_running >= 2)
            chk.goal('sched: a job fails', any(v == 'fail' for v in F['status_by_target'].values()))
            chk.goal('sched: run() returns Ok', outcome == 'ok' and val[0] is not None and val[0].var == 'Ok')
            chk.goal('sched: run() returns Err', outcome == 'ok' and val[0] is not None and val[0].var == 'Err')
            if any(k == 'wait-lock' for k, d in w.log):
                chk.goal('sched: the process blocks on a lock held by another redo')
        bad = JUDGES[pid](chk, eng, cfg, st, F, outcome, val, wit)
        return bad

    def sample(outcome, val, path):
        w = st['w']
        F = facts(eng, w, cfg)
        return {'config': cfg['name'], 'outcome': outcome, 'result': (val[0].var if outcome == 'ok' and val[0] is not None else None),
                'events': F['digest'][:40]}

    chk.explore('builder::run: ' + cfg['name'], run, judge, sample, max_samples=1)


def facts(eng, w, cfg, lo=0, hi=None):
    """what one path did, read off the event log (optionally only the events of one invocation)"""
    name_to_fid = {bytes(r['name']): k for k, r in w.files.items()}
    held = set()
    cur = None
    forks = []               # dicts: idx, pid, target, fid, held_at_start
    by_pid = {}
    digest = []
    lock_viol = []
    jobstate = {}            # fid -> 'started' | 'reaped' | 'recorded' | 'committed'
    fid_pid = {}
    waits = []
    first_failure_known = None
    starts_after_failure = []
    pid_status = {c['pid']: status_class(eng, c['status']) for c in w.children}
    requested = [norm_name(t) for t in cfg['targets'] if t]
    for i, (k, d) in enumerate(w.log[:hi]):
        if i < lo:
            continue
        if k == 'job-start':
            cur = norm_name(d['target'].encode('latin-1'))
            digest.append('start(%s)' % d['target'])
            if first_failure_known is not None:
                starts_after_failure.append(d['target'])
        elif k == 'fork':
            fid = name_to_fid.get(cur)
            f = {'idx': i, 'pid': d['pid'], 'target': (cur or b'?').decode('latin-1'), 'fid': fid, 'held': fid in held,
                 'kind': d.get('job_kind', 'script')}
            forks.append(f)
            by_pid[d['pid']] = f
            if fid is not None:
                jobstate[fid] = 'started'
                fid_pid[fid] = d['pid']
        elif k == 'try-lock':
            if d['got']:
                held.add(d['fid'])
            digest.append('%s(%s)' % ('lock' if d['got'] else 'lock-busy', d['fid']))
        elif k == 'wait-lock':
            waits.append(dict(d, idx=i))
            held.add(d['fid'])
            digest.append('wait-lock(%s holding=%s my_tokens=%s)' % (d['fid'], d['holding'], d.get('my_tokens')))
        elif k == 'unlock':
            held.discard(d['fid'])
            js = jobstate.get(d['fid'])
            if js in ('started', 'reaped', 'recorded'):
                lock_viol.append((d['fid'], js))
            digest.append('unlock(%s)' % d['fid'])
        elif k == 'waitpid':
            f = by_pid.get(d['pid'])
            sc = pid_status.get(d['pid'])
            digest.append('reaped(%s:%s)' % (f['target'] if f else d['pid'], sc))
            if f and f['fid'] is not None and jobstate.get(f['fid']) == 'started':
                # redo-unlocked records the result in its own process, under the lock this process keeps for it
                jobstate[f['fid']] = 'reaped' if f['kind'] == 'script' else 'committed'
            if sc == 'fail' and first_failure_known is None:
                first_failure_known = i
        elif k == 'sql-update-file':
            fid = d['rowid']
            if jobstate.get(fid) == 'reaped':
                jobstate[fid] = 'recorded'
            row = d['row']
            fr = row.get('failed_runid')
            nm = bytes(w.files[fid]['name']) if fid in w.files else b''
            if fr is not None and isinstance(fr, int) and fr == w.runid and nm in requested and first_failure_known is None \
                    and jobstate.get(fid) is None:
                # a failure recorded without a child (no rule to build it)
                first_failure_known = i
                digest.append('failed-without-job(%s)' % nm.decode('latin-1'))
        elif k == 'ready-job':
            if d['rv'] != 0:
                digest.append('job-finished-at-once(rv=%d)' % d['rv'])
                if first_failure_known is None:
                    first_failure_known = i
        elif k == 'sql-commit':
            for fid, js in list(jobstate.items()):
                if js == 'recorded':
                    jobstate[fid] = 'committed'
        elif k == 'other-finishes':
            digest.append('other-finishes(%s:%s)' % (d['fid'], d['outcome']))
        elif k == 'select':
            digest.append('select%s' % (d['ready'],))
        elif k in ('select-timeout', 'thread::sleep', 'cheat_func', 'adv-release', 'adv-take', 'adv-steal', 'shuffle'):
            digest.append(k)
        elif k == 'log-meta':
            digest.append('meta:%s' % d.get('kind'))
    status_by_target = {}
    for f in forks:
        status_by_target.setdefault(f['target'], pid_status.get(f['pid'], 'running'))
    return {'forks': forks, 'digest': digest, 'lock_viol': lock_viol, 'waits': waits, 'status_by_target': status_by_target,
            'first_failure_known': first_failure_known, 'starts_after_failure': starts_after_failure, 'name_to_fid': name_to_fid,
            'requested': requested, 'jobstate': jobstate, 'held_end': sorted(held)}


def scenario_key(cfg, F):
    return {'name': cfg['name'], 'forked': [f['target'] for f in F['forks']]}


def result_var(val):
    return val[0].var if val and val[0] is not None else None


def err_msg(eng, val):
    from specs.jobcheck import err_text
    try:
        return err_text(eng, val[0].f[0])
    except Exception:
        return repr(val[0])[:200]


# ------------------------------------------------------------------------------------------------ judges
def judge_c05(chk, eng, cfg, st, F, outcome, val, wit):
    if cfg['history']:
        return judge_history(chk, eng, cfg, st, F, outcome, val, wit)
    if outcome != 'ok' or st.get('hang'):
        return None             # aborts and hangs: C09
    res = result_var(val)
    failed = [t for t, s in F['status_by_target'].items() if s == 'fail']
    nodo = [t.decode('latin-1') for t in cfg['no_do']]
    prior_failed = [n.decode('latin-1') for n, (cells, _) in (cfg['prior'] or {}).items() if cells.get('failed_runid') == R]
    other_failed = [n.decode('latin-1') for n, o in (cfg['other_locks'] or {}).items() if o == 'failed']
    empty_target = any(not t for t in cfg['targets'])
    expect_err = bool(failed or nodo or empty_target or (prior_failed and cfg['flavour'] == 'ifchange') or
                      [n for n in other_failed if any(d.startswith('other-finishes') for d in F['digest'])])
    # (1) a failure is never swallowed
    if expect_err and res == 'Ok':
        return {'role': 'sched:failure-not-propagated', 'kind': 'sched', 'witness': wit,
                'what': 'builder::run returns Ok although %s' % (
                    'the script of %s exited non-zero' % failed if failed else 'a requested target cannot be built')}
    if not expect_err and res == 'Err' and not st['w'].other_locks:
        return {'role': 'sched:spurious-error', 'kind': 'sched', 'witness': wit,
                'what': 'builder::run fails (%s) although every script succeeded' % err_msg(eng, val)}
    # (2) without --keep-going nothing new is started once a failure is known
    if not cfg['keep_going'] and F['starts_after_failure']:
        chk.goal('C05: a failure becomes known while targets remain')
        return {'role': 'sched:started-after-failure', 'kind': 'sched', 'witness': wit,
                'what': 'without --keep-going the script of %s is started after the failure of %s was already known to this process '
                        '(child reaped / failure recorded)' % (F['starts_after_failure'], failed or nodo)}
    if not cfg['keep_going'] and F['first_failure_known'] is not None:
        chk.goal('C05: a failure becomes known while targets remain', len(F['forks']) < len(set(F['requested'])))
    # (3) with --keep-going every requested target that can be built is still built
    if cfg['keep_going']:
        want = [t.decode('latin-1') for t in dict.fromkeys(F['requested'])
                if t.decode('latin-1') not in nodo and not (t.decode('latin-1') in prior_failed and cfg['flavour'] == 'ifchange')]
        started = {f['target'] for f in F['forks']}
        missing = [t for t in want if t not in started]
        chk.goal('C05: --keep-going with a failing target and another one still to build', bool(failed or nodo or prior_failed))
        if missing and not cfg['other_locks']:
            return {'role': 'sched:keep-going-not-built', 'kind': 'sched', 'witness': wit,
                    'what': 'with --keep-going the requested target(s) %s are never started although they do not depend on the failed '
                            'one (%s); the command ends with %s' % (missing, failed or nodo or prior_failed, err_msg(eng, val) if res == 'Err' else res)}
    # (4) a target that failed in this run is not executed again by redo-ifchange
    if cfg['flavour'] == 'ifchange':
        again = [f['target'] for f in F['forks'] if f['target'] in prior_failed]
        if again:
            return {'role': 'sched:failed-target-run-again', 'kind': 'sched', 'witness': wit,
                    'what': 'redo-ifchange runs the script of %s although it already failed in this run' % again}
    return None


def judge_c06(chk, eng, cfg, st, F, outcome, val, wit):
    if outcome != 'ok' or st.get('hang'):
        return None
    w = st['w']
    for f in F['forks']:
        chk.goal('C06: a script is started')
        if f['fid'] is None:
            raise Unsupported('forked job %r not matched to a Files row' % (f,))
        if not f['held']:
            return {'role': 'sched:start-without-lock', 'kind': 'sched', 'witness': wit,
                    'what': 'the script of %s is started while this process does not hold the target\'s lock' % f['target']}
    if F['lock_viol']:
        fid, js = F['lock_viol'][0]
        return {'role': 'sched:unlock-before-result-committed', 'kind': 'sched', 'witness': wit,
                'what': 'the lock of file id %s is released while its job is only %s: another process may decide about the target before '
                        'the result is committed' % (fid, js)}
    if any(v == 'committed' for v in F['jobstate'].values()):
        chk.goal('C06: a job is reaped, recorded, committed and only then unlocked', any(f['kind'] == 'script' for f in F['forks']))
        chk.goal('C06: a redo-unlocked job keeps the target locked until it is reaped', any(f['kind'] == 'unlocked' for f in F['forks']))
    # a lock obtained after another redo held it: the decision uses the row as that process left it
    for name, o in (cfg['other_locks'] or {}).items():
        nm = name.decode('latin-1')
        fin = any(d.startswith('other-finishes') for d in F['digest'])
        if not fin:
            continue
        forked = [f for f in F['forks'] if f['target'] == nm]
        chk.goal('C06: a lock is obtained after another redo released it')
        if o == 'failed' and forked:
            return {'role': 'sched:rebuilt-after-other-failed', 'kind': 'sched', 'witness': wit,
                    'what': 'another redo failed to build %s in this run; after obtaining its lock this process runs the script again' % nm}
        if o == 'built' and cfg['flavour'] == 'ifchange' and forked:
            return {'role': 'sched:rebuilt-after-other-built', 'kind': 'sched', 'witness': wit,
                    'what': 'another redo built %s in this run; redo-ifchange obtains the lock afterwards and runs the script again' % nm}
        if o == 'built':
            fid = F['name_to_fid'].get(name)
            row = w.files.get(fid)
            if row is not None and not buildjob_true(eng, row['is_generated']):
                return {'role': 'sched:stale-row-written-back', 'kind': 'sched', 'witness': wit,
                        'what': 'another redo built %s while this process waited for its lock; afterwards the row no longer says the '
                                'target is generated (a row read before the lock was obtained was written back)' % nm}
            if cfg['flavour'] == 'redo' and not forked and result_var(val) == 'Ok':
                return {'role': 'sched:redo-skipped-after-other-built', 'kind': 'sched', 'witness': wit,
                        'what': '`redo %s` did not run the script after waiting for another redo\'s lock' % nm}
    return None


def buildjob_true(eng, v):
    from specs.buildjob import surely_true
    return surely_true(eng, v)


def judge_c07(chk, eng, cfg, st, F, outcome, val, wit):
    if st.get('hang'):
        return None
    w = st['w']
    per = {}
    for f in F['forks']:
        per[f['fid'] if f['fid'] is not None else f['target']] = per.get(f['fid'] if f['fid'] is not None else f['target'], 0) + 1
    dup = {k: n for k, n in per.items() if n > 1}
    if len(cfg['targets']) != len({norm_name(t) for t in cfg['targets']}):
        chk.goal('C07: one target named twice on the command line', outcome in ('ok', 'panic'))
    if dup:
        return {'role': 'sched:target-run-twice', 'kind': 'sched', 'witness': wit,
                'what': 'the script of file id(s) %s is executed more than once by one command (%s)' % (sorted(dup), cfg['name'])}
    if outcome != 'ok':
        return None
    # outcome = outcome of the serial build (stated for runs in which nothing is cut short: all scripts succeed, or --keep-going)
    sts = F['status_by_target']
    allok = all(s == 'ok' for s in sts.values())
    # "at most once however many dependents request it" rests on the lock being kept until the result is recorded and on the
    # re-evaluation under the lock: the same event-order obligations as C06
    bad = judge_c06(chk, eng, cfg, st, F, outcome, val, wit)
    if bad:
        return bad
    if cfg['scripts']:
        chk.goal('C07: two dependents request one target in one command', len([f for f in F['forks'] if f['target'] == 'c']) >= 1)
    if cfg['other_locks'] or cfg['prior'] or cfg['no_do'] or cfg['scripts'] or any(not t for t in cfg['targets']):
        return None
    if not (allok or cfg['keep_going']):
        return None
    want = list(dict.fromkeys(t.decode('latin-1') for t in F['requested']))
    started = [f['target'] for f in F['forks']]
    if sorted(started) != sorted(want):
        return {'role': 'sched:not-serial-outcome:executed-set', 'kind': 'sched', 'witness': wit,
                'what': 'the serial build executes %s once each; this schedule executed %s' % (want, started)}
    chk.goal('C07: a complete run compared with the serial outcome')
    if cfg['shuffle']:
        chk.goal('C07: --shuffle changes the order', any(d == 'shuffle' for d in F['digest']) and started != want)
    res = result_var(val)
    if (res == 'Ok') != allok:
        return {'role': 'sched:not-serial-outcome:status', 'kind': 'sched', 'witness': wit,
                'what': 'exit status differs from the serial build: %s with script statuses %s' % (res, sts)}
    for t in want:
        fid = F['name_to_fid'].get(t.encode('latin-1'))
        row = w.files.get(fid)
        s = sts.get(t)
        content = w.content.get(tuple(t.encode('latin-1')))
        if s == 'ok':
            good = row is not None and buildjob_true(eng, row['is_generated']) and row['failed_runid'] is None and \
                row['changed_runid'] == R and content == 'stdout' and row['stamp'] is not None and \
                tuple(row['stamp']) == tuple(w.fs_stamp(tuple(t.encode('latin-1'))) or ())
        else:
            good = row is not None and row['failed_runid'] == R and content is None
        if not good:
            return {'role': 'sched:not-serial-outcome:state', 'kind': 'sched', 'witness': wit,
                    'what': 'after the run target %s (script status %s) has content %r and row %r: not what the serial build leaves' % (
                        t, s, content, {k: v for k, v in (row or {}).items() if k not in ('rowid', 'name')})}
    return None


def judge_c08(chk, eng, cfg, st, F, outcome, val, wit):
    if outcome != 'ok' or st.get('hang'):
        return None
    w = st['w']
    res, r2 = val
    limit = cfg['top_level'] if cfg['top_level'] else (cfg['pipe0'] + cfg['others0'] + 1)
    cheated = sum(1 for k, d in w.log if k == 'cheat_func' and d.get('answer') == 1)
    if w.max_running > limit + (1 if cheated else 0):
        return {'role': 'sched:more-jobs-than-tokens', 'kind': 'sched', 'witness': wit,
                'what': '%d scripts run at the same time with a limit of %d job(s)' % (w.max_running, limit)}
    chk.goal('C08: the scheduler runs as many jobs as there are tokens', w.max_running == limit and limit >= 2)
    for r in (res, r2):
        if r is not None and r.var == 'Err':
            from specs.jobcheck import err_text
            msg = err_text(eng, r.f[0])
            if 'expected' in msg and 'tokens' in msg:
                return {'role': 'sched:toplevel-selfcheck-fails', 'kind': 'sched', 'witness': wit,
                        'what': 'top-level self check fails (%s) although the environment conserved tokens' % msg}
    if any(c['state'] != 'reaped' for c in w.children):
        return None           # abandoned children: covered by the jobserver client scripts
    if cfg['top_level'] == 0:
        # a redo parent reads the cheat pipe and withholds one token per byte; below a foreign jobserver (GNU make) the cheat pipe
        # is private to this process and a byte written there compensates nothing
        end = w.P + w.others - (0 if cfg['foreign_parent'] else w.X) + 1
        if cfg['foreign_parent']:
            chk.goal('C08: exit ledger below a foreign (GNU make) jobserver checked')
            wit['variant'] = 'foreign'
        if end != w.q0:
            return {'role': 'sched:exit-ledger', 'kind': 'sched', 'witness': wit,
                    'what': 'the process exits having %s %d token(s): pipe+others-cheat_bytes+1 = %d, the world started with %d' % (
                        'created' if end > w.q0 else 'lost', abs(end - w.q0), end, w.q0)}
        chk.goal('C08: exit ledger of a redo under an inherited jobserver checked')
    elif res.var == 'Ok':
        chk.goal('C08: top-level self check passed after a whole builder::run')
    return None


def judge_c09(chk, eng, cfg, st, F, outcome, val, wit):
    if st.get('hang'):
        return {'role': 'sched:hang', 'kind': 'sched', 'witness': wit, 'what': 'the process blocks forever: ' + st['hang']}
    if outcome == 'panic':
        fn, sp = val.site()
        short = (fn or '?').split('>::')[-1]
        from specs.jobcheck import norm_msg
        return {'role': 'sched:panic:%s:%s' % (short, norm_msg(val.msg)), 'kind': 'sched', 'witness': wit, 'panic': val.msg,
                'what': 'redo aborts: %s in %s (%s:%s) during %s' % (val.msg, short, sp[0] if sp else '?', sp[1] if sp else '?', cfg['name'])}
    if outcome != 'ok':
        return None
    res = result_var(val)
    if res == 'Err':
        msg = err_msg(eng, val)
        if 'deadlock' in msg:
            return {'role': 'sched:deadlock-error', 'kind': 'sched', 'witness': wit,
                    'what': 'block_on gives up with "JobServer deadlock" although work is outstanding'}
    # blocking lock wait only after all own jobs are done and recorded, and without a token
    for wt in F['waits']:
        chk.goal('C09: a blocking lock wait is examined')
        if wt['holding']:
            return {'role': 'sched:lock-wait-while-holding-locks', 'kind': 'sched', 'witness': wit,
                    'what': 'the process blocks in F_SETLKW on file id %s while it still holds the lock(s) %s of finished jobs whose '
                            'results are not recorded yet (running=%s): two such processes wait for each other (EDEADLK / deadlock)' % (
                                wt['fid'], wt['holding'], wt['running'])}
        if wt['running'] or wt['exited_unreaped']:
            return {'role': 'sched:lock-wait-with-running-jobs', 'kind': 'sched', 'witness': wit,
                    'what': 'the process blocks in F_SETLKW while %d of its own jobs are still running' % (wt['running'] + wt['exited_unreaped'])}
        if wt.get('my_tokens'):
            return {'role': 'sched:lock-wait-holding-token', 'kind': 'sched', 'witness': wit,
                    'what': 'the process blocks in F_SETLKW while holding %s job token(s)' % wt['my_tokens']}
    sts = F['status_by_target']
    if res == 'Err' and sts and all(s == 'ok' for s in sts.values()) and not cfg['prior'] and not cfg['no_do'] and \
            not any(o == 'failed' for o in (cfg['other_locks'] or {}).values()) and all(cfg['targets']) and not cfg['cycles']:
        return {'role': 'sched:error-although-all-scripts-succeed', 'kind': 'sched', 'witness': wit,
                'what': 'every script succeeds but the command fails: %s' % err_msg(eng, val)}
    if res == 'Ok':
        chk.goal('C09: a complete run with every script succeeding ends Ok', bool(sts) and all(s == 'ok' for s in sts.values()))
    return None


def judge_c12(chk, eng, cfg, st, F, outcome, val, wit):
    if st.get('hang'):
        return {'role': 'sched:cycle-hang', 'kind': 'sched', 'witness': wit,
                'what': 'a target that an ancestor of this process is building is waited for instead of reported as a cycle: ' + st['hang']}
    if outcome == 'panic':
        return {'role': 'sched:cycle-panic', 'kind': 'sched', 'witness': wit, 'what': 'abort while a cycle is present: %s' % val.msg}
    if outcome != 'ok':
        return None
    chk.goal('C12: a requested target is being built by an ancestor')
    res = result_var(val)
    cyc = [n.decode('latin-1') for n in cfg['cycles']]
    again = [f['target'] for f in F['forks'] if f['target'] in cyc]
    if again:
        return {'role': 'sched:cycle-target-started', 'kind': 'sched', 'witness': wit,
                'what': 'the script of %s is started although an ancestor of this process is building it' % again}
    if res != 'Err':
        return {'role': 'sched:cycle-not-reported', 'kind': 'sched', 'witness': wit,
                'what': 'builder::run returns Ok although a requested target is being built by an ancestor of this process'}
    from specs.jobcheck import err_text
    e = deref_all(val[0].f[0])
    kind = repr(e.f[0]) if isinstance(e, Struct) and e.f else ''
    msg = err_msg(eng, val)
    failed = [t for t, sc in F['status_by_target'].items() if sc == 'fail']
    if failed and not cfg['keep_going']:
        return None           # the command stopped at the failure of before it reached the cycle
    chk.goal('C12: the cycle is reached and reported')
    if 'CyclicDependency' not in kind and 'yclic' not in msg and not failed:
        return {'role': 'sched:cycle-wrong-error', 'kind': 'sched', 'witness': wit,
                'what': 'the command fails, but not with a cyclic dependency error: %s' % msg[:200]}
    if F['waits']:
        return {'role': 'sched:cycle-waits', 'kind': 'sched', 'witness': wit, 'what': 'a blocking lock wait happens on the way to the cycle error'}
    return None


def judge_history(chk, eng, cfg, st, F, outcome, val, wit):
    """a command repeated on the world its earlier invocations left, with something done by the user in between: the scripts that run
    are exactly those of the targets whose inputs changed (C02); C13: .do edits / new candidates; C05: retry after a failure"""
    if st.get('hang'):
        return None
    if outcome == 'panic':
        return {'role': 'history:panic', 'kind': 'sched', 'witness': wit, 'what': 'abort in a repeated command: %s' % val.msg}
    if outcome != 'ok':
        return None
    w = st['w']
    runs = st['runs']
    if not cfg['history']:
        return None
    first_failed = any(v == 'fail' for v in F0_status(eng, w, cfg, runs).values())
    want_fail = any(s.get('only_after_failure') for s in cfg['history'])
    if first_failed != want_fail:
        return None             # this history is about the other outcome of the first run
    chk.goal('history: ' + cfg['name'].split(': ', 1)[1][:60], len(runs) == 1 + len(cfg['history']))
    for k in range(1, len(runs)):
        r = runs[k]
        hi = runs[k + 1]['log_from'] if k + 1 < len(runs) else None
        Fk = facts(eng, w, cfg, r['log_from'], hi)
        started = sorted(f['target'] for f in Fk['forks'] if f['kind'] == 'script')
        if any(s == 'fail' for s in Fk['status_by_target'].values()) and r.get('expect_result') == 'Ok':
            return None         # a script failed in a later run: the rest of this history is about successful rebuilds
        if cfg['history'][k - 1].get('only_after_failure'):
            # what must be retried: every target whose script failed in the first run, and the targets whose scripts asked for them
            f0 = F0_status(eng, w, cfg, runs)
            need = {t for t, sc in f0.items() if sc == 'fail'}
            for tn, ops in (cfg['scripts'] or {}).items():
                if any(n.decode() in need for op in ops for n in op[1]):
                    need.add(tn.decode())
            r = dict(r, expect=sorted(need))
        wit2 = dict(wit, step=r['step'], started=started, expected=r['expect'])
        if r['expect'] is not None and started != sorted(r['expect']):
            extra = [t for t in started if t not in r['expect']]
            missing = [t for t in r['expect'] if t not in started]
            return {'role': 'history:%s' % ('runs-too-much' if extra else 'runs-too-little'), 'kind': 'sched', 'witness': wit2,
                    'what': 'after "%s" the command runs the scripts of %r; expected %r (%s)' % (r['step'], started, r['expect'], cfg['name'])}
        if r.get('expect_result') and r['result'] != r['expect_result']:
            return {'role': 'history:result', 'kind': 'sched', 'witness': wit2,
                    'what': 'after "%s" the command ends with %s, expected %s' % (r['step'], r['result'], r['expect_result'])}
        step = cfg['history'][k - 1]
        if step.get('chosen') and k == len(runs) - 1 or (step.get('chosen') and hi is not None):
            tid = F['name_to_fid'].get(cfg['targets'][0])
            names = {bytes(w.files[s_]['name']).decode(): d_['mode'] for (t_, s_), d_ in w.deps.items() if t_ == tid and s_ in w.files}
            if step.get('chosen') and hi is None and tuple(names.get(step['chosen'], b'')) != tuple(b'm'):
                return {'role': 'history:wrong-do-file', 'kind': 'sched', 'witness': wit2,
                        'what': 'after "%s" the target should be rebuilt by %s; recorded .do edges: %r' % (r['step'], step['chosen'], names)}
        for nm, tag in (step.get('content') or {}).items():
            if hi is None and w.content.get(tuple(nm.encode())) != tag:
                return {'role': 'history:user-file-changed', 'kind': 'sched', 'witness': wit2,
                        'what': 'after "%s" file %s has content %r, expected %r' % (r['step'], nm, w.content.get(tuple(nm.encode())), tag)}
    return None


def F0_status(eng, w, cfg, runs):
    hi = runs[1]['log_from'] if len(runs) > 1 else None
    return facts(eng, w, cfg, 0, hi)['status_by_target']


JUDGES = {'C03': judge_history, 'C01': judge_history, 'C02': judge_history, 'C13': judge_history, 'C14': judge_history, 'C12': judge_c12, 'C05': judge_c05, 'C06': judge_c06, 'C07': judge_c07, 'C08': judge_c08, 'C09': judge_c09}


TRACE_DO = 'echo %s >> trace\necho out-%s\n'

REPLAYS = {
    # role prefix -> (files, script, retries, what a reproducing run prints)
    'sched:started-after-failure': (
        {'a.do': 'echo a >> trace\nexit 1\n', 'b.do': TRACE_DO % ('b', 'b')},
        'i=0; while [ $i -lt 40 ]; do i=$((i+1)); rm -rf .redo a b trace; redo --no-log -j1 a b >/dev/null 2>&1; rc=$?; '
        'if grep -q "^b$" trace 2>/dev/null; then echo "REPRODUCED: run $i of redo -j1 a b: a.do exited 1 (exit status $rc) and b.do was started afterwards"; exit 0; fi; done; '
        'echo "not reproduced in $i runs"', 'REPRODUCED'),
    # the failure is known without a child of this command (no rule to build the target)
    'sched:started-after-failure/nojob': (
        {'b.do': TRACE_DO % ('b', 'b')},
        'redo --no-log -j1 norule b >out.log 2>&1; rc=$?; tail -3 out.log; '
        'if grep -q "^b$" trace 2>/dev/null; then echo "REPRODUCED: redo -j1 norule b: there is no rule for norule (exit status $rc), and b.do was started afterwards"; else echo "b.do was not started, exit $rc"; fi',
        'REPRODUCED'),
    # the failure happens while the command waits for its running jobs at the start of the second phase; a target that another
    # redo holds is still waited for and built afterwards
    'sched:started-after-failure/locked': (
        {'a.do': 'sleep 1\nexit 1\n',
         'b.do': 'echo b >> trace\nwhile [ -e hold ]; do sleep 0.1; done\necho b\n'},
        'touch hold; redo --no-log b >helper.log 2>&1 & sleep 0.5; (redo --no-log -j2 a b >main.log 2>&1; echo "main exit $?" >>main.log) & '
        'sleep 2.5; rm -f hold; wait; n=$(grep -c "^b$" trace); tail -3 main.log; '
        'if [ "$n" -ge 2 ]; then echo "REPRODUCED: redo -j2 a b (a.do fails after 1 s, b locked by another redo until 2.5 s): b.do was run $n times - the command went on to wait for and build b after the failure of a was known"; else echo "b.do ran $n time(s)"; fi',
        'REPRODUCED'),
    # below GNU make (own cheat pipe): R2 = `redo gate x` under MAKEFLAGS with an empty token pipe; R1 = a later `redo x` that holds x
    # and fails; R2 waits for x, sees the failure; afterwards the bytes in the token pipe are counted
    'sched:exit-ledger/foreign': (
        {'gate.do': 'sleep 1\necho gate\n', 'x.do': 'echo x >> trace\nwhile [ -e hold ]; do sleep 0.1; done\nexit 1\n',
         'count.py': 'import os\nfd = os.open("jp", os.O_RDONLY | os.O_NONBLOCK)\ntry:\n    print(len(os.read(fd, 100)))\nexcept BlockingIOError:\n    print(0)\n'},
        'mkfifo jp; exec 3<>jp 4<>jp; touch hold; '
        '(MAKEFLAGS=" -j --jobserver-auth=3,4" redo --no-log gate x >r2.log 2>&1; echo "r2 exit $?" >>r2.log) & sleep 0.4; '
        '(redo --no-log x >r1.log 2>&1; echo "r1 exit $?" >>r1.log) 3<&- 4<&- & sleep 1.6; rm -f hold; wait; '
        'n=$(python3 count.py); tail -2 r2.log | cut -c1-200; '
        'if [ "$n" != 0 ]; then echo "REPRODUCED: a redo below a make-style jobserver (token pipe empty at the start, took nothing) left $n token(s) in the pipe"; else echo "token pipe empty again"; fi',
        'REPRODUCED'),
    # a sub-redo that gave its token up while waiting for a lock must get one back although it has no child of its own
    'sched:hang': (
        {'a.do': 'redo-ifchange c\necho a\n', 'b.do': 'sleep 0.7\nredo-ifchange c\necho b\n', 'c.do': 'sleep 2\necho c\n'},
        'timeout 25 redo --no-log -j2 a b >out.log 2>&1; rc=$?; tail -3 out.log | cut -c1-160; '
        'if [ $rc -eq 124 ]; then echo "REPRODUCED: redo --no-log -j2 a b (a and b both need c, which takes 2 s) does not finish within 25 s"; else echo "finished, exit $rc"; fi',
        'REPRODUCED'),
    # a second `redo t` arrives while the first one is inside t.do; after the wait it must rebuild t from the row as the first left it
    'sched:stale-row-written-back': (
        {'t.do': 'echo t >> trace\nwhile [ -e hold ]; do sleep 0.1; done\necho out\n'},
        'touch hold; redo --no-log t >a.log 2>&1 & sleep 0.5; (redo --no-log t >b.log 2>&1; echo "b exit $?" >>b.log) & sleep 1; rm -f hold; wait; '
        'n=$(grep -c "^t$" trace); k=$(redo-targets | grep -c "^t$"); tail -2 b.log | cut -c1-160; '
        'if [ "$k" -ne 1 ] || [ "$n" -ne 2 ]; then echo "REPRODUCED: two redo t, the second waiting for the first: t.do ran $n time(s) (want 2), redo-targets lists t $k time(s) (want 1) - the row the first process recorded was overwritten"; else echo "t rebuilt by the second redo and still a target"; fi',
        'REPRODUCED'),
    # one target under two spellings, held by another redo when the command reaches it
    'sched:target-run-twice/locked': (
        {'c.do': 'echo c >> trace\nwhile [ -e hold ]; do sleep 0.1; done\necho c\n'},
        'touch hold; redo --no-log c >helper.log 2>&1 & sleep 0.5; (redo --no-log -j2 c ./c >main.log 2>&1; echo "main exit $?" >>main.log) & '
        'sleep 1; rm -f hold; wait; n=$(grep -c "^c$" trace); tail -2 main.log; '
        'if [ "$n" -ge 3 ]; then echo "REPRODUCED: redo c ./c while another redo holds c: c.do ran $n times (once by the holder, $((n-1)) times by this one command)"; else echo "c.do ran $n times (holder + once)"; fi',
        'REPRODUCED'),
    'sched:target-run-twice': (
        {'a.do': 'echo a >> trace\nsleep 0.5\necho a\n', 'b.do': 'echo b\n'},
        'redo --no-log -j1 a ./a >o1.log 2>&1; r1=$?; redo --no-log -j2 a b a >o2.log 2>&1; r2=$?; n=$(grep -c "^a$" trace); tail -2 o1.log o2.log | cut -c1-160; '
        'if [ "$n" -gt 2 ] || [ $r1 -ne 0 ] || [ $r2 -ne 0 ]; then echo "REPRODUCED: redo a ./a and redo a b a: a.do ran $n times in two commands (exit $r1, $r2)"; else echo "a.do ran once per command"; fi',
        'REPRODUCED'),
    # a second request for x (same run) arrives while x is being built and x.do then fails
    'sched:rebuilt-after-other-failed': (
        {'x.do': 'echo x >> trace\nsleep 1.5\nexit 1\n', 'p.do': 'redo x\n',
         'q.do': 'while [ ! -e trace ]; do sleep 0.1; done\nredo x\n'},
        'timeout 60 redo --no-log -j4 p q >out.log 2>&1; rc=$?; n=$(grep -c "^x$" trace); grep -c "exit" out.log >/dev/null; '
        'if [ "$n" -ge 2 ]; then echo "REPRODUCED: redo -j4 p q (p.do: redo x; q.do: redo x while x is being built; x.do fails): x.do was executed $n times in one run, exit $rc"; else echo "x.do ran $n time(s), exit $rc"; fi',
        'REPRODUCED'),
    'sched:failure-not-propagated/locked': (
        {'x.do': 'echo x >> trace\nsleep 1.5\nexit 1\n', 'p.do': 'redo x\n',
         'q.do': 'while [ ! -e trace ]; do sleep 0.1; done\nredo x\n'},
        'timeout 60 redo --no-log -j4 p q >out.log 2>&1; rc=$?; n=$(grep -c "^x$" trace); '
        'if [ "$n" -ge 2 ]; then echo "REPRODUCED: redo -j4 p q (p.do: redo x; q.do: redo x while x is being built; x.do fails): the second requester did not report the failure recorded by the first but ran x.do again ($n executions), exit $rc"; else echo "x.do ran $n time(s), exit $rc"; fi',
        'REPRODUCED'),
    # the out-of-band path (redo-unlocked): the caller must keep the target locked until the child is done
    'sched:unlock-before-result-committed/unlocked-job': (
        {'dep.do': 'redo-always\nwhile [ -e hold ]; do sleep 0.1; done\ncat ver\ncat ver | redo-stamp\n',
         't.do': 'redo-ifchange dep\nmkdir t.running 2>/dev/null || echo overlap >> overlaps\necho t >> trace\nsleep 2\nrmdir t.running 2>/dev/null\ncat dep\n'},
        'echo v1 > ver; redo --no-log t >first.log 2>&1 || { cat first.log; echo "setup build failed"; exit 0; }; rm -f trace overlaps; '
        'echo v2 > ver; touch hold; (redo-ifchange t >p1.log 2>&1; echo "p1 exit $?" >>p1.log) & sleep 0.7; '
        '(redo-ifchange t >p2.log 2>&1; echo "p2 exit $?" >>p2.log) & sleep 1; rm -f hold; wait; '
        'n=$(grep -c "^t$" trace 2>/dev/null); tail -2 p1.log p2.log | cut -c1-160; '
        'if [ -e overlaps ] || [ "${n:-0}" -ge 2 ]; then echo "REPRODUCED: two redo-ifchange t while the checksummed dependency is being rebuilt out of band: t.do executions=$n, overlapping=$( [ -e overlaps ] && echo yes || echo no )"; else echo "t.do ran ${n:-0} time(s), no overlap"; fi',
        'REPRODUCED'),
    'sched:keep-going-not-built': (
        {'a.do': 'exit 1\n', 'b.do': TRACE_DO % ('b', 'b'),
         'top.do': 'redo-ifchange a || true\nredo-ifchange a b || echo "second redo-ifchange: exit $?" >&2\n'},
        'redo --no-log -k top >out.log 2>&1; rc=$?; cat out.log | tail -5; '
        'if grep -q "^b$" trace 2>/dev/null; then echo "b was built"; else echo "REPRODUCED: with --keep-going redo-ifchange a b (a failed earlier in this run) never built b; top-level exit $rc"; fi',
        'REPRODUCED'),
    'sched:panic': (
        {'a.do': 'sleep 1\necho a\n'},
        'redo --no-log -j2 a ./a >out.log 2>&1; rc=$?; tail -3 out.log; if [ $rc -eq 101 ] || grep -q panicked out.log; then echo "REPRODUCED: redo -j2 a ./a exit $rc"; fi',
        'REPRODUCED'),
    'sched:lock-wait-while-holding-locks': (
        {'a.do': 'sleep 0.3\necho a\n', 'b.do': 'sleep 0.3\necho b\n', 'p.do': 'redo-ifchange a b\n', 'q.do': 'redo-ifchange b a\n'},
        'i=0; while [ $i -lt 30 ]; do i=$((i+1)); rm -rf .redo a b p q; timeout 60 redo --no-log -j4 p q >out.log 2>&1; rc=$?; '
        'if [ $rc -ne 0 ]; then grep -i "deadlock\|exit" out.log | head -4; echo "REPRODUCED: run $i of redo -j4 p q (p: redo-ifchange a b; q: redo-ifchange b a; every script succeeds): exit $rc"; exit 0; fi; done; '
        'echo "not reproduced in $i runs"', 'REPRODUCED'),
}


def history_replay(scn, c):
    """real binaries: the same history (command, user action, command again ...) in a throw-away project; after every step the
    scripts that ran are compared with the expectation"""
    w = c.get('witness') or {}
    cfg = next((x for x in configs(True) if x['name'] == w.get('config')), None)
    if cfg is None or any(s_.get('only_after_failure') for s_ in cfg['history']):
        return False, 'no replay for this history'
    targets = [t.decode() for t in cfg['targets']]
    requested = list(targets)
    nested = {}
    for tn, ops in (cfg['scripts'] or {}).items():
        for op in ops:
            if op[0] == 'ifchange':
                nested[tn.decode()] = [n.decode() for n in op[1]]
                for n in op[1]:
                    if n.decode() not in targets:
                        targets.append(n.decode())
    stamps = {}
    native_always = set()
    native_ifcreate = {}
    for tn, ops in (cfg['scripts'] or {}).items():
        for op in ops:
            if op[0] == 'stamp':
                stamps[tn.decode()] = op[1]
            if op[0] == 'always':
                native_always.add(tn.decode())
            if op[0] == 'ifcreate':
                native_ifcreate[tn.decode()] = [n.decode() for n in op[1]]
    body = ('echo @T@ >> trace\nif [ -s decl-@T@ ]; then redo-ifchange $(cat decl-@T@); fi\nif [ -e stamp-@T@ ]; then redo-stamp < stamp-@T@; fi\n'
            'if [ -s declc-@T@ ]; then redo-ifcreate $(cat declc-@T@) || exit 0; fi\nif [ -e always-@T@ ]; then redo-always; fi\necho out-of-@T@\n')
    files = {}
    for t in targets:
        if t.encode() not in cfg['no_do']:
            files[t + '.do'] = body.replace('@T@', t)
    if cfg['default_do']:
        files['default.do'] = 'echo $1 >> trace\nif [ -s decl-$1 ]; then redo-ifchange $(cat decl-$1); fi\necho out-of-$1-by-default\n'
    for name, (cells, fs_t) in (cfg['prior'] or {}).items():
        if fs_t is not None:
            files[name.decode()] = 'source v1\n'

    def decl_cmds(d):
        out = []
        for t in targets:
            srcname = (d or {}).get(tuple(t.encode()))
            if t in native_always:
                out.append('printf %%s "" > decl-%s; : > always-%s' % (t, t))
                continue
            if t in native_ifcreate:
                out.append('printf %%s "" > decl-%s; printf %%s "%s" > declc-%s' % (t, ' '.join(native_ifcreate[t]), t))
                continue
            if t in nested:
                out.append('printf %%s "%s" > decl-%s' % (' '.join(nested[t]), t))
                continue
            if isinstance(srcname, tuple):
                out.append('printf %%s "" > decl-%s' % t)
                if srcname[0] == 'always':
                    out.append(': > always-%s' % t)
                else:
                    out.append('printf %%s "%s" > declc-%s' % (srcname[1].decode(), t))
                continue
            out.append('printf %%s "%s" > decl-%s' % (srcname.decode() if srcname else '', t))
            if srcname:
                out.append('[ -e %s ] || echo "source v1" > %s' % (srcname.decode(), srcname.decode()))
        return '; '.join(out)
    cmd = 'redo-ifchange ' + ' '.join(requested)

    def stamp_cmds(runid):
        out = []
        for t, dg in stamps.items():
            d = dg.get(runid, dg.get('default')) if isinstance(dg, dict) else dg
            out.append('echo "%s" > stamp-%s' % (d.decode(), t))
        return '; '.join(out) or ':'
    lines = [decl_cmds(cfg['declares']), stamp_cmds(R), ': > trace', cmd + ' >run0.log 2>&1; echo "STEP 0 rc=$? ran=$(sort trace | tr "\\n" " ")"']
    for k, step in enumerate(cfg['history']):
        for op in ([step['mutate']] if isinstance(step.get('mutate'), str) else (step.get('mutate') or [])):
            kind, name = op.split(':', 1)
            lines.append('sleep 0.05')
            if kind == 'touch':
                lines.append('echo "# edited by the user in step %d" >> %s' % (k + 1, name))
            elif kind == 'create':
                t = name[:-3] if name.endswith('.do') else name
                lines.append("printf '%s' > %s" % (body.replace('@T@', t).replace('\n', '\\n'), name) if name.endswith('.do')
                             else 'echo created > %s' % name)
            elif kind == 'remove':
                lines.append('rm -f %s' % name)
        if 'declares' in step:
            lines.append(decl_cmds(step['declares']))
        lines.append(stamp_cmds(R + 1 + k))
        lines.append(': > trace')
        lines.append(cmd + ' >run%d.log 2>&1; echo "STEP %d rc=$? ran=$(sort trace | tr "\\n" " ")"' % (k + 1, k + 1))
    rc, out = scn.run(files, '\n'.join(lines), timeout=180)
    c['native_scenario'] = {'files': files, 'script': lines}
    got = {}
    for l in out.split('\n'):
        if l.startswith('STEP '):
            parts = l.split(' ', 3)
            got[int(parts[1])] = (parts[2], sorted(parts[3][4:].split()) if len(parts) > 3 else [])
    bad = []
    for k, step in enumerate(cfg['history']):
        if step.get('expect') is None or (k + 1) not in got:
            continue
        if got[k + 1][1] != sorted(step['expect']):
            bad.append('after "%s": ran %r, expected %r' % (step['name'], got[k + 1][1], sorted(step['expect'])))
    return bool(bad), 'real binaries, `%s` repeated: %s' % (cmd, '; '.join(bad) if bad else 'as expected %r' % (got,))


def replay_cand(chk, scn, c):
    """real binaries; schedules that depend on the pseudo-random polling order of futures::select! are retried"""
    role = c.get('role', '')
    if role.startswith('history:'):
        return history_replay(scn, c)
    variant = (c.get('witness') or {}).get('variant', 'plain')
    keys = sorted(REPLAYS, key=lambda k: -len(k))
    for prefix in keys:
        files, script, needle = REPLAYS[prefix]
        base, _, var = prefix.partition('/')
        if role.startswith(base) and (not var or var == variant):
            rc, out = scn.run(files, script, timeout=900)
            c['native_scenario'] = {'files': files, 'script': script}
            return (needle in out), 'real binaries: ' + out.strip()[-600:]
    return False, 'no replay driver for role %s' % role


def make_replay(chk, scn):
    return lambda c: replay_cand(chk, scn, c)


def uninstall(eng):
    """give the engine back to obligations that stub the jobserver hand-over"""
    eng.probes.pop('JobServerHandle::start', None)
    if hasattr(eng, '_sched_saved_stubs'):
        eng.stubs.clear()
        eng.stubs.update(eng._sched_saved_stubs)
        eng.summaries.clear()
        eng.summaries.update(eng._sched_saved_summaries)
        del eng._sched_saved_stubs
        del eng._sched_saved_summaries
