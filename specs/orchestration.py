"""Process-level orchestration facts read off the bin-crate MIR (what the real code spawns, in which order, with which
environment)."""
import z3
from mirsym.values import *
from mirsym.summaries.core import some, none, ok, err, deref_all
from mirsym.summaries.env import World
from specs import dbmodel


class ProcWorld(World):
    def __init__(self, eng, argv, env=None, exit_codes=(0, 1)):
        self.eng = eng
        self._argv = argv
        self.envmap = dict(env or {})
        self.spawns = []
        self.exit_codes = exit_codes
        self.log = []

    def argv(self, eng):
        return self._argv

    def getenv(self, eng, k, os_string=True):
        v = self.envmap.get(k)
        if v is None:
            return none() if os_string else err(Enum('VarError', 'NotPresent'))
        val = Vec(list(v.encode()), 'OsString' if os_string else 'String')
        return some(val) if os_string else ok(val)

    def setenv(self, eng, k, v):
        self.envmap[k] = v
        eng.event('setenv', k=k, v=v)

    def spawn(self, eng, prog, args, env, sp):
        self.spawns.append({'prog': prog, 'args': args, 'env': env})
        eng.event('spawn', prog=prog, args=args, env=env)
        return ok(Opaque('Child', len(self.spawns) - 1))

    def child_wait(self, eng, child, sp):
        k = eng.choose(len(self.exit_codes), 'exit status of child %d' % child.data)
        code = self.exit_codes[k]
        self.spawns[child.data]['status'] = code
        eng.event('wait', child=child.data, status=code)
        return ok(Opaque('ExitStatus', code))


def install_proc_stubs(eng):
    env_ok = lambda e, ci, a, sp: ok(dbmodel.make_env(e, 5))
    eng.stubs['Env::inherit'] = env_ok
    eng.stubs['redo::Env::inherit'] = env_ok
    eng.stubs['env::<impl at src/env.rs:85:1: 85:9>::inherit'] = env_ok
    for n in ('LogBuilder::setup', 'logs::<impl at src/logs.rs:283:1: 283:16>::setup', 'redo::logs::LogBuilder::setup'):
        eng.stubs[n] = lambda e, ci, a, sp: UNIT
    eng.summaries['<LogBuilder as From>::from'] = lambda e, ci, a, sp: Opaque('LogBuilder')


def unlocked_reevaluates(chk):
    """redo-unlocked <target> <deps..>: after the dependencies were built successfully, `redo-ifchange <target>` must be run
    with REDO_UNLOCKED and REDO_NO_OOB, and nothing else may be run with REDO_UNLOCKED (the caller holds only that lock)."""
    eng = chk.eng
    install_proc_stubs(eng)
    st = {}
    TARGET, DEPS = b'top', [b'mid', b'mid2']

    def run():
        w = ProcWorld(eng, [b'redo-unlocked', TARGET] + DEPS, env={'REDO': '1'})
        eng.world = w
        st['w'] = w
        return eng.call('unlocked::run', [], None, None)

    def judge(outcome, val, path):
        w = st['w']
        if outcome == 'panic':
            return {'role': 'redo-unlocked-panics', 'kind': 'none', 'what': 'redo-unlocked panics: ' + val.msg, 'witness': {}}
        if outcome == 'exit':
            chk.goal('redo-unlocked: a failing first stage exits with its status')
            return None
        first_ok = len(w.spawns) >= 1 and w.spawns[0].get('status') == 0
        if not first_ok:
            return None
        chk.goal('redo-unlocked: second stage reached')
        unl = [s for s in w.spawns if ('REDO_UNLOCKED', '1') in s['env']]
        good = len(unl) == 1 and unl[0]['prog'] == 'redo-ifchange' and unl[0]['args'] == [TARGET.decode()] and \
            ('REDO_NO_OOB', '1') in unl[0]['env']
        first = w.spawns[0]
        good = good and first['prog'] == 'redo-ifchange' and first['args'] == [d.decode() for d in DEPS] and \
            ('REDO_NO_OOB', '1') in first['env'] and ('REDO_UNLOCKED', '1') not in first['env']
        if not good:
            return {'role': 'redo-unlocked-does-not-reevaluate-primary-target', 'kind': 'scenario',
                    'what': 'redo-unlocked spawns %r; expected `redo-ifchange <deps>` then `REDO_UNLOCKED=1 redo-ifchange <target>`: the '
                            'primary target is never re-evaluated after its checksummed dependency was rebuilt' %
                            [(s['prog'], s['args'], [e for e in s['env']]) for s in w.spawns],
                    'witness': {'spawns': w.spawns},
                    'files': STAMP_FILES, 'script': STAMP_SCRIPT, 'violated': 'stale_after_stamp'}
        return None

    def sample(outcome, val, path):
        return {'argv': ['redo-unlocked', 'top', 'mid', 'mid2'], 'outcome': outcome, 'spawns': st['w'].spawns}

    chk.explore('redo-unlocked re-evaluates the primary target', run, judge, sample, max_samples=2)


def inherit_clears_unlocked(chk):
    """REDO_UNLOCKED / REDO_NO_OOB are meant for exactly one process (the `redo-ifchange <target>` that redo-unlocked starts under
    the caller's lock).  Env::inherit must record them and then clear them in the process environment, so that nothing started
    below runs without locks and without the cycle check."""
    from specs.depsobl import EnvWorld
    eng = chk.eng
    st = {}

    def run():
        env = {'REDO': '1', 'REDO_BASE': '/p', 'REDO_STARTDIR': '/p', 'REDO_PWD': '', 'REDO_TARGET': 'tgt', 'REDO_RUNID': '5',
               'REDO_DEPTH': '  '}
        u = eng.choose(2, 'REDO_UNLOCKED set')
        n = eng.choose(2, 'REDO_NO_OOB set')
        if u:
            env['REDO_UNLOCKED'] = '1'
        if n:
            env['REDO_NO_OOB'] = '1'
        w = EnvWorld(eng, {k: [ord(c) for c in v] for k, v in env.items()})
        eng.world = w
        st.update(w=w, u=u, n=n)
        # other obligations of the same check replace Env::inherit by a ready-made Env; here the real body is the subject
        saved = {k: eng.stubs.pop(k) for k in list(eng.stubs) if k.endswith('::inherit') or k == 'Env::inherit'}
        try:
            return eng.call('Env::inherit', [], None, None)
        finally:
            eng.stubs.update(saved)

    def judge(outcome, val, path):
        w = st['w']
        if outcome != 'ok' or val.var != 'Ok':
            return {'role': 'env-inherit:' + outcome, 'kind': 'none', 'what': 'Env::inherit: %s %r' % (outcome, val), 'witness': {}}
        f = {nm: val.f[0].f[i] for i, nm in enumerate(eng.src.structs['Env'])}
        chk.goal('Env::inherit: REDO_UNLOCKED was set', bool(st['u']))

        def truthy(k):
            v = w.envmap.get(k)
            return v is not None and len(v) > 0 and bytes(v) != b'0'
        bad = None
        if bool(f['unlocked']) != bool(st['u']) or bool(f['no_oob']) != bool(st['n']):
            bad = 'the flags are not recorded as given (unlocked=%r no_oob=%r)' % (f['unlocked'], f['no_oob'])
        elif truthy('REDO_UNLOCKED'):
            bad = 'REDO_UNLOCKED stays set in the environment: every process started below runs without locks and without the cycle check'
        elif truthy('REDO_NO_OOB'):
            bad = 'REDO_NO_OOB stays set in the environment of the processes started below'
        if bad:
            return {'role': 'env-inherit:' + bad.split(' ')[0], 'kind': 'scenario', 'what': 'Env::inherit: ' + bad, 'witness': {'env_after': {k: bytes(v).decode() for k, v in w.envmap.items()}},
                    'files': UNLOCKED_LEAK_FILES, 'script': UNLOCKED_LEAK_SCRIPT, 'violated': 'unlocked_leaks'}
        return None

    chk.explore('Env::inherit records and clears REDO_UNLOCKED / REDO_NO_OOB', run, judge)


UNLOCKED_LEAK_FILES = {
    'top.do': 'REDO_UNLOCKED=1 REDO_NO_OOB=1 redo-ifchange sub\n',
    'sub.do': 'echo "U=[$REDO_UNLOCKED] N=[$REDO_NO_OOB]" > seen.txt\necho sub\n',
}
UNLOCKED_LEAK_SCRIPT = '''
redo-ifchange top >log1 2>&1; echo "RC1=$?"
cat seen.txt
'''


def unlocked_leaks(out):
    import re
    m = re.search(r'U=\[(.*?)\] N=\[(.*?)\]', out)
    return bool(m) and (m.group(1) not in ('', '0') or m.group(2) not in ('', '0'))


# end-to-end scenario that manifests the defect with the real binaries (replay of the counterexample)
STAMP_FILES = {
    'mid.do': 'redo-ifchange src.txt\ncat src.txt >$3\nredo-stamp <$3\n',
    'top.do': 'redo-ifchange mid\necho "top of $(cat mid)" >$3\n',
    'src.txt': 'v1\n',
}
STAMP_SCRIPT = '''
redo-ifchange --version >/dev/null 2>&1
redo-ifchange top >log1 2>&1; echo "RC1=$?"
echo "TOP1=$(cat top)"
sleep 1.1
echo v2 > src.txt
redo-ifchange top >log2 2>&1; echo "RC2=$?"
echo "TOP2=$(cat top)"
redo-ood 2>/dev/null | sed 's/^/OOD=/'
'''


def stale_after_stamp(out):
    return 'RC2=0' in out and 'TOP2=top of v1' in out


# redo-always: a fresh project, one redo-always target requested by three dependents in one top-level run
ALWAYS_FILES = {
    'all.do': 'redo-ifchange a b c\n',
    'a.do': 'redo-ifchange version\ncat version\n', 'b.do': 'redo-ifchange version\ncat version\n',
    'c.do': 'redo-ifchange version\ncat version\n',
    'version.do': 'redo-always\necho ran >> version.count\necho stamp-$$\n',
}
ALWAYS_SCRIPT = '''
redo-ifchange all >log1 2>&1; echo "RC1=$?"
echo "RUNS1=$(wc -l < version.count)"
: > version.count
redo-ifchange all >log2 2>&1; echo "RC2=$?"
echo "RUNS2=$(wc -l < version.count)"
'''


def always_more_than_once(out):
    import re
    runs = [int(x) for x in re.findall(r'RUNS\d=\s*(\d+)', out)]
    return 'RC1=0' in out and any(r != 1 for r in runs)


# redo-ood must not change the database: a generated target whose file was removed makes is_dirty write to its row
OOD_FILES = {
    't.do': 'redo-ifchange src\ncat src\n',
    'p.do': 'redo-ifchange t\ncat t\n',
    'src': 'v1\n',
}
OOD_SCRIPT = '''
redo-ifchange p >log1 2>&1 || { echo SETUP-FAILED; exit 97; }
rm -f t
dump() { python3 - <<'PY'
import sqlite3
c = sqlite3.connect('.redo/db.sqlite3')
rows = c.execute('select name, is_generated, is_override, checked_runid, changed_runid, failed_runid, stamp, csum from Files order by name').fetchall()
deps = c.execute('select target, source, mode, delete_me from Deps order by target, source').fetchall()
print(repr((rows, deps)))
PY
}
dump > ../before.txt
redo-ood > ../ood.txt 2>&1; echo "OODRC=$?"
redo-targets >/dev/null 2>&1; redo-sources >/dev/null 2>&1
dump > ../after.txt
if cmp -s ../before.txt ../after.txt; then echo "DB=same"; else echo "DB=changed"; fi
sed 's/^/OOD=/' ../ood.txt
'''


# redo-ood must list a checksummed target whose input changed, and its dependents
OOD_LIST_SCRIPT = '''
redo-ifchange top >log1 2>&1 || { echo SETUP-FAILED; exit 97; }
sleep 0.05
echo v2 > src.txt
redo-ood 2>/dev/null | sort | tr '\\n' ' ' | sed 's/^/OODLIST=/'; echo
: > ran.log
redo-ifchange top >log2 2>&1; echo "RC2=$?"
echo "TOP2=$(cat top)"
'''


def ood_omits_stamped(out):
    import re
    m = re.search(r'OODLIST=(.*)', out)
    listed = m.group(1).split() if m else []
    return 'TOP2=top of v2' in out and not ('mid' in listed and 'top' in listed)


# redo-ifcreate called after `cd sub`: the name is the caller's (relative to its cwd), both for the "already exists" test
# and for the recorded dependency
IFCREATE_FILES = {
    't.do': 'cd sub\nredo-ifcreate F\necho built >> ../t.runs\necho t\n',     # sub/F exists: must be refused
    'u.do': 'cd sub\nredo-ifcreate G\necho built >> ../u.runs\necho u\n',     # sub/G absent (a G next to the script exists)
    'sub/F': 'exists\n', 'G': 'decoy\n', 'sub/.keep': '',
}
IFCREATE_SCRIPT = '''
redo-ifchange t >log1 2>&1; echo "RCT=$?"
redo-ifchange u >log2 2>&1; echo "RCU=$?"
echo "URUNS1=$(wc -l < u.runs 2>/dev/null || echo 0)"
echo now > sub/G
redo-ifchange u >log3 2>&1; echo "RCU2=$?"
echo "URUNS2=$(wc -l < u.runs 2>/dev/null || echo 0)"
'''


def ifcreate_wrong_dir(out):
    lines = dict(l.split('=', 1) for l in out.split('\n') if '=' in l)
    lines = {k: v.strip() for k, v in lines.items()}
    # t must fail (sub/F exists); u must build once, and again exactly when sub/G appears
    return lines.get('RCT') == '0' or lines.get('RCU') != '0' or lines.get('URUNS1') != '1' or lines.get('URUNS2') != '2'


# a redo-always + redo-stamp target that failed once and then builds fine again with the same content: it must be built once per
# run, not once per dependent
STAMP_FAIL_FILES = {
    'all.do': 'redo-ifchange p1 p2\n',
    'p1.do': 'redo-ifchange a\ncat a\n', 'p2.do': 'redo-ifchange a\ncat a\n',
    'a.do': 'redo-always\necho ran >> a.runs\n[ -e fail-now ] && exit 1\necho constant > $3\nredo-stamp < $3\n',
}
STAMP_FAIL_SCRIPT = '''
redo-ifchange all >log1 2>&1; echo "RC1=$?"
: > fail-now
redo-ifchange all >log2 2>&1; echo "RC2=$?"
rm -f fail-now
redo-ifchange all >log3 2>&1; echo "RC3=$?"
: > a.runs
redo-ifchange all >log4 2>&1; echo "RC4=$?"
echo "RUNS4=$(wc -l < a.runs)"
'''


def stamped_target_stays_dirty(out):
    lines = dict(l.split('=', 1) for l in out.split('\n') if '=' in l)
    return lines.get('RC4', '').strip() == '0' and lines.get('RUNS4', '').strip() not in ('1',)


def ood_changes_db(out):
    return 'DB=changed' in out


PREDICATES = {'stale_after_stamp': stale_after_stamp, 'always_more_than_once': always_more_than_once, 'ood_changes_db': ood_changes_db, 'ood_omits_stamped': ood_omits_stamped, 'unlocked_leaks': unlocked_leaks, 'ifcreate_wrong_dir': ifcreate_wrong_dir, 'stamped_target_stays_dirty': stamped_target_stays_dirty}
