"""Process-level orchestration facts read off the bin-crate MIR (what the real code spawns, in which order, with which
environment)."""
import z3
from mirsym.values import *
from mirsym.summaries.core import some, none, ok, err, deref_all
from mirsym.summaries.env import World
from specs import dbmodel


class ProcWorld(World):
    def __init__(self, eng, argv, env=None, exit_codes=(0, 1)):
        self.eng = eng
        self._argv = argv
        self.envmap = dict(env or {})
        self.spawns = []
        self.exit_codes = exit_codes
        self.log = []

    def argv(self, eng):
        return self._argv

    def getenv(self, eng, k, os_string=True):
        v = self.envmap.get(k)
        if v is None:
            return none() if os_string else err(Enum('VarError', 'NotPresent'))
        val = Vec(list(v.encode()), 'OsString' if os_string else 'String')
        return some(val) if os_string else ok(val)

    def setenv(self, eng, k, v):
        self.envmap[k] = v
        eng.event('setenv', k=k, v=v)

    def spawn(self, eng, prog, args, env, sp):
        self.spawns.append({'prog': prog, 'args': args, 'env': env})
        eng.event('spawn', prog=prog, args=args, env=env)
        return ok(Opaque('Child', len(self.spawns) - 1))

    def child_wait(self, eng, child, sp):
        k = eng.choose(len(self.exit_codes), 'exit status of child %d' % child.data)
        code = self.exit_codes[k]
        self.spawns[child.data]['status'] = code
        eng.event('wait', child=child.data, status=code)
        return ok(Opaque('ExitStatus', code))


def install_proc_stubs(eng):
    env_ok = lambda e, ci, a, sp: ok(dbmodel.make_env(e, 5))
    eng.stubs['Env::inherit'] = env_ok
    eng.stubs['redo::Env::inherit'] = env_ok
    eng.stubs['env::<impl at src/env.rs:85:1: 85:9>::inherit'] = env_ok
    for n in ('LogBuilder::setup', 'logs::<impl at src/logs.rs:283:1: 283:16>::setup', 'redo::logs::LogBuilder::setup'):
        eng.stubs[n] = lambda e, ci, a, sp: UNIT
    eng.summaries['<LogBuilder as From>::from'] = lambda e, ci, a, sp: Opaque('LogBuilder')


def unlocked_reevaluates(chk):
    """redo-unlocked <target> <deps..>: after the dependencies were built successfully, `redo-ifchange <target>` must be run
    with REDO_UNLOCKED and REDO_NO_OOB, and nothing else may be run with REDO_UNLOCKED (the caller holds only that lock)."""
    eng = chk.eng
    install_proc_stubs(eng)
    st = {}
    TARGET, DEPS = b'top', [b'mid', b'mid2']

    def run():
        w = ProcWorld(eng, [b'redo-unlocked', TARGET] + DEPS, env={'REDO': '1'})
        eng.world = w
        st['w'] = w
        return eng.call('unlocked::run', [], None, None)

    def judge(outcome, val, path):
        w = st['w']
        if outcome == 'panic':
            return {'role': 'redo-unlocked-panics', 'kind': 'none', 'what': 'redo-unlocked panics: ' + val.msg, 'witness': {}}
        if outcome == 'exit':
            chk.goal('redo-unlocked: a failing first stage exits with its status')
            return None
        first_ok = len(w.spawns) >= 1 and w.spawns[0].get('status') == 0
        if not first_ok:
            return None
        chk.goal('redo-unlocked: second stage reached')
        unl = [s for s in w.spawns if ('REDO_UNLOCKED', '1') in s['env']]
        good = len(unl) == 1 and unl[0]['prog'] == 'redo-ifchange' and unl[0]['args'] == [TARGET.decode()] and \
            ('REDO_NO_OOB', '1') in unl[0]['env']
        first = w.spawns[0]
        good = good and first['prog'] == 'redo-ifchange' and first['args'] == [d.decode() for d in DEPS] and \
            ('REDO_NO_OOB', '1') in first['env'] and ('REDO_UNLOCKED', '1') not in first['env']
        if not good:
            return {'role': 'redo-unlocked-does-not-reevaluate-primary-target', 'kind': 'scenario',
                    'what': 'redo-unlocked spawns %r; expected `redo-ifchange <deps>` then `REDO_UNLOCKED=1 redo-ifchange <target>`: the '
                            'primary target is never re-evaluated after its checksummed dependency was rebuilt' %
                            [(s['prog'], s['args'], [e for e in s['env']]) for s in w.spawns],
                    'witness': {'spawns': w.spawns},
                    'files': STAMP_FILES, 'script': STAMP_SCRIPT, 'violated': 'stale_after_stamp'}
        return None

    def sample(outcome, val, path):
        return {'argv': ['redo-unlocked', 'top', 'mid', 'mid2'], 'outcome': outcome, 'spawns': st['w'].spawns}

    chk.explore('redo-unlocked re-evaluates the primary target', run, judge, sample, max_samples=2)


# end-to-end scenario that manifests the defect with the real binaries (replay of the counterexample)
STAMP_FILES = {
    'mid.do': 'redo-ifchange src.txt\ncat src.txt >$3\nredo-stamp <$3\n',
    'top.do': 'redo-ifchange mid\necho "top of $(cat mid)" >$3\n',
    'src.txt': 'v1\n',
}
STAMP_SCRIPT = '''
redo-ifchange --version >/dev/null 2>&1
redo-ifchange top >log1 2>&1; echo "RC1=$?"
echo "TOP1=$(cat top)"
sleep 1.1
echo v2 > src.txt
redo-ifchange top >log2 2>&1; echo "RC2=$?"
echo "TOP2=$(cat top)"
redo-ood 2>/dev/null | sed 's/^/OOD=/'
'''


def stale_after_stamp(out):
    return 'RC2=0' in out and 'TOP2=top of v1' in out


PREDICATES = {'stale_after_stamp': stale_after_stamp}
