#!/usr/bin/env python3-vt
"""C11 - targets are replaced atomically and only by complete, unambiguous output (see DESIGN.md §5 C11)."""
import os, sys
sys.path.insert(0, os.path.dirname(os.path.dirname(os.path.abspath(__file__))))
from specs import buildfamily
buildfamily.main("C11")
