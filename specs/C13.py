#!/usr/bin/env python3-vt
"""C13 — .do rule selection order and script arguments (see DESIGN.md §5 C13).

Real MIR executed: paths::possible_do_files, PossibleDoFiles::next, RecursiveDoFilesState::{from_path_buf,next} (the
ouroboros self-reference plumbing is replaced by a plain record), DefaultDoFiles::{from,next}, path_splits, find_do_file,
helpers::normpath/abs_path.  The candidate list is compared, for EVERY file name up to a length bound at every directory
depth up to a bound, with the order written in the property statement.
"""
import os
import random
import re
import sys

sys.path.insert(0, os.path.dirname(os.path.dirname(os.path.abspath(__file__))))
import z3
from lib.harness import Check, log
from lib.replay import Replayer
from mirsym.values import *
from mirsym.summaries.core import ok, err, some, none, deref_all
from mirsym.summaries.strings import byte_is
from specs import dbmodel, depscheck
from specs.dbmodel import DBWorld, S1, BASE

chk = Check('C13', 'symbolic execution of rustc MIR (mirsym) + z3; candidate list compared with the documented order per path class; '
                   'native replay', need_bin=True)
eng = chk.eng
dbmodel.install_stubs(eng)
MAXNAME = 6 if chk.thorough() else 4
MAXDEPTH = 3 if chk.thorough() else 2
chk.bounds = {'file_name_bytes': '1..%d, every byte symbolic ASCII except "/" and NUL' % MAXNAME, 'directory_depth': '0..%d (one-letter '
              'directory names)' % MAXDEPTH, 'existence patterns (find_do_file)': 'every prefix of the candidate list absent, next present'}
chk.assumptions += [
    'target paths are absolute and already free of ".." / "." / "//" (normpath is C15\'s subject; it is still executed here)',
    'file names are ASCII (RedoPath guarantees UTF-8; non-ASCII bytes are outside the stated alphabet)',
    'ouroboros-generated builder/accessor code of RecursiveDoFilesState is replaced by a plain record (stub)',
]


def install_rdfs_stubs():
    def build(e, ci, a, sp):
        b = a[0]
        np = new_cell(b.f[0])
        dir_bits = e.call_closure(b.f[1], [np])
        ddf = e.call_closure(b.f[2], [np])
        return Struct('RecursiveDoFilesState', [ddf, dir_bits, np])
    eng.stubs['RecursiveDoFilesStateBuilder::build'] = build

    def with_mut(e, ci, a, sp):
        st = deref_all(a[0])
        fields = Struct('BorrowedMutFields', [Ref(st.f, 0), Ref(st.f, 1), st.f[2]])
        return e.call_closure(a[1], [fields])
    eng.stubs['RecursiveDoFilesState::with_mut'] = with_mut


install_rdfs_stubs()


def concrete_or_sym(items):
    return tuple(items)


def dofile_fields(d):
    o = eng.src.structs['DoFile']
    return {n: tuple(deref_all(d.f[i]).items) for i, n in enumerate(o)}


def collect(target_items):
    it = eng.call('possible_do_files::<&Path>', [Bytes(target_items, 'Path')], None, None)
    itr = new_cell(it)
    out = []
    for _ in range(64):
        r = eng.call('<PossibleDoFiles as Iterator>::next', [itr], None, None)
        if r.var == 'None':
            return out
        out.append(dofile_fields(r.f[0]))
    raise Unsupported('more than 64 candidates')


def oracle(dirs, name):
    """the order as written in the property statement.  dirs: list of component tuples, name: tuple of byte terms.
    Returns list of dicts with do_dir, do_file, base_name, ext (tuples).  Branches on '.' positions through the engine."""
    def dpath(comps):
        out = [47]
        for i, c in enumerate(comps):
            if i:
                out.append(47)
            out.extend(c)
        return tuple(out)

    def rel(comps, tail):
        out = []
        for c in comps:
            out.extend(c)
            out.append(47)
        out.extend(tail)
        return tuple(out)
    cands = [{'do_dir': dpath(dirs), 'do_file': tuple(name) + tuple(b'.do'), 'base_name': tuple(name), 'ext': ()}]
    dots = [j for j in range(len(name)) if byte_is(eng, name[j], 46)]
    for i in range(len(dirs), -1, -1):
        sub = dirs[i:]
        for j in dots:
            cands.append({'do_dir': dpath(dirs[:i]), 'do_file': tuple(b'default') + tuple(name[j:]) + tuple(b'.do'),
                          'base_name': rel(sub, name[:j]), 'ext': tuple(name[j:])})
        cands.append({'do_dir': dpath(dirs[:i]), 'do_file': tuple(b'default.do'), 'base_name': rel(sub, name), 'ext': ()})
    return cands


def neq(xs, ys):
    if len(xs) != len(ys):
        return True
    terms = []
    for x, y in zip(xs, ys):
        if isinstance(x, int) and isinstance(y, int):
            if x != y:
                return True
        else:
            terms.append(to_bv(x, 8) != to_bv(y, 8))
    return z3.Or(terms) if terms else False


def concretize(terms, extra=None):
    m = eng.model(extra)
    if m is None:
        return None
    return [t if isinstance(t, int) else m.eval(t, model_completion=True).as_long() for t in terms]


TEMPLATES = [
    # (spelling with redundant components; N = the symbolic file name, clean directory chain)
    (b'/a/../N', []), (b'/a/b/../N', [b'a']), (b'/a/./N', [b'a']), (b'/a//N', [b'a']), (b'/a/b/../../N', []),
    (b'/a/../b/N', [b'b']), (b'//a/N', [b'a']), (b'/a/b/./../c/N', [b'a', b'c']),
]


def order_obligation(depth, n, template=None):
    st = {}

    def run():
        name = [z3.BitVec('n%d' % i, 8) for i in range(n)]
        for b in name:
            eng.assume(z3.And(b != 0, b != 47, z3.ULT(b, 0x80)))
        # a file name that is "." or ".." is not a file name after cleaning: outside this obligation
        if n == 1:
            eng.assume(name[0] != 46)
        if n == 2:
            eng.assume(z3.Not(z3.And(name[0] == 46, name[1] == 46)))
        dirs = [(ord('a') + i,) for i in range(depth)]
        path = [47]
        for d in dirs:
            path += list(d) + [47]
        path += name
        given = path
        if template is not None:
            # the caller spells the target with "..", "." or doubled separators: the candidates are those of the cleaned path
            spelling, clean_dirs = template
            dirs = [tuple(d) for d in clean_dirs]
            path = [47]
            for d in dirs:
                path += list(d) + [47]
            path += name
            given = []
            for ch in spelling:
                given += name if ch == ord('N') else [ch]
        st.update(name=name, dirs=dirs, path=path, given=given)
        got = collect(given)
        want = oracle(dirs, name)
        return got, want

    def judge(outcome, val, path):
        name = st['name']
        base_w = {'depth': depth}
        if outcome == 'panic':
            w = concretize(st['given'])
            return {'role': 'possible_do_files-panics', 'what': 'possible_do_files panics: %s' % val.msg, 'witness': dict(base_w, path_hex=bytes(w).hex())}
        got, want = val
        chk.goal('order: a name with two or more dots', sum(1 for c in want if c['ext']) >= 2 * (depth + 1))
        chk.goal('order: a name with a leading dot', any(len(c['base_name']) == 0 or (c['base_name'] and c['base_name'][-1:] == (47,)) for c in want if c['ext']))
        bad = None
        f = None
        if len(got) != len(want):
            bad = 'candidate count %d, documented order has %d' % (len(got), len(want))
            f = True
        else:
            for i, (g, w_) in enumerate(zip(got, want)):
                for k in ('do_dir', 'do_file', 'base_name', 'ext'):
                    ff = neq(g[k], w_[k])
                    if ff is True or (ff is not False and eng.check(ff)):
                        bad = 'candidate #%d field %s differs from the documented order' % (i, k)
                        f = ff
                        break
                if bad:
                    break
                # $1 = base_name + ext must be the target relative to do_dir
                tail = tuple(g['base_name']) + tuple(g['ext'])
                full = list(g['do_dir'])
                if full[-1:] != [47]:
                    full.append(47)
                full += list(tail)
                ff = neq(full, st['path'])
                if ff is True or (ff is not False and eng.check(ff)):
                    bad = 'candidate #%d: do_dir/(base_name+ext) is not the target path' % i
                    f = ff
                    break
        if bad:
            w = concretize(st['given'], f if f is not True else None)
            wc = concretize(st['path'], f if f is not True else None)
            return {'role': 'do-file-order:' + bad.split(' field ')[-1].split(' ')[0], 'kind': 'order', 'what': bad,
                    'witness': dict(base_w, path_hex=bytes(w).hex(), clean_hex=bytes(wc).hex())}
        return None

    def sample(outcome, val, path):
        if outcome != 'ok':
            return None
        w = concretize(st['path'])
        m = eng.model()

        def s(t):
            return bytes(x if isinstance(x, int) else m.eval(x, model_completion=True).as_long() for x in t).decode('latin-1')
        return {'target': bytes(w).decode('latin-1'), 'candidates': ['%s/%s  $2=%s ext=%s' % (s(c['do_dir']), s(c['do_file']), s(c['base_name']), s(c['ext']))
                                                                      for c in val[0]][:8]}

    label = 'candidate order depth=%d name_len=%d' % (depth, n)
    if template is not None:
        label = 'candidate order for the spelling %s name_len=%d' % (template[0].decode(), n)
    chk.explore(label, run, judge, sample, max_samples=1)


# ---------------------------------------------------------------------------------------------- find_do_file edges
def find_do_file_obligation():
    """the first existing candidate is chosen; an m-edge is recorded on it and a c-edge on every candidate before it"""
    st = {}

    def run():
        R = z3.Int('R')
        eng.assume(z3.And(R > 0, R < (1 << 62)))
        w = DBWorld(eng, R)
        eng.world = w
        shape = [b'd/x.y.z', b'x.c', b'd/e/plain'][eng.choose(3, 'target shape')]
        st.update(w=w, shape=shape)
        w.add_file(2, shape, is_generated=True)
        w.fs[tuple(shape)] = None
        # which candidate exists first: decided lazily per candidate path as the code asks
        asked = []
        st['asked'] = asked

        def exists(e, path):
            name = w.rel(path)
            k = e.choose(2, 'exists %s' % bytes(name).decode())
            asked.append((bytes(name), k == 1))
            w.fs[name] = tuple(S1) if k == 1 else None
            return k == 1
        w.exists = exists
        env = dbmodel.make_env(eng, R)
        ps = dbmodel.make_process_state(eng, env)
        psr = new_cell(ps)
        ptx = dbmodel.begin(eng, psr)
        ptxr = new_cell(ptx)
        f = dbmodel.load_file(eng, ptxr, 2)
        r = eng.call('find_do_file', [ptxr, new_cell(f)], None, None)
        return r

    def judge(outcome, val, path):
        w, asked = st['w'], st['asked']
        if outcome != 'ok' or val.var != 'Ok':
            return {'role': 'find_do_file:' + outcome, 'kind': 'none', 'what': 'find_do_file: %s %s' % (outcome, val), 'witness': {}}
        found = val.f[0].var == 'Some'
        chk.goal('find_do_file: nothing exists', not found)
        chk.goal('find_do_file: a default.do in a parent is chosen', found and len(asked) > 3)
        # candidates in the documented order for this concrete shape
        comps = st['shape'].split(b'/')
        dirs = [tuple(c) for c in comps[:-1]]
        want = []
        for c in oracle([tuple(BASE[1:])] + dirs, tuple(comps[-1])):
            want.append(bytes(c['do_dir']).rstrip(b'/') + b'/' + bytes(c['do_file']))
        want = [p[len(BASE) + 1:] if p.startswith(BASE + b'/') else p for p in want]
        bad = None
        exp_asked = []
        for p in want:
            exp_asked.append(p)
            if (p, True) in asked:
                break
        got_asked = [a for a, _ in asked]
        if got_asked != exp_asked[:len(got_asked)] or (found and len(got_asked) != len(exp_asked)):
            bad = 'candidates probed %r, documented order %r' % (got_asked, exp_asked)
        else:
            edges = {}
            for (t, s_), d in w.deps.items():
                if t == 2:
                    edges[bytes(w.files[s_]['name'])] = bytes(d['mode'])
            for a, ex in asked:
                key = a if not a.startswith(b'/') else b'../' + a[1:]      # names are stored relative to the project base /p
                want_mode = b'm' if ex else b'c'
                if edges.get(key) != want_mode:
                    bad = 'edge on %r recorded as %r, expected %r' % (a, edges.get(key), want_mode)
                    break
            if not bad and len(edges) != len(asked):
                bad = 'extra edges recorded: %r' % (sorted(edges),)
        if bad:
            existing = [a for a, ex in asked if ex]
            exp_edges = sorted('%s:%s' % ((a if not a.startswith(b'/') else b'../' + a[1:]).decode(), 'm' if (a, True) in asked and a == p_ else 'c')
                               for a in exp_asked for p_ in [exp_asked[-1] if (exp_asked[-1], True) in asked else None])
            return {'role': 'find_do_file-edges', 'kind': 'edges', 'what': 'find_do_file: ' + bad,
                    'witness': {'shape': st['shape'].decode(), 'asked': [(a.decode(), e) for a, e in asked],
                                'line': '%s %s' % (st['shape'].hex(), existing[0].hex() if existing else '-'), 'expect_edges': exp_edges}}
        return None

    chk.explore('find_do_file: first existing candidate wins, edges recorded', run, judge)


# ---------------------------------------------------------------------------------------------- replay / validation
# ---------------------------------------------------------------------------------------------- redo-whichdo
def whichdo_obligation():
    """redo-whichdo <target> prints exactly the candidates considered, in order, up to and including the first existing one
    (relative to the current directory), succeeds iff one exists"""
    from specs import depsobl
    st = {}
    TARGETS = [b'x.y.z', b'd/x.c', b'../q/t.o', b'd/../e/n']

    def run():
        t = TARGETS[eng.choose(len(TARGETS), 'target')]
        w = depsobl.CmdWorld(eng, 5, [b'redo-whichdo', t])
        eng.world = w
        w.printed = []
        w.current_dir = lambda e: ok(Vec(list(b'/p/w'), 'PathBuf'))
        w.canonicalize = lambda e, p_: err(dbmodel_io_error('NotFound'))
        asked = []
        st.update(w=w, t=t, asked=asked)

        def exists(e, path):
            name = bytes(deref_all(path).items)
            k = e.choose(2, 'exists %s' % name.decode())
            asked.append((name, k == 1))
            return k == 1
        w.exists = exists
        depsobl.install_cmd_stubs(eng, 5)
        for n in ('Env::init_no_state', 'redo::Env::init_no_state'):
            eng.stubs[n] = eng.stubs['Env::init']
        depsobl._install_print(eng)
        return eng.call('whichdo::run', [], None, None)

    def judge(outcome, val, path):
        import posixpath
        w, t, asked = st['w'], st['t'], st['asked']
        if outcome != 'ok':
            return {'role': 'whichdo:' + outcome, 'kind': 'none', 'what': 'redo-whichdo: %s %s' % (outcome, getattr(val, 'msg', val)), 'witness': {}}
        full = posixpath.normpath('/p/w/' + t.decode()).encode()
        cands = [c['do_dir'].rstrip(b'/') + b'/' + c['do_file'] for c in py_oracle(full)]
        found = [a for a, ex in asked if ex]
        want = []
        for c in cands:
            want.append(c)
            if found and c == found[0]:
                break
        rel = [posixpath.relpath(c.decode(), '/p/w') for c in want]
        got = None if any(x is None for x in w.printed) else [x.rstrip('\n') for x in w.printed]
        chk.goal('whichdo: nothing exists', not found)
        chk.goal('whichdo: a default.do in a parent directory is found', bool(found) and len(asked) > 2)
        bad = None
        if [a for a, _ in asked] != want:
            bad = 'probes %r, the documented candidates are %r' % ([a.decode() for a, _ in asked], [c.decode() for c in want])
        elif got != rel:
            bad = 'prints %r, the candidates considered are %r' % (got, rel)
        elif (val.var == 'Ok') != bool(found):
            bad = 'exit status does not say whether a script was found (%r)' % (val.var,)
        if bad:
            return {'role': 'whichdo-listing', 'kind': 'whichdo', 'what': 'redo-whichdo %s: %s' % (t.decode(), bad),
                    'witness': {'target': t.decode(), 'existing': found[0].decode() if found else None, 'expect': rel, 'expect_ok': bool(found)}}
        return None

    chk.explore('redo-whichdo lists the candidates considered', run, judge)


def dbmodel_io_error(kind):
    from mirsym.summaries.env import io_error
    return io_error(kind)


WHICHDO_SCENARIO = r"""
set -u
mkdir -p p/w p/q p/e p/w/d && cd p/w
@MK@
redo-whichdo '@TARGET@' > ../../which.out 2>../../which.err; echo "rc=$?"
sed 's/^/LINE=/' ../../which.out
"""


def whichdo_replay(scn, c):
    w = c['witness']
    mk = ':'
    if w['existing']:
        rel = os.path.relpath(w['existing'], '/p/w')
        mk = 'mkdir -p "$(dirname %s)"; echo : > %s' % (rel, rel)
    rc, out = scn.run({}, WHICHDO_SCENARIO.replace('@MK@', mk).replace('@TARGET@', w['target']), timeout=60)
    c['scenario_output'] = out[-1500:]
    lines = [l[5:] for l in out.split('\n') if l.startswith('LINE=')]
    rcs = [l[3:] for l in out.split('\n') if l.startswith('rc=')]
    # candidates above the scratch project exist on the real disk or not regardless of us: compare up to the project root
    exp = [e for e in w['expect']]
    n = len([e for e in exp if not e.startswith('../../..')])
    bad = lines[:n] != exp[:n] or (w['expect_ok'] and rcs != ['0'])
    return bad, 'real redo-whichdo prints %r (rc %s); documented %r' % (lines, rcs, exp)


def native_candidates(rep, paths, release=False):
    payload, raw, rc = rep.run('paths', 'possible_batch', [bytes(p).hex() for p in paths], release=release)
    if len(payload) != len(paths):
        return None
    out = []
    for line in payload:
        parts = line.split(' ')[1:]
        if parts == ['PANIC']:
            out.append('PANIC')
            continue
        cs = []
        for c in parts:
            f = c.split(',')
            cs.append({k: (b'' if v == '-' else bytes.fromhex(v)) for k, v in zip(('do_dir', 'do_file', 'base_name', 'ext'), f)})
        out.append(cs)
    return out


def py_oracle(path):
    comps = path.split(b'/')[1:]
    dirs, name = comps[:-1], comps[-1]

    def dpath(cs):
        return b'/' + b'/'.join(cs)
    cands = [{'do_dir': dpath(dirs), 'do_file': name + b'.do', 'base_name': name, 'ext': b''}]
    dots = [j for j in range(len(name)) if name[j:j + 1] == b'.']
    for i in range(len(dirs), -1, -1):
        sub = dirs[i:]
        pre = b''.join(c + b'/' for c in sub)
        for j in dots:
            cands.append({'do_dir': dpath(dirs[:i]), 'do_file': b'default' + name[j:] + b'.do', 'base_name': pre + name[:j], 'ext': name[j:]})
        cands.append({'do_dir': dpath(dirs[:i]), 'do_file': b'default.do', 'base_name': pre + name, 'ext': b''})
    return cands


def make_replay(rep):
    def replay(c):
        if c.get('kind') == 'edges':
            w = c['witness']
            payload, raw, rc = rep.run('paths', 'find_do_file_batch', [w['line']])
            if len(payload) != 1:
                return False, 'native run failed: ' + raw[-400:]
            got = sorted(x for x in payload[0].split(' ')[1:] if ':' in x)
            c['native'] = payload[0]
            return got != w['expect_edges'], 'compiled find_do_file records %r; the documented candidates give %r' % (got, w['expect_edges'])
        if c.get('kind') != 'order' and 'path_hex' not in c.get('witness', {}):
            return False, 'no replay for this obligation'
        p = bytes.fromhex(c['witness']['path_hex'])
        res = []
        for release in (False, True):
            nat = native_candidates(rep, [p], release)
            if nat is None:
                return False, 'native run failed'
            res.append(nat[0])
        want = py_oracle(bytes.fromhex(c['witness'].get('clean_hex', c['witness']['path_hex'])))
        if c['role'] == 'possible_do_files-panics':
            return all(r == 'PANIC' for r in res), repr(res[0])[:200]
        return all(r != 'PANIC' and r != want for r in res), 'target %r: compiled code gives %d candidates, e.g. %r' % (p, len(res[0]), res[0][:3])
    return replay


def validate(rep):
    rnd = random.Random(chk.seed)
    cases = [b'/a/b/c/d.e.f', b'/x', b'/.profile', b'/a/b..c', b'/a/b.', b'/a/..b']
    for _ in range(40 if chk.thorough() else 20):
        depth = rnd.randint(0, 3)
        name = bytes(rnd.choice(b'.ab') for _ in range(rnd.randint(1, 6)))
        if name in (b'.', b'..'):
            continue
        cases.append(b'/' + b''.join(bytes([97 + i]) + b'/' for i in range(depth)) + name)
    nat = native_candidates(rep, cases)
    if nat is None:
        chk.inconclusive.append('translator validation: native possible_do_files batch failed')
        return
    for p, n in zip(cases, nat):
        out = []

        def run(p=p):
            return collect(list(p))

        def end(outcome, val, path):
            out.append((outcome, val))
        eng.explore(run, end)
        if len(out) != 1 or out[0][0] != 'ok':
            chk.inconclusive.append('translator validation: interpreter failed on %r: %r' % (p, out[:1]))
            continue
        got = [{k: bytes(v) for k, v in c.items() if k != 'base_dir'} for c in out[0][1]]
        if got != n:
            chk.inconclusive.append('translator validation: possible_do_files(%r): interpreter and compiled code differ' % p)
        else:
            chk.validated += 1


rep = Replayer(log)
try:
    for depth in range(0, MAXDEPTH + 1):
        for n in range(1, MAXNAME + 1):
            order_obligation(depth, n)
    for tpl in (TEMPLATES if chk.thorough() else TEMPLATES[:5]):
        for n in ((1, 2, 3) if chk.thorough() else (2,)):
            order_obligation(0, n, tpl)
    find_do_file_obligation()
    # how the chosen script is invoked: the real child closure of BuildJob::start_self up to execvp
    from specs import buildworld, buildjob
    from lib.scenario import Scenario
    buildworld.install(eng)
    chk.assumptions += ['script invocation: the closure that BuildJob::start_self hands to JobServerHandle::start is executed at the '
                        'point of the (modelled) fork; dup2/close_on_exec/signal are events; 9 target/.do shapes x verbose x #!']
    buildjob.script_arguments(chk, 'C13')
    whichdo_obligation()
    scn = Scenario(log)
    # "creating a higher-priority script or removing / editing the chosen one causes the target to be rebuilt with the new choice":
    # histories through the real scheduler (last: the exploration installs its own hand-over to the jobserver)
    from specs import schedcheck
    schedcheck.explore(chk, 'C13', scn)
    validate(rep)
    _r13 = make_replay(rep)
    _rbj = buildjob.make_replay(chk, rep, scn)
    try:
        chk.finish(lambda c: schedcheck.replay_cand(chk, scn, c) if c.get('kind') == 'sched' else (_rbj(c) if c.get('kind') == 'argv' else (whichdo_replay(scn, c) if c.get('kind') == 'whichdo' else _r13(c))))
    finally:
        scn.cleanup()
finally:
    rep.cleanup()
