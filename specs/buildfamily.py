"""Per-property selection of the build-job obligations (C04 C10 C11)."""
import os
import sys

from lib.harness import Check, log
from lib.replay import Replayer
from lib.scenario import Scenario
from specs import dbmodel, depscheck, buildjob, buildworld

TECH = ('symbolic execution of rustc MIR (mirsym) + z3 of the real BuildJob::start_self / record_new_state over a filesystem, '
        'database and process model (script outcome, prior row, failing syscalls symbolic); effect traces judged per path class; '
        'native replay with the real binaries')

PLAN = {
    'C04': ['record', 'preamble', 'tmpnames'],
    'C10': ['crash'],
    'C11': ['preamble'],
}


def main(pid):
    chk = Check(pid, TECH, need_bin=False)
    eng = chk.eng
    dbmodel.install_stubs(eng)
    buildworld.install(eng)
    rep = Replayer(log)
    scn = Scenario(log)
    chk.assumptions += buildjob.ASSUMPTIONS
    only = os.environ.get('VERIF_OBL')
    try:
        for ob in PLAN[pid]:
            if only and ob not in only.split(','):
                continue
            if ob == 'record':
                buildjob.record_new_state_facts(chk, pid)
            elif ob == 'preamble':
                buildjob.start_self_facts(chk, pid)
            elif ob == 'tmpnames':
                buildjob.tmp_names_distinct(chk, pid)
            elif ob == 'crash':
                buildjob.crash_facts(chk, pid)
        chk.finish(buildjob.make_replay(chk, rep, scn))
    finally:
        rep.cleanup()
        scn.cleanup()
