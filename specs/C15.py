#!/usr/bin/env python3-vt
"""C15 — every spelling of a path denotes the same target (path functions).

Decided by symbolic execution of the real MIR of helpers::normpath (+LazyBuf, OsBytes), helpers::abs_path,
state::relpath and state::realdirpath over *every* byte string up to a length bound, with z3 deciding each obligation
per feasible path class.  See DESIGN.md §5 C15.
"""
import os
import random
import re
import sys

sys.path.insert(0, os.path.dirname(os.path.dirname(os.path.abspath(__file__))))
import z3
from lib.harness import Check, log
from lib.replay import Replayer
from mirsym.values import *
from mirsym.summaries.core import ok, err, deref_all
from mirsym.summaries.env import World, io_error
from mirsym.summaries.strings import byte_is

chk = Check('C15', 'symbolic execution of rustc MIR (mirsym) + z3; obligations decided per path class; native replay')
eng = chk.eng
N_NORM = 8 if chk.thorough() else 6
N_REL = 6 if chk.thorough() else 4
chk.bounds = {'normpath_max_len': N_NORM, 'relpath_target_max_len': N_REL, 'alphabet': 'all byte values 1..255 (symbolic)',
              'cwd': '/c/w', 'bases': ['/c', '/c/w/d', '/'], 'canonicalize': 'NotFound (no directory exists)' +
              (' or lexical identity (directories exist, no symlinks)' if chk.thorough() else '')}
chk.assumptions += [
    'paths contain no NUL byte',
    'world without symlinks: Path::canonicalize either fails with NotFound or returns the lexically cleaned absolute path',
    'current directory is /c/w (concrete) for the relpath obligations',
    'std library path/slice/iterator functions are modelled by Python reference implementations (summaries) validated against '
    'the compiled code on the repository\'s test vectors and random inputs (traces_validated_against_impl)',
]


# --------------------------------------------------------------------------------- helpers
def sym_bytes(n, name='b'):
    bs = [z3.BitVec('%s%d' % (name, i), 8) for i in range(n)]
    for b in bs:
        eng.assume(b != 0)
    return bs


def call_normpath(items):
    r = eng.call('normpath', [Bytes(items, 'Path')], None, None)
    inner = r.f[0]
    return tuple(inner.items)


def neq_formula(xs, ys):
    if len(xs) != len(ys):
        return True
    terms = []
    for x, y in zip(xs, ys):
        if isinstance(x, int) and isinstance(y, int):
            if x != y:
                return True
        else:
            terms.append(to_bv(x, 8) != to_bv(y, 8))
    if not terms:
        return False
    return z3.Or(terms)


def holds(formula_violation):
    """True iff the violation formula is unsat under the current path condition"""
    if formula_violation is False:
        return True
    if formula_violation is True:
        return False
    return not eng.check(formula_violation)


def concretize(path_or_none, terms, extra=None):
    m = eng.model(extra)
    if m is None:
        return None
    out = []
    for t in terms:
        out.append(t if isinstance(t, int) else m.eval(t, model_completion=True).as_long())
    return out


def hexs(bs):
    return bytes(bs).hex() if bs else '-'


# reference: abstract location of a path (no symlinks)
def ref_resolve(items):
    """-> (rooted, ups, [name tuples])  using byte tests through the engine (forks only if undecided)"""
    n = len(items)
    rooted = n > 0 and byte_is(eng, items[0], 47)
    names = []
    ups = 0
    i = 0
    while i < n:
        if byte_is(eng, items[i], 47):
            i += 1
            continue
        j = i
        while j < n and not byte_is(eng, items[j], 47):
            j += 1
        c = tuple(items[i:j])
        if len(c) == 1 and byte_is(eng, c[0], 46):
            pass
        elif len(c) == 2 and byte_is(eng, c[0], 46) and byte_is(eng, c[1], 46):
            if names:
                names.pop()
            elif not rooted:
                ups += 1
        else:
            names.append(c)
        i = j
    return rooted, ups, names


def loc_neq(a, b):
    if a[0] != b[0] or a[1] != b[1] or len(a[2]) != len(b[2]):
        return True
    terms = []
    for x, y in zip(a[2], b[2]):
        f = neq_formula(x, y)
        if f is True:
            return True
        if f is not False:
            terms.append(f)
    return z3.Or(terms) if terms else False


def not_canonical(out):
    """z3 formula: `out` violates the canonical form"""
    n = len(out)
    if n == 0:
        return True
    B = [to_bv(x, 8) for x in out]
    sep = [b == 47 for b in B]
    dot = [b == 46 for b in B]
    bad = []
    for i in range(n - 1):
        bad.append(z3.And(sep[i], sep[i + 1]))
    if n > 1:
        bad.append(sep[n - 1])
    rooted = sep[0]
    for i in range(n):
        start = z3.BoolVal(True) if i == 0 else sep[i - 1]
        start = z3.And(start, z3.Not(sep[i]))
        # '.' component
        enddot = z3.BoolVal(True) if i + 1 == n else sep[i + 1]
        if n > 1:
            bad.append(z3.And(start, dot[i], enddot))
        # '..' component
        if i + 1 < n:
            enddd = z3.BoolVal(True) if i + 2 == n else sep[i + 2]
            isdd = z3.And(start, dot[i], dot[i + 1], enddd)
            # allowed only if relative and everything before is '../' repeated
            allowed = z3.Not(rooted)
            if i % 3 != 0:
                allowed = z3.BoolVal(False)
            else:
                for k in range(i // 3):
                    allowed = z3.And(allowed, dot[3 * k], dot[3 * k + 1], sep[3 * k + 2])
            bad.append(z3.And(isdd, z3.Not(allowed)))
    return z3.simplify(z3.Or(bad)) if bad else False


# --------------------------------------------------------------------------------- obligations on normpath
def normpath_obligations(n):
    state = {}

    def run():
        inp = sym_bytes(n)
        state['inp'] = inp
        out = call_normpath(inp)
        out2 = call_normpath(out)
        lin = ref_resolve(inp)
        lout = ref_resolve(out)
        return inp, out, out2, lin, lout

    def judge(outcome, val, path):
        inp = state['inp']
        if outcome == 'panic':
            w = concretize(path, inp)
            return {'role': 'normpath-panic', 'what': 'normpath panics: %s' % val.msg, 'witness': {'input_hex': hexs(w)},
                    'kind': 'normpath'}
        inp, out, out2, lin, lout = val
        chk.goal('normpath: some class rewrites the input (Cow::Owned)', len(out) != len(inp) or any(a is not b for a, b in zip(out, inp)))
        chk.goal('normpath: some class contains a ".." that backtracks', lin[1] == 0 and len(lin[2]) < sum(1 for _ in lin[2]) + 1 and len(out) < len(inp) - 2)
        f = neq_formula(out, out2)
        if not holds(f):
            w = concretize(path, inp, f if f is not True else None)
            return {'role': 'normpath-not-idempotent', 'what': 'normpath(normpath(p)) != normpath(p)',
                    'witness': {'input_hex': hexs(w)}, 'kind': 'normpath'}
        f = not_canonical(out)
        if not holds(f):
            w = concretize(path, inp, f if f is not True else None)
            return {'role': 'normpath-not-canonical', 'what': 'normpath output is not in canonical form',
                    'witness': {'input_hex': hexs(w)}, 'kind': 'normpath'}
        f = loc_neq(lin, lout)
        if not holds(f):
            w = concretize(path, inp, f if f is not True else None)
            return {'role': 'normpath-changes-location', 'what': 'normpath(p) names a different file than p (no symlinks)',
                    'witness': {'input_hex': hexs(w)}, 'kind': 'normpath'}
        return None

    def sample(outcome, val, path):
        inp = state['inp']
        w = concretize(path, inp)
        if outcome != 'ok' or w is None:
            return None
        m = eng.model()
        outc = [x if isinstance(x, int) else m.eval(x, model_completion=True).as_long() for x in val[1]]
        return {'len': n, 'decisions': path.decisions[:40], 'example_input': bytes(w).decode('latin-1'),
                'example_output': bytes(outc).decode('latin-1')}

    chk.explore('normpath len=%d' % n, run, judge, sample, max_samples=1)


# --------------------------------------------------------------------------------- relpath
CWD = b'/c/w'
BASES = [b'/c', b'/c/w/d', b'/']


class PathWorld(World):
    def __init__(self, allow_exists):
        self.allow_exists = allow_exists

    def current_dir(self, eng):
        return ok(Vec(list(CWD), 'PathBuf'))

    def canonicalize(self, eng, p):
        items = tuple(deref_all(p).items)
        k = eng.choose(2, 'canonicalize') if self.allow_exists else 0
        if k == 0:
            eng.event('canonicalize', result='NotFound')
            return err(io_error('NotFound'))
        # directories exist and there are no symlinks: physical resolution == lexical resolution from cwd
        full = list(items)
        if not (len(items) > 0 and byte_is(eng, items[0], 47)):
            full = list(CWD) + [47] + list(items)
        rooted, ups, names = ref_resolve(full)
        out = [47]
        for i, nm in enumerate(names):
            if i:
                out.append(47)
            out.extend(nm)
        eng.event('canonicalize', result='exists')
        return ok(Vec(out, 'PathBuf'))


def expected_relpath(t_items, base_items):
    full = list(t_items)
    if not (len(t_items) > 0 and byte_is(eng, t_items[0], 47)):
        full = list(CWD) + [47] + list(t_items)
    _, _, T = ref_resolve(full)
    _, _, B = ref_resolve(list(base_items))
    n = 0
    for x, y in zip(T, B):
        f = neq_formula(x, y)
        if f is True:
            break
        if f is not False and eng.branch(f):
            break
        n += 1
    parts = [(46, 46)] * (len(B) - n) + T[n:]
    out = []
    for i, p in enumerate(parts):
        if i:
            out.append(47)
        out.extend(p)
    return out, T, (B, n)


def canonicalize_error_obligation():
    """relpath resolves the directory part of a name physically so that every spelling gets ONE key.  If that resolution fails
    for a reason other than "no such directory" (EIO, EACCES, ESTALE ...) no key can be determined: the call must fail rather
    than silently fall back to the lexical name (which would create a second record for a file reached through a symlink)."""
    st = {}

    class W(PathWorld):
        def canonicalize(self, eng, p):
            k = eng.choose(2, 'canonicalize: NotFound | EIO')
            st['eio'] = bool(k)
            if k:
                eng.event('canonicalize', result='EIO')
                return err(io_error('Other'))
            eng.event('canonicalize', result='NotFound')
            return err(io_error('NotFound'))

    def run():
        eng.world = W(False)
        st['eio'] = False
        name = sym_bytes(2, 'f')
        for b in name:
            eng.assume(z3.And(b != 47, b != 46, b != 0))
        t = list(b'zzfail/') + name
        st['t'] = t
        return eng.call('relpath', [Bytes(t, 'Path'), Bytes(BASES[0], 'Path')], None, None)

    def judge(outcome, val, path):
        if outcome != 'ok':
            return None
        chk.goal('canonicalize fails with an I/O error', st['eio'])
        if st['eio'] and val.var == 'Ok':
            w = concretize(path, st['t'])
            return {'role': 'relpath-swallows-io-error', 'kind': 'relpath-eio',
                    'what': 'resolving the directory of the name fails with an I/O error, yet relpath answers with the lexical name',
                    'witness': {'t_hex': hexs(w), 'base_hex': hexs(BASES[0]), 'cwd_hex': hexs(CWD)}}
        return None

    chk.explore('relpath: a failing directory resolution (other than NotFound) is an error', run, judge)
    eng.world = PathWorld(False)


def relpath_obligations(n, allow_exists):
    state = {}
    eng.world = PathWorld(allow_exists)

    def run():
        t = sym_bytes(n, 't')
        state['t'] = t
        bi = eng.choose(len(BASES), 'base')
        base = BASES[bi]
        state['base'] = base
        r = eng.call('relpath', [Bytes(t, 'Path'), Bytes(base, 'Path')], None, None)
        exp, T, B = expected_relpath(t, base)
        return r, exp, T, B

    def judge(outcome, val, path):
        t, base = state['t'], state['base']
        if outcome == 'panic':
            w = concretize(path, t)
            return {'role': 'relpath-panic', 'what': 'relpath panics: %s' % val.msg, 'kind': 'relpath',
                    'witness': {'t_hex': hexs(w), 'base_hex': hexs(base), 'cwd_hex': hexs(CWD)}}
        r, exp, T, B = val
        if r.var != 'Ok':
            w = concretize(path, t)
            return {'role': 'relpath-error', 'what': 'relpath returns Err in a world where every call succeeds', 'kind': 'relpath',
                    'witness': {'t_hex': hexs(w), 'base_hex': hexs(base), 'cwd_hex': hexs(CWD)}}
        got = tuple(r.f[0].items)
        B, ncommon = B
        chk.goal('relpath: some class climbs out of base with ".."', len(B) > ncommon)
        chk.goal('relpath: some class is inside base', len(B) == ncommon and len(exp) > 0)
        f = neq_formula(got, exp)
        if not holds(f):
            w = concretize(path, t, f if f is not True else None)
            return {'role': 'relpath-differs-from-reference', 'kind': 'relpath',
                    'what': 'relpath(t, base) differs from the reference (same file, different key)',
                    'witness': {'t_hex': hexs(w), 'base_hex': hexs(base), 'cwd_hex': hexs(CWD),
                                'canonicalize': [e[1]['result'] for e in path.events if e[0] == 'canonicalize']}}
        # re-join: normpath(base.join(rel)) == normpath(abs t)
        joined = list(base)
        if got:
            if joined[-1:] != [47]:
                joined.append(47)
            joined += list(got)
        a = call_normpath(joined)
        full = list(t)
        if not (len(t) > 0 and byte_is(eng, t[0], 47)):
            full = list(CWD) + [47] + list(t)
        b = call_normpath(full)
        f = neq_formula(a, b)
        if not holds(f):
            w = concretize(path, t, f if f is not True else None)
            return {'role': 'relpath-rejoin-differs', 'kind': 'relpath', 'what': 'normpath(base/relpath(t,base)) != normpath(t)',
                    'witness': {'t_hex': hexs(w), 'base_hex': hexs(base), 'cwd_hex': hexs(CWD)}}
        return None

    def sample(outcome, val, path):
        t = state['t']
        w = concretize(path, t)
        if outcome != 'ok' or w is None:
            return None
        m = eng.model()
        got = [x if isinstance(x, int) else m.eval(x, model_completion=True).as_long() for x in val[0].f[0].items]
        return {'t': bytes(w).decode('latin-1'), 'base': state['base'].decode(), 'cwd': CWD.decode(),
                'relpath': bytes(got).decode('latin-1'), 'decisions': path.decisions[:40]}

    chk.explore('relpath len=%d%s' % (n, ' +exists' if allow_exists else ''), run, judge, sample, max_samples=1)


# --------------------------------------------------------------------------------- translator validation
def concrete_normpath(b):
    out = []

    def run():
        return call_normpath(list(b))

    def end(outcome, val, path):
        out.append((outcome, val))
    eng.explore(run, end)
    assert len(out) == 1, out
    if out[0][0] != 'ok':
        return None
    return bytes(out[0][1])


def concrete_relpath(t, base):
    out = []
    eng.world = PathWorld(False)

    def run():
        return eng.call('relpath', [Bytes(list(t), 'Path'), Bytes(list(base), 'Path')], None, None)

    def end(outcome, val, path):
        out.append((outcome, val))
    eng.explore(run, end)
    if len(out) != 1 or out[0][0] != 'ok' or out[0][1].var != 'Ok':
        return None
    return bytes(out[0][1].f[0].items)


def validate(rep):
    from lib import prep as _prep
    src = open(os.path.join(_prep.REPO, 'src/helpers.rs')).read()
    # the repository's own unit-test inputs + seeded random inputs; the oracle is the *compiled* function
    vecs = re.findall(r'normpath_\w+: \("((?:[^"\\]|\\.)*)", "((?:[^"\\]|\\.)*)"\)', src)
    rnd = random.Random(chk.seed)
    alpha = b'/.ab'
    cases = [i.encode() for i, _ in vecs]
    cases += [bytes(rnd.choice(alpha) for _ in range(rnd.randint(0, 10))) for _ in range(150 if chk.thorough() else 60)]
    payload, raw, rc = rep.run('helpers', 'normpath_batch', [hexs(c) for c in cases])
    if rc != 0 or len(payload) != len(cases):
        chk.inconclusive.append('translator validation: native normpath batch failed rc=%s' % rc)
        log(raw[-2000:])
        return
    for c, line in zip(cases, payload):
        parts = line.split(' ')
        native = b'' if parts[1] == '-' else bytes.fromhex(parts[1])
        got = concrete_normpath(c)
        if got != native:
            chk.inconclusive.append('translator validation: normpath(%r): interpreter %r, compiled code %r' % (c, got, native))
        else:
            chk.validated += 1
    # relpath
    cases = []
    for _ in range(60 if chk.thorough() else 25):
        t = bytes(rnd.choice(b'/.cwd') for _ in range(rnd.randint(1, 8)))
        if escapes_root(t if t.startswith(b'/') else CWD + b'/' + t):
            continue        # would leave the private root directory of the native run
        cases.append((t, rnd.choice(BASES)))
    root = os.path.join('/var/tmp/redo-verif', 'root-%d' % os.getpid())
    os.makedirs(root, exist_ok=True)
    try:
        payload, raw, rc = rep.run('state', 'relpath_batch', ['%s %s %s' % (hexs(CWD), hexs(t), hexs(b)) for t, b in cases],
                                   env={'VERIF_REPLAY_ROOT': root})
    finally:
        import shutil
        shutil.rmtree(root, ignore_errors=True)
    if rc != 0 or len(payload) != len(cases):
        chk.inconclusive.append('translator validation: native relpath batch failed rc=%s' % rc)
        log(raw[-2000:])
        return
    for (t, b), line in zip(cases, payload):
        parts = line.split(' ')
        got = concrete_relpath(t, b)
        if parts[1] != 'OK':
            native = None
        else:
            native = b'' if parts[2] == '-' else bytes.fromhex(parts[2])
        # the native run works under a private root directory: inside it only cwd exists, so canonicalize of other
        # directories fails with NotFound exactly as in the model; inputs that leave the root ("/..") are skipped
        if got != native:
            chk.inconclusive.append('translator validation: relpath(%r,%r): interpreter %r, compiled code %r' % (t, b, got, native))
        else:
            chk.validated += 1


# --------------------------------------------------------------------------------- replay of candidates
def make_replay(rep):
    def replay(c):
        w = c['witness']
        if c['kind'] == 'base':
            from specs import basecheck
            return basecheck.replay(scn, c)
        if c['kind'] == 'normpath':
            ok_all = True
            detail = []
            for release in (False, True):
                payload, raw, rc = rep.run('helpers', 'normpath_batch', [w['input_hex']], release=release)
                if len(payload) != 1:
                    return False, 'native run failed'
                parts = payload[0].split(' ')
                inp = b'' if w['input_hex'] == '-' else bytes.fromhex(w['input_hex'])
                if parts[1] == 'PANIC':
                    rep_ok = c['role'] == 'normpath-panic'
                else:
                    a = b'' if parts[1] == '-' else bytes.fromhex(parts[1])
                    b = b'' if parts[2] == '-' else bytes.fromhex(parts[2])
                    if c['role'] == 'normpath-not-idempotent':
                        rep_ok = a != b
                    elif c['role'] == 'normpath-not-canonical':
                        rep_ok = not py_canonical(a)
                    elif c['role'] == 'normpath-changes-location':
                        rep_ok = py_resolve(inp) != py_resolve(a)
                    else:
                        rep_ok = False
                detail.append('%s: %s' % ('release' if release else 'dev', payload[0]))
                ok_all = ok_all and rep_ok
            return ok_all, '; '.join(detail)
        if c['kind'] == 'relpath-link':
            from lib import prep as _prep
            root = os.path.join(_prep.SCRATCH_ROOT, 'rootl-%d' % os.getpid())
            try:
                os.makedirs(os.path.join(root, 'c/w/a/b'), exist_ok=True)
                if not os.path.lexists(os.path.join(root, 'c/w/link')):
                    os.symlink('a/b', os.path.join(root, 'c/w/link'))
                payload, raw, rc = rep.run('state', 'relpath_batch', ['%s %s %s' % (hexs(CWD), w['t_hex'], hexs(CWD))],
                                           env={'VERIF_REPLAY_ROOT': root})
            finally:
                import shutil
                shutil.rmtree(root, ignore_errors=True)
            if len(payload) != 1 or payload[0].split(' ')[1] != 'OK':
                return False, 'native run failed: ' + raw[-300:]
            got = bytes.fromhex(payload[0].split(' ')[2]) if payload[0].split(' ')[2] != '-' else b''
            t = bytes.fromhex(w['t_hex'])
            want = w['want_dir'].encode() + b'/' + t.rsplit(b'/', 1)[-1]
            return got != want, 'compiled relpath(%r) with link -> a/b: key %r, the file is %r' % (t, got, want)
        if c['kind'] == 'relpath-eio':
            import subprocess
            from lib import prep as _prep
            root = os.path.join(_prep.SCRATCH_ROOT, 'root-%d' % os.getpid())
            os.makedirs(root, exist_ok=True)
            shim = os.path.join(root, 'shim.so')
            r = subprocess.run(['cc', '-shared', '-fPIC', '-O1', '-o', shim, os.path.join(_prep.VERIF, 'replay', 'crashshim.c'), '-ldl'],
                               stdout=subprocess.PIPE, stderr=subprocess.STDOUT)
            if r.returncode != 0:
                return False, 'cannot build the fault-injection shim: ' + r.stdout.decode()[-300:]
            try:
                os.makedirs(os.path.join(root, 'c/w/zzfail'), exist_ok=True)
                payload, raw, rc = rep.run('state', 'relpath_batch', ['%s %s %s' % (w['cwd_hex'], w['t_hex'], w['base_hex'])],
                                           env={'VERIF_REPLAY_ROOT': root, 'LD_PRELOAD': shim, 'VERIF_FAIL_REALPATH': 'zzfail'})
            finally:
                import shutil
                shutil.rmtree(root, ignore_errors=True)
            if len(payload) != 1:
                return False, 'native run failed: ' + raw[-300:]
            return payload[0].split(' ')[1] == 'OK', 'compiled relpath with realpath() failing EIO on the directory: ' + payload[0]
        if c['kind'] == 'relpath':
            root = os.path.join('/var/tmp/redo-verif', 'root-%d' % os.getpid())
            os.makedirs(root, exist_ok=True)
            try:
                payload, raw, rc = rep.run('state', 'relpath_batch', ['%s %s %s' % (w['cwd_hex'], w['t_hex'], w['base_hex'])],
                                           env={'VERIF_REPLAY_ROOT': root})
            finally:
                import shutil
                shutil.rmtree(root, ignore_errors=True)
            if len(payload) != 1:
                return False, 'native run failed'
            parts = payload[0].split(' ')
            t = b'' if w['t_hex'] == '-' else bytes.fromhex(w['t_hex'])
            base = bytes.fromhex(w['base_hex'])
            if parts[1] == 'PANIC':
                return c['role'] == 'relpath-panic', payload[0]
            if parts[1] == 'ERR':
                return c['role'] == 'relpath-error', payload[0]
            got = b'' if parts[2] == '-' else bytes.fromhex(parts[2])
            exp = py_relpath(t, base)
            if c['role'] == 'relpath-differs-from-reference':
                return got != exp, 'native %r reference %r' % (got, exp)
            if c['role'] == 'relpath-rejoin-differs':
                j = base.rstrip(b'/') + b'/' + got if got else base
                return py_resolve(j) != py_resolve(t if t.startswith(b'/') else CWD + b'/' + t), 'native %r' % got
        return False, 'unknown candidate kind'
    return replay


def escapes_root(p):
    depth = 0
    for c in p.split(b'/'):
        if c in (b'', b'.'):
            continue
        if c == b'..':
            depth -= 1
            if depth < 0:
                return True
        else:
            depth += 1
    return False


def py_resolve(p):
    rooted = p.startswith(b'/')
    names, ups = [], 0
    for c in p.split(b'/'):
        if c in (b'', b'.'):
            continue
        if c == b'..':
            if names:
                names.pop()
            elif not rooted:
                ups += 1
        else:
            names.append(c)
    return rooted, ups, names


def py_canonical(o):
    if not o:
        return False
    if o == b'/' or o == b'.':
        return True
    if b'//' in o or o.endswith(b'/'):
        return False
    comps = o.lstrip(b'/').split(b'/')
    seen_normal = False
    for c in comps:
        if c == b'.':
            return False
        if c == b'..':
            if seen_normal or o.startswith(b'/'):
                return False
        else:
            seen_normal = True
    return True


def py_relpath(t, base):
    T = py_resolve(t if t.startswith(b'/') else CWD + b'/' + t)[2]
    B = py_resolve(base)[2]
    n = 0
    for x, y in zip(T, B):
        if x != y:
            break
        n += 1
    return b'/'.join([b'..'] * (len(B) - n) + T[n:])



# --------------------------------------------------------------------------------- a symbolic link to a directory in the path
def symlinked_dir_obligation():
    """`link -> a/b` in the working directory: every spelling of a file reached through the link - also with `..` AFTER the link,
    where lexical cleaning and the file system disagree - gets the key of the file the kernel would open"""
    st = {}
    LINKS = {'/c/w/link': '/c/w/a/b'}
    SPELL = [(b'link/', 'a/b'), (b'link/../', 'a'), (b'/c/w/link/../', 'a'), (b'a/b/../', 'a'), (b'link/./', 'a/b'), (b'./link/../', 'a'),
             (b'a/../link/', 'a/b')]

    def physical(p):
        comps = []
        for c in p.split('/'):
            if c in ('', '.'):
                continue
            if c == '..':
                if comps:
                    comps.pop()
                continue
            comps.append(c)
            cur = '/' + '/'.join(comps)
            if cur in LINKS:
                comps = [x for x in LINKS[cur].split('/') if x]
        return '/' + '/'.join(comps)

    class W(PathWorld):
        def canonicalize(self, eng, p):
            items = deref_all(p).items
            if not all(isinstance(x, int) for x in items):
                raise Unsupported('canonicalize of a symbolic directory name')
            s = bytes(items).decode()
            if not s.startswith('/'):
                s = CWD.decode() + '/' + s
            eng.event('canonicalize', path=s, result=physical(s))
            return ok(Vec(list(physical(s).encode()), 'PathBuf'))

    def run():
        eng.world = W(False)
        k = eng.choose(len(SPELL), 'spelling')
        name = sym_bytes(2, 'f')
        for b in name:
            eng.assume(z3.And(b != 47, b != 46, b != 0, z3.ULT(b, 0x80)))
        t = list(SPELL[k][0]) + name
        st.update(t=t, k=k, name=name)
        return eng.call('relpath', [Bytes(t, 'Path'), Bytes(list(CWD), 'Path')], None, None)

    def judge(outcome, val, path):
        k = st['k']
        wit_t = concretize(path, st['t'])
        if outcome == 'panic':
            return {'role': 'relpath-symlink-panic', 'kind': 'relpath-link', 'what': 'relpath panics: ' + val.msg,
                    'witness': {'t_hex': hexs(wit_t), 'spelling': SPELL[k][0].decode()}}
        if outcome != 'ok' or val.var != 'Ok':
            return None
        chk.goal('relpath: `..` after a symbolic link to a directory', b'link/../' in SPELL[k][0])
        want = list(SPELL[k][1].encode()) + [47] + st['name']
        got = list(deref_all(val.f[0]).items)
        if holds(neq_formula(got, want)):
            return None
        w = concretize(path, st['t'] + got)
        n = len(st['t'])
        return {'role': 'relpath-through-symlink', 'kind': 'relpath-link',
                'what': 'with link -> a/b, the spelling %r gets the key %r; the file it names is %s/<name>' % (
                    bytes(w[:n]) if w else SPELL[k][0], bytes(w[n:]) if w else '?', SPELL[k][1]),
                'witness': {'t_hex': hexs(w[:n] if w else wit_t), 'spelling': SPELL[k][0].decode(), 'want_dir': SPELL[k][1]}}

    chk.explore('relpath: spellings through a symbolic link to a directory', run, judge)
    eng.world = PathWorld(False)


# --------------------------------------------------------------------------------- main
rep = Replayer(log)
from lib.scenario import Scenario
scn = Scenario(log)
try:
    if not os.environ.get('VERIF_OBL') or 'base' in os.environ.get('VERIF_OBL'):
        from specs import basecheck
        basecheck.base_discovery(chk)
    for n in range(0, N_NORM + 1 if not os.environ.get('VERIF_OBL') else 0):
        normpath_obligations(n)
    for n in range(0, N_REL + 1 if not os.environ.get('VERIF_OBL') else 0):
        relpath_obligations(n, False)
    canonicalize_error_obligation()
    symlinked_dir_obligation()
    if chk.thorough():
        for n in range(0, min(N_REL, 5) + 1):
            relpath_obligations(n, True)
    validate(rep)
    chk.finish(make_replay(rep))
finally:
    rep.cleanup()
    scn.cleanup()
