"""C08 (token ledger) and C09 (no abort / no hang in the jobserver state machine) share one exploration of the real
jobserver MIR; this module runs it and judges each path for the property asked for."""
import os
import sys

import z3
from lib.harness import Check, log
from lib.replay import Replayer
from mirsym.values import *
from mirsym.engine import PyCallable
from mirsym.summaries.core import ok, err, deref_all
from specs import jobmodel
from specs.jobmodel import JobWorld, Client, Hang, make_server, install_stubs, state_fields

TECH = ('symbolic execution of rustc MIR (mirsym) + z3 over a pipe/child/clock environment model (every number of child exits, '
        'token arrival/theft, cheating children, timeouts per wake-up); obligations decided per path class; native replay with '
        'real pipes and fork(2)')


def scripts(thorough):
    s = {
        'one-target': ['ensure', 'start', 'wait_all', 'drain'],
        'clean-target': ['ensure', 'wait_all', 'drain'],
        'two-targets': ['ensure', 'start', 'ensure', 'start', 'wait_all', 'drain'],
        'locked-then-cheat': ['ensure', 'wait_all', 'sleep', 'release_mine', 'ensure', 'start', 'wait_all', 'drain'],
        'job-then-locked': ['ensure', 'start', 'wait_all', 'sleep', 'release_mine', 'ensure', 'start', 'wait_all', 'drain'],
        'job-then-unlocked-target': ['ensure', 'start', 'wait_all', 'ensure', 'start', 'wait_all', 'drain'],
        # second phase of builder::run when the lock of a previously locked target is free at the first try_lock: the job is
        # started right after wait_all (whether an ensure_token_or_cheat comes first is read from builder.rs)
        'job-then-free-target': ['ensure', 'start', 'wait_all', 'ensure-if-builder-does', 'start', 'wait_all', 'drain'],
        # the root future ends with an error while children are still running (abandoned jobs)
        'abandon-running-jobs': ['ensure', 'start', 'ensure', 'start', 'fail'],
        # a token is being waited for while two children run (both may exit in one wake-up)
        'two-running-then-ensure': ['ensure', 'start', 'ensure', 'start', 'ensure', 'wait_all', 'drain'],
    }
    if thorough:
        s['three-targets'] = ['ensure', 'start', 'ensure', 'start', 'ensure', 'start', 'wait_all', 'drain']
        # 'two-then-locked' (ensure start ensure start wait_all sleep release_mine ensure start wait_all drain) was part of the thorough
        # tier until round 4: its exploration no longer finishes within an hour on this image (> 10^6 path classes).  The call pattern
        # - two running jobs, then a target another redo holds - is explored on the real builder::run by the scheduler exploration
        # (`redo a b c -j2: c locked by another redo`), so it is not replaced by another hand-written script.
    return s


def configs(thorough):
    # (name, top_level, tokens initially in the pipe, tokens held by other processes)
    c = [('inherited', 0, 0, 0), ('inherited', 0, 1, 0), ('inherited', 0, 0, 1), ('own-j1', 1, 0, 0), ('own-j2', 2, 1, 0)]
    if thorough:
        c += [('inherited', 0, 1, 1), ('own-j3', 3, 2, 0)]
    return c


def main(pid):
    chk = Check(pid, TECH, need_bin=True)
    eng = chk.eng
    install_stubs(eng)
    # quick: the written order of the select! arms plus ONE evaluation per path in another order; thorough: every order everywhere
    eng.select_orders = 'all' if chk.thorough() else 'budget'
    SCRIPTS = scripts(chk.thorough())
    CONFIGS = configs(chk.thorough())
    MAX_WAKEUPS = 12 if chk.thorough() else 10
    WAKEUPS_FOR = lambda script: 10 if len(script) >= 11 else MAX_WAKEUPS      # the longest script: bounded like the quick tier
    chk.bounds = {'select_macro_poll_orders': ('every order (scripts of >= 9 calls: <= 2 deviations per path)' if chk.thorough() else
                                               'written order; one deviation per path in the token-wait script (C09)'), 'scripts': SCRIPTS,
                  'configs': ['%s pipe=%d others=%d' % (c[0], c[2], c[3]) for c in CONFIGS],
                  'max_wakeups_per_path': MAX_WAKEUPS, 'select_timeouts_per_path': 1, 'cheat_func_answers': '0 or 1 (each call)',
                  'children': '<= 3 per process', 'adversary_moves_per_path': 1,
                  'child_kinds': 'proper (dies holding its own token) | cheater (gave its token back, dies leaving a cheat byte)'}
    chk.assumptions += [
        'system calls succeed (no EIO/EINTR); pipes are not closed by another process; fd numbers < 1024',
        'children die holding exactly the one token they were started with, or (cheater) after having released it and written one '
        'cheat byte',
        'other processes of the same jobserver only move whole tokens between themselves and the pipe (at most one spontaneous move '
        'per path) and eventually release what they hold',
        'computation between two blocking calls takes less than the shortest timer (10 ms): the clock advances only in select/sleep',
        'indistinguishable children: every NUMBER of child exits per wake-up is explored, not every subset',
        'thin in-crate syscall wrappers try_read/write_tokens/make_pipe/close_on_exec/timeval_from_duration and logging are replaced '
        'by the environment model (stubs listed under summaries_used)',
        'the client scripts mirror the call patterns of builder::run (read from the source); builder::run itself is not executed',
    ]

    def run_script(sname, cfg):
        script = SCRIPTS[sname]
        cname, top_level, pipe0, others0 = cfg
        st = {}

        def run():
            w = JobWorld(eng, pipe0, others0, adv_budget=(1 if top_level == 0 else 0), allow_steal=(top_level == 0),
                         max_wakeups=WAKEUPS_FOR(script))
            # one select! evaluation in another arm order per path: in the quick tier only where a token is waited for without a
            # running child (the scripts in which a timer expiry and a token arrival can coincide), and only for C09
            w.select_budget = 1 if (chk.thorough() or (pid == 'C09' and sname == 'locked-then-cheat')) else 0
            # thorough: every arm order at every select! evaluation, except in the two longest scripts (>= 9 calls), where it is
            # bounded to two deviations from the written order per path (exhaustive orders do not finish there)
            if chk.thorough():
                long_script = len(script) >= 9
                eng.select_orders = 'budget' if long_script else 'all'
                w.select_budget = 2 if long_script else 0
            eng.world = w
            st['w'] = w
            st['hang'] = None
            st['phase'] = 'block_on'
            server, state, params = make_server(eng, 1, 0, top_level)
            st['state'] = state
            w.server_state = state
            sref = new_cell(server)
            handle = eng.call('JobServer::handle', [sref], None, None)
            href = new_cell(handle)
            cl = Client(eng, href, script, [])

            def cheat(e, args):
                a = e.choose(2, 'cheat_func answer') if top_level == 0 else 0
                w.ev('cheat_func', answer=a)
                return ok(a)
            cl.cheat_closure = lambda: new_cell(PyCallable(cheat, 'cheat'))
            st['q0'] = pipe0 + others0 + 1
            try:
                res = eng.call('JobServer::block_on', [sref, Opaque('PyFuture', cl)], None, None)
            except Hang as e:
                st['hang'] = str(e)
                return None, None
            st['res'] = res
            st['phase'] = 'exit'
            p_before, x_before = w.P, w.X
            r2 = eng.call('JobServer::do_force_return_tokens', [sref], None, None)
            st['exit_written'] = (w.P - p_before, w.X - x_before)
            return res, r2

        def judge(outcome, val, path):
            w, state = st['w'], st['state']
            f = state_fields(eng, state)
            trace = list(w.log)
            wit = {'script_name': sname, 'script': script, 'config': cname, 'top_level': top_level, 'pipe0': pipe0,
                   'others0': others0, 'events': [(k, d) for k, d in trace]}
            chk.goal('some path eats a cheat byte on child exit', w.eaten > 0)
            chk.goal('some path cheats', any(k == 'cheat_func' and d['answer'] == 1 for k, d in trace))
            chk.goal('some path reads a token from the pipe', w.token_reads > 0)
            chk.goal('some wake-up has a child exit and a readable token pipe together',
                     any(k == 'select' and jobmodel.TOKEN_R in d['ready'] and len(d['ready']) > 1 for k, d in trace))
            chk.goal('a select timeout happens', any(k == 'select-timeout' for k, d in trace))
            if pid == 'C09':
                if st.get('hang'):
                    return {'role': 'hang:' + sname, 'witness': wit, 'kind': 'hang', 'what': 'process blocks forever: ' + st['hang']}
                if outcome == 'panic':
                    fn, sp = val.site()
                    short = (fn or '?').split('>::')[-1]
                    msg = norm_msg(val.msg)
                    return {'role': 'panic:%s:%s' % (short, msg), 'witness': wit, 'kind': 'panic', 'needle': needle(val.msg),
                            'what': 'jobserver aborts: %s in %s (%s:%s) after %s' % (val.msg, short, sp[0] if sp else '?',
                                                                                sp[1] if sp else '?', pattern(trace))}
                res, r2 = val
                for r in (res, r2):
                    if r is not None and r.var == 'Err':
                        msg = err_text(eng, r.f[0])
                        if 'deadlock' in msg:
                            return {'role': 'deadlock-error:' + sname, 'witness': wit, 'kind': 'error', 'needle': 'deadlock',
                                    'what': 'block_on gives up with "JobServer deadlock" although work is outstanding'}
                return None
            # ---------------- C08
            if st.get('hang') or outcome == 'panic':
                return None          # aborts and hangs are C09's subject (same exploration there)
            res, r2 = val
            chk.goal('top-level self check executed', top_level != 0 and res.var == 'Ok')
            abandoned = script[-1] == 'fail'
            chk.goal('a process exits while a job it started is still running', abandoned and any(c['state'] == 'running' for c in w.children))
            if (res.var == 'Err' and not abandoned) or (r2 is not None and r2.var == 'Err'):
                msg = err_text(eng, (res if res.var == 'Err' and not abandoned else r2).f[0])
                if 'expected' in msg and 'tokens' in msg:
                    return {'role': 'toplevel-selfcheck-fails', 'witness': wit, 'kind': 'selfcheck', 'needle': 'expected',
                            'what': 'top-level self check fails (%s) although the environment conserved tokens' % msg}
                return None
            if any(c['state'] != 'reaped' for c in w.children) and not abandoned:
                return None
            if abandoned and any(c['state'] == 'exited' for c in w.children):
                return None       # died but not reaped: the ledger below is stated for running (abandoned) and reaped children only
            if top_level == 0 or abandoned:
                end = w.P + w.others - w.X + 1
                if end != st['q0']:
                    my_f, ch_f = f['my_tokens'], f['cheats']
                    role = 'exit-ledger:exits-with-my_tokens=%s,cheats=%s' % (my_f, ch_f)
                    return {'role': role, 'witness': wit, 'kind': 'ledger', 'q0': st['q0'],
                            'what': 'process exits having %s %d token(s): pipe+others-cheat_bytes+1 = %d but the world started with %d '
                                    '(my_tokens=%s cheats=%s at exit, wrote %r at exit) after %s' % (
                                        'created' if end > st['q0'] else 'lost', abs(end - st['q0']), end, st['q0'], my_f, ch_f,
                                        st.get('exit_written'), pattern(trace))}
            return None

        def sample(outcome, val, path):
            w = st['w']
            return {'script': sname, 'config': cname, 'outcome': outcome, 'wakeups': w.wakeups,
                    'events': [k + (':' + ','.join('%s=%s' % kv for kv in d.items()) if d else '') for k, d in w.log][:40]}

        chk.explore('%s / %s pipe=%d others=%d' % (sname, cname, pipe0, others0), run, judge, sample, max_samples=1)

    # ------------------------------------------------------------------------------- arbitrary-state transitions (one step)
    def transitions():
        B = 4 if chk.thorough() else 3
        for meth, nargs in (('create_tokens', 1), ('destroy_tokens', 1), ('release', 1), ('release_except_mine', 0),
                            ('release_mine', 0)):
            st = {}

            def run(meth=meth, nargs=nargs):
                w = JobWorld(eng, 0, 0, adv_budget=0)
                eng.world = w
                my = z3.BitVec('my', 32)
                ch = z3.BitVec('cheats', 32)
                n = z3.BitVec('n', 32)
                eng.assume(z3.And(my >= 0, my <= B, ch >= 0, ch <= my, n >= -1, n <= B))
                server, state, params = make_server(eng, my, ch, 0)
                st.update(my=my, ch=ch, n=n, state=state, w=w)
                args = [new_cell(state)]
                if meth.startswith('release'):
                    args.append(Struct('()', [jobmodel.TOKEN_R, jobmodel.TOKEN_W]))
                if nargs:
                    args.append(n)
                return eng.call('ServerState::' + meth, args, None, None)

            def judge(outcome, val, path, meth=meth):
                w, state = st['w'], st['state']
                f = state_fields(eng, state)
                my, ch, n = st['my'], st['ch'], st['n']
                if outcome == 'panic':
                    chk.goal('transition %s: a precondition assert is reachable' % meth)
                    return None
                h0 = my - ch
                h1 = to_bv(f['my_tokens'], 32) - to_bv(f['cheats'], 32)
                written = w.P
                if meth == 'create_tokens':
                    bad = h1 != h0 + n
                elif meth == 'destroy_tokens':
                    bad = h1 != h0 - n
                else:
                    bad = z3.Or(h1 + z3.BitVecVal(written, 32) != h0, to_bv(f['cheats'], 32) < 0, to_bv(f['my_tokens'], 32) < 0)
                if pid == 'C09':
                    return None
                if eng.check(bad):
                    m = eng.model(bad)
                    vals = {k: m.eval(v, model_completion=True).as_signed_long() for k, v in (('my_tokens', my), ('cheats', ch), ('n', n))}
                    return {'role': 'transition-ledger:' + meth, 'kind': 'transition',
                            'witness': {'method': meth, 'state': vals, 'written': written},
                            'what': 'ServerState::%s breaks the ledger equation from state %r' % (meth, vals)}
                return None

            chk.explore('transition ' + meth, run, judge)

    # ------------------------------------------------------------------------------- backoff induction (unbounded waiting)
    def backoff_induction():
        """ensure_token_or_cheat waits in a loop with a growing back-off; the number of timeouts is unbounded (as long as no
        token arrives), so the bounded scripts above cannot see what happens after many of them.  One inductive step instead:
        start the loop with an ARBITRARY back-off d satisfying the invariant I(d): 1 ms <= d <= 1 s, go through two timeouts, and
        require (a) no Duration overflow and (b) that the value multiplied at the second timeout again satisfies I.  With the
        base case (the literal initial value satisfies I) this covers every number of timeouts."""
        ONE_S = 1000000000
        LO = 1000000      # 1 ms: a zero back-off would make the loop spin without ever blocking
        st = {}

        def run():
            w = JobWorld(eng, 0, 1, adv_budget=0, allow_steal=False, max_wakeups=MAX_WAKEUPS, max_timeouts=2)
            eng.world = w
            st['w'] = w
            st['muls'] = []
            st['init'] = []
            d = z3.Int('backoff0')

            def from_millis_hook(e, ms, sp):
                if 'ensure_token_or_cheat' in str(e.cur_site()) and not st['init']:
                    from mirsym.summaries.sysenv import tval
                    st['init'].append(tval(ms) * 1000000)
                    e.assume(z3.And(d >= LO, d <= ONE_S))
                    return Struct('Duration', [d])
                return None
            w.from_millis_hook = from_millis_hook
            w.on_duration_mul = lambda e, x, k, sp: st['muls'].append((x, k))
            server, state, params = make_server(eng, 0, 0, 0)
            sref = new_cell(server)
            href = new_cell(eng.call('JobServer::handle', [sref], None, None))
            cl = Client(eng, href, ['ensure'], [])

            def cheat(e, args):
                w.ev('cheat_func', answer=0)
                return ok(0)
            cl.cheat_closure = lambda: new_cell(PyCallable(cheat, 'cheat'))
            return eng.call('JobServer::block_on', [sref, Opaque('PyFuture', cl)], None, None)

        def judge(outcome, val, path):
            if pid != 'C09':
                return None
            w = st['w']
            chk.goal('backoff induction: two timeouts in one wait', w.timeouts >= 2 and len(st['muls']) >= 2)
            wit = {'script_name': 'backoff', 'script': ['ensure'], 'config': 'inherited', 'top_level': 0, 'pipe0': 0, 'others0': 1,
                   'events': [(k, d) for k, d in w.log]}
            if outcome == 'panic':
                fn, sp = val.site()
                return {'role': 'panic:ensure_token_or_cheat:backoff-overflow', 'witness': wit, 'kind': 'backoff',
                        'what': 'ensure_token_or_cheat aborts: %s (%s:%s)' % (val.msg, sp[0] if sp else '?', sp[1] if sp else '?')}
            if st['init'] and not (LO <= st['init'][0] <= ONE_S):
                return {'role': 'panic:ensure_token_or_cheat:backoff-overflow', 'witness': wit, 'kind': 'backoff',
                        'what': 'initial back-off %r ns is outside the invariant 1 ms..1 s' % st['init'][0]}
            for x, k in st['muls'][1:]:
                bad = z3.Or(x < LO, x > ONE_S) if not isinstance(x, int) else not (LO <= x <= ONE_S)
                if eng.check(bad):
                    return {'role': 'panic:ensure_token_or_cheat:backoff-overflow', 'witness': wit, 'kind': 'backoff',
                            'what': 'the back-off of ensure_token_or_cheat is not bounded: after one more timeout it can exceed 1 s '
                                    '(it keeps growing with every timeout until Duration arithmetic overflows and the process aborts)'}
            return None

        chk.explore('backoff induction (ensure_token_or_cheat, arbitrary 1ms <= backoff <= 1s, two timeouts)', run, judge)

    # ------------------------------------------------------------------------------- the cheat callback of builder::run
    def cheat_closure():
        """ensure_token_or_cheat calls its cheat_func once per timer expiry, any number of times.  builder::run passes a closure
        that probes the log lock (is redo-log following this job?).  builder::run itself is a lowered coroutine that is not
        executed, but the closure is an ordinary MIR body: call it three times in a row with every outcome of the lock probe and
        require: no abort, the answer is 1 exactly when somebody else holds the lock, and the probe lock is not kept."""
        from specs import dbmodel
        from specs.depsobl import EnvWorld
        name = [n for n in eng.bodies if n.startswith('run::{closure#0}::{closure#') and
                eng.body(n).argtys and '{closure@src/builder.rs' in eng.body(n).argtys[0][1] and len(eng.body(n).argtys) == 1 and
                'Result<i32' in (eng.body(n).ret or '')]
        if len(name) != 1:
            chk.inconclusive.append('cheat closure of builder::run not identified in the MIR (%r)' % (name,))
            return
        body = eng.body(name[0])
        st = {}

        class W(EnvWorld):
            def fcntl(self, e, fd, arg, sp):
                a = deref_all(arg)
                kind = a.var if isinstance(a, Enum) else (a.name if isinstance(a, Struct) else repr(a))
                fl = deref_all(a.f[0]) if isinstance(a, (Enum, Struct)) and a.f else None
                ltype = None
                if isinstance(fl, Struct):
                    o = e.src.structs.get('flock')
                    ltype = fl.f[0]
                self.log.append(('fcntl', kind, ltype))
                if os.environ.get('VERIF_DEBUG_FCNTL'):
                    log('fcntl arg=%r fl=%r ltype=%r' % (a, fl, ltype))
                if st['unlocking'](ltype):
                    return ok(0)
                k = e.choose(2, 'log lock is held by redo-log')
                st['answers'].append(k)
                return err(Enum('Errno', 'EAGAIN')) if k else ok(0)

        eng.summaries.setdefault('AsRawFd::as_raw_fd', lambda e, ci, a, sp: 9)

        def run():
            w = W(eng)
            eng.world = w
            st['answers'] = []
            st['unlocking'] = lambda lt: lt is not None and eng.concrete(lt, 'l_type') == 2      # F_UNLCK
            lm = dbmodel.mk(eng, 'LockManager', file=Opaque('fs::File', 'locks'), locks=Struct('RefCell', [Map('HashSet'), 0]))
            lock = dbmodel.mk(eng, 'Lock', manager=new_cell(lm), owned=False, fid=1000000007)
            me = new_cell(Enum('Option', 'Some', [Struct('()', [Vec(list(b'/p/x'), 'PathBuf'), Opaque('File', None), lock])]))
            cl = Closure(body.argtys[0][1].replace('&mut ', '').strip(), [me])
            st['lock'] = lock
            outs = []
            for i in range(3):
                r = eng.run_body(body, [new_cell(cl)])
                outs.append((r, lock.f[eng.src.structs['Lock'].index('owned')]))
            return outs

        def judge(outcome, val, path):
            wit = {'script_name': 'cheat-closure', 'answers': list(st['answers'])}
            chk.goal('cheat closure: called while redo-log holds the lock', any(st['answers']))
            chk.goal('cheat closure: called three times without redo-log', outcome == 'ok' and len(st['answers']) == 3 and not any(st['answers']))
            if outcome == 'panic':
                if pid != 'C09':
                    return None
                fn, sp = val.site()
                return {'role': 'panic:cheat-closure', 'witness': wit, 'kind': 'cheat',
                        'what': 'the cheat callback of builder::run aborts when it is called again (%s at %s:%s) after lock probes %r' % (
                            val.msg, sp[0] if sp else '?', sp[1] if sp else '?', st['answers'])}
            if outcome != 'ok':
                return None
            for (r, owned), k in zip(val, st['answers']):
                if r.var != 'Ok':
                    continue
                n = r.f[0]
                if pid == 'C08' and eng.check(n != k):
                    return {'role': 'cheat-closure-answer', 'witness': wit, 'kind': 'cheat',
                            'what': 'the cheat callback answers %r although the log lock is %s' % (n, 'held by redo-log' if k else 'free')}
                if pid == 'C09' and owned is not False:
                    return {'role': 'cheat-closure-keeps-lock', 'witness': wit, 'kind': 'cheat',
                            'what': 'the cheat callback keeps the log lock it probed'}
            return None

        chk.explore('cheat callback of builder::run, three calls, every lock-probe outcome', run, judge)

    # ------------------------------------------------------------------------------- JobServer::setup
    def setup_facts():
        """which pipes a redo process uses: -j0 under a parent jobserver joins it (token pipe AND cheat pipe); any explicit -jN
        (N >= 1) starts an own jobserver with N-1 tokens in a fresh token pipe, advertises it in MAKEFLAGS, and uses a fresh
        cheat pipe (cheat bytes compensate the accounting of ONE token pipe); without a parent, -j0 is an own jobserver of 1"""
        from specs.depsobl import EnvWorld
        st = {}
        INH = ' -j --jobserver-auth=100,101 --jobserver-fds=100,101'

        class W(EnvWorld):
            def __init__(self, e, env):
                EnvWorld.__init__(self, e, env)
                self.P = {}
                self.next = 200

            def make_pipe(self, e, startfd):
                r, wfd = self.next, self.next + 1
                self.next += 2
                self.P[wfd] = 0
                return ok(Struct('()', [r, wfd]))

            def write_tokens(self, e, fd, n):
                fd = e.concrete(fd, 'fd')
                self.P[fd] = self.P.get(fd, 0) + e.concrete(n, 'n')
                return ok(UNIT)

        def run():
            mj = eng.choose(4, 'max_jobs')
            has_parent = eng.choose(2, 'parent jobserver in MAKEFLAGS')
            has_cheat = eng.choose(2, 'REDO_CHEATFDS inherited') if has_parent else 0
            env = {}
            if has_parent:
                env['MAKEFLAGS'] = [ord(c) for c in INH]
            if has_cheat:
                env['REDO_CHEATFDS'] = [ord(c) for c in '102,103']
            w = W(eng, env)
            eng.world = w
            st.update(w=w, mj=mj, has_parent=has_parent, has_cheat=has_cheat)
            eng.stubs['make_pipe'] = lambda e, ci, a, sp: e.world.make_pipe(e, a[0])
            eng.stubs['write_tokens'] = lambda e, ci, a, sp: e.world.write_tokens(e, a[0], a[1])
            eng.stubs['fd_exists'] = lambda e, ci, a, sp: True
            eng.stubs['helpers::fd_exists'] = eng.stubs['fd_exists']
            return eng.call('JobServer::setup', [mj], None, None)

        def judge(outcome, val, path):
            if pid != 'C08':
                return None
            w, mj, has_parent, has_cheat = st['w'], st['mj'], st['has_parent'], st['has_cheat']
            wit = {'max_jobs': mj, 'parent': bool(has_parent), 'cheatfds': bool(has_cheat)}
            if outcome != 'ok' or val.var != 'Ok':
                return {'role': 'setup:' + outcome, 'kind': 'setup', 'witness': wit, 'what': 'JobServer::setup(%d): %s %r' % (mj, outcome, val)}
            srv = val.f[0]
            params = deref_all(srv.f[eng.src.structs['JobServer'].index('params')])
            pf = {n: params.f[i] for i, n in enumerate(eng.src.structs['ServerParams'])}
            tok = tuple(pf['token_fds'].f)
            cheat = tuple(pf['cheat_fds'].f)
            top = pf['top_level']
            join = bool(has_parent) and mj == 0
            chk.goal('setup: joins the parent jobserver', join)
            chk.goal('setup: -j1 under a parent jobserver', bool(has_parent) and mj == 1)
            want_top = 0 if join else (mj if mj else 1)
            got = {'token_pipe': 'parent' if tok == (100, 101) else 'own', 'cheat_pipe': 'parent' if cheat == (102, 103) else 'own',
                   'top_level': top, 'tokens_in_own_pipe': w.P.get(tok[1], 0) if tok != (100, 101) else None,
                   'written_to_parent_pipe': w.P.get(101, 0)}
            want = {'token_pipe': 'parent' if join else 'own', 'cheat_pipe': 'parent' if (join and has_cheat) else 'own',
                    'top_level': want_top, 'tokens_in_own_pipe': None if join else want_top - 1, 'written_to_parent_pipe': 0}
            wit.update(got=got, want=want)
            if got != want:
                diff = [k for k in want if got[k] != want[k]]
                return {'role': 'setup:' + diff[0], 'kind': 'setup', 'witness': wit,
                        'what': 'JobServer::setup(-j%d, parent jobserver %s, REDO_CHEATFDS %s) uses %r, expected %r' % (
                            mj, 'present' if has_parent else 'absent', 'present' if has_cheat else 'absent',
                            {k: got[k] for k in diff}, {k: want[k] for k in diff})}
            if not join:
                mf = bytes(w.envmap.get('MAKEFLAGS', [])).decode()
                if '--jobserver-auth=%d,%d' % tok not in mf:
                    return {'role': 'setup:makeflags', 'kind': 'setup', 'witness': wit,
                            'what': 'an own jobserver is not advertised in MAKEFLAGS (%r)' % mf}
            return None

        try:
            chk.explore('JobServer::setup: which token / cheat pipe, how many tokens', run, judge)
        finally:
            for k in ('fd_exists', 'helpers::fd_exists'):
                eng.stubs.pop(k, None)
            install_stubs(eng)

    rep = Replayer(log)
    try:
        transitions()
        if not os.environ.get('VERIF_ONLY') or 'setup' in os.environ.get('VERIF_ONLY'):
            setup_facts()
        if not os.environ.get('VERIF_ONLY') or 'cheat' in os.environ.get('VERIF_ONLY'):
            cheat_closure()
        if not os.environ.get('VERIF_ONLY') or 'backoff' in os.environ.get('VERIF_ONLY'):
            backoff_induction()
        only = os.environ.get('VERIF_ONLY')
        for sname in SCRIPTS:
            for cfg in CONFIGS:
                if only and only not in '%s/%s/%d/%d' % (sname, cfg[0], cfg[2], cfg[3]):
                    continue
                if sname == 'two-running-then-ensure' and not chk.thorough() and (cfg[0], cfg[2], cfg[3]) not in (('inherited', 1, 0), ('own-j2', 1, 0)):
                    continue        # quick tier: the two configurations in which a second token can be obtained at all
                run_script(sname, cfg)
        from lib.scenario import Scenario
        scn = Scenario(log)
        if not only or only == 'sched' or 'builder::run' in only:
            from specs import schedcheck
            schedcheck.explore(chk, pid, scn)
        global sched_replay
        sched_replay = lambda c: schedcheck.replay_cand(chk, scn, c)
        global cheat_replay
        cheat_replay = cheat_replay_factory(scn)
        try:
            chk.finish(make_replay(rep))
        finally:
            scn.cleanup()
    finally:
        rep.cleanup()


def err_text(eng, e):
    try:
        msg = e.f[eng.src.structs['RedoError'].index('msg')]
        return bytes(x for x in msg.items if isinstance(x, int)).decode('utf-8', 'replace') + \
            ''.join(' ' + repr(x) for x in msg.items if not isinstance(x, int))
    except Exception:
        return repr(e)


def norm_msg(m):
    import re
    m = re.sub(r'left=(\S+) right=(\S+)', r'left=\1,right=\2', m)
    return re.sub(r'[^A-Za-z0-9_=<>!,.]+', '_', m)[:60]


def needle(m):
    """text that the native panic message must contain"""
    import re
    mm = re.search(r'left=(\S+) right=(\S+)', m)
    if mm:
        return 'left: %s' % mm.group(1)
    return m.strip("'")[:40]


def pattern(trace):
    """short human description of the call pattern (used in messages only)"""
    out = []
    for k, d in trace:
        if k == 'op':
            out.append(d['name'])
        elif k == 'cheat_func' and d['answer'] == 1:
            out.append('(cheat)')
        elif k == 'child-exit':
            out.append('(child exits%s)' % (' leaving a cheat byte' if d.get('kind') == 'cheater' else ''))
        elif k == 'read-cheat':
            out.append('(eat cheat byte)')
        elif k in ('adv-take', 'adv-steal'):
            out.append('(token taken by another process)')
        elif k == 'read-token':
            out.append('(read token)')
    return ' '.join(out)


# ---------------------------------------------------------------------------------------------- native replay
def to_native(w):
    """engine path (script + environment choices) -> scenario line for replay/jobserver_replay.rs"""
    ops = []
    child_of = {}       # pid -> index
    s_entries = []      # indices of S ops in `ops`
    cur = None          # index in ops of the op currently awaited (pre-actions are inserted before it)
    for k, d in w['events']:
        if k == 'op':
            name = d['name']
            if name == 'ensure':
                ops.append(['E', []])
                cur = len(ops) - 1
            elif name == 'start':
                ops.append(['S', 'p'])
                s_entries.append(len(ops) - 1)
                cur = None
            elif name == 'wait_all':
                ops.append(['W'])
                cur = len(ops) - 1
            elif name == 'release_mine':
                ops.append(['R'])
                cur = None
            elif name == 'sleep':
                ops.append(['Z'])
                cur = len(ops) - 1
            elif name == 'drain':
                ops.append(['D'])
                cur = len(ops) - 1
            elif name == 'fail':
                ops.append(['F'])
                cur = None
        elif k == 'release_mine-skipped':
            # builder::run asks has_token() first; the client mirrored that and did not call release_mine
            for j in range(len(ops) - 1, -1, -1):
                if ops[j][0] == 'R':
                    del ops[j]
                    s_entries = [x - 1 if x > j else x for x in s_entries]
                    if cur is not None and cur > j:
                        cur -= 1
                    break
        elif k == 'fork':
            child_of[d['pid']] = len(child_of)
        elif k == 'cheat_func':
            for j in range(len(ops) - 1, -1, -1):
                if ops[j][0] == 'E':
                    ops[j][1].append(str(d['answer']))
                    break
        elif k == 'child-exit':
            i = child_of.get(d['pid'])
            if i is None:
                continue
            if d.get('kind') == 'cheater':
                ops[s_entries[i]][1] = 'c'
            pos = cur if cur is not None else len(ops)
            ops.insert(pos, ['G', str(i)])
            s_entries = [x + 1 if x >= pos else x for x in s_entries]
            if cur is not None:
                cur += 1
        elif k in ('adv-take', 'adv-steal'):
            pos = cur if cur is not None else len(ops)
            ops.insert(pos, ['A-'])
            s_entries = [x + 1 if x >= pos else x for x in s_entries]
            if cur is not None:
                cur += 1
        elif k == 'adv-release':
            pos = cur if cur is not None else len(ops)
            ops.insert(pos, ['A+'])
            s_entries = [x + 1 if x >= pos else x for x in s_entries]
            if cur is not None:
                cur += 1
    # children that never exited in the trace are released at the very end so that nothing is left behind
    toks = []
    for o in ops:
        if o[0] == 'E':
            toks.append('E:' + ''.join(o[1]))
        elif o[0] in ('S', 'G'):
            toks.append('%s:%s' % (o[0], o[1]))
        else:
            toks.append(o[0])
    return '%d %d 0 %s' % (w['top_level'], w['pipe0'], ' '.join(toks))


def parse_native(line):
    parts = line.split(' ')
    d = {'status': parts[1]}
    rest = ' '.join(parts[2:])
    import re
    for key in ('tokens', 'cheats', 'my', 'ch', 'taken'):
        m = re.search(r'\b%s=(-?\d+)' % key, rest)
        if m:
            d[key] = int(m.group(1))
    m = re.search(r'result=(.*?) tokens=', rest)
    d['result'] = m.group(1) if m else ''
    return d


CHEAT_SCENARIO = r"""
set -u
mkdir proj && cd proj
# y and x both need `shared`; z soaks up the token that x's redo-ifchange gives back while it waits for the lock on `shared`.
# When the lock is handed over no token is free for a while, so x's redo-ifchange (not followed by redo-log: --no-log) sits
# through several expiries of its token-wait timer, i.e. several calls of the cheat callback.
printf ': > shared.started\nsleep 2\necho shared-data\n' > shared.do
printf 'redo-ifchange shared\nsleep 1.5\necho y-done\n' > y.do
printf 'while [ ! -e shared.started ]; do sleep 0.05; done\nredo-ifchange shared\necho x-done\n' > x.do
printf 'sleep 4\necho z-done\n' > z.do
timeout 60 redo --no-log -j2 y x z > ../log 2>&1
echo "rc=$?"
echo "x=$(cat x 2>/dev/null || echo MISSING)"
grep -c 'panicked' ../log | sed 's/^/panics=/'
grep -m2 'panicked\|assertion' ../log | sed 's/^/LOG: /'
"""


def cheat_replay_factory(scn):
    def cheat_replay(c):
        if scn is None:
            return False, 'no scenario runner'
        rc, out = scn.run({}, CHEAT_SCENARIO, timeout=180)
        c['scenario_output'] = out[-2000:]
        lines = dict(l.split('=', 1) for l in out.split('\n') if '=' in l and not l.startswith('LOG'))
        bad = lines.get('rc') != '0' and lines.get('panics', '0') != '0'
        return bad, 'real binaries, `redo --no-log -j2 y x z` with a lock hand-over while no token is free: exit %s, %s panic line(s)%s' % (
            lines.get('rc'), lines.get('panics'), ''.join(' | ' + l for l in out.split('\n') if l.startswith('LOG')))
    return cheat_replay


def make_replay(rep):
    def replay(c):
        if c.get('kind') == 'sched':
            return sched_replay(c)
        if c.get('kind') == 'transition':
            return False, 'transition counterexamples are replayed through Kani only'
        w = c['witness']
        if c.get('kind') == 'setup':
            if 'want' not in w:
                return False, 'no prediction to compare with'
            line = '%d %d %d' % (w['max_jobs'], 1 if w['parent'] else 0, 1 if w['cheatfds'] else 0)
            payload, raw, rc = rep.run('jobserver', 'setup_batch', [line], timeout=600)
            if len(payload) != 1:
                return False, 'native run failed (rc=%s): %s' % (rc, raw[-400:])
            got = dict(x.split('=', 1) for x in payload[0].split(' ')[2:] if '=' in x)
            want = w['want']
            wn = {'TOK': want['token_pipe'], 'CHEAT': want['cheat_pipe'], 'TOP': str(want['top_level']),
                  'OWNTOKENS': str(want['tokens_in_own_pipe']), 'PARENTWRITTEN': str(want['written_to_parent_pipe'])}
            return got != wn, 'compiled JobServer::setup on `%s`: %s; documented: %r' % (line, payload[0], wn)
        if c.get('kind') == 'cheat':
            return cheat_replay(c)
        if c.get('kind') == 'backoff':
            # the inductive step failed: confirm on the real code that waiting through enough timeouts aborts the process
            # (80 timeouts, about 75 s of real waiting; the 81st cheat_func answer ends the wait on a correct implementation)
            line = '0 0 0 R A- E:' + '0' * 80 + '1'
            c['native_scenario'] = line
            payload, raw, rc = rep.run('jobserver', 'script_batch', [line], release=False, timeout=900)
            if len(payload) != 1:
                return False, 'native run failed (rc=%s): %s' % (rc, raw[-400:])
            d = parse_native(payload[0])
            return (d['status'] == 'PANIC' and 'overflow' in d['result']), 'scenario `%s` -> %s' % (line, payload[0])
        line = to_native(w)
        c['native_scenario'] = line
        if c.get('kind') == 'hang':
            # a process that never finishes: run the scenario natively under a short time limit
            import subprocess
            try:
                payload, raw, rc = rep.run('jobserver', 'script_batch', [line], release=False, timeout=40)
            except subprocess.TimeoutExpired:
                subprocess.run(['pkill', '-9', '-f', 'verif_replay::script_batch'], stdout=subprocess.DEVNULL, stderr=subprocess.DEVNULL)
                return True, 'scenario `%s` does not finish within 40 s natively (after the build)' % line
            return False, 'scenario `%s` finishes natively: %s' % (line, payload[:1])
        outs = []
        for release in (False, True):
            payload, raw, rc = rep.run('jobserver', 'script_batch', [line], release=release, timeout=600)
            if len(payload) != 1:
                return False, 'native run failed (rc=%s): %s' % (rc, raw[-400:])
            outs.append(payload[0])
        ok_all = True
        for out in outs:
            d = parse_native(out)
            if c['kind'] == 'panic':
                good = d['status'] == 'PANIC' and c['needle'] in d['result']
            elif c['kind'] in ('error', 'selfcheck'):
                good = d['status'] == 'ERR' and c['needle'] in d['result']
            elif c['kind'] == 'ledger':
                nplus = line.split(' ').count('A+')
                others = w['others0'] + d.get('taken', 0) - nplus
                end = d.get('tokens', 0) + others - d.get('cheats', 0) + 1
                abandoned = line.split(' ')[-1] == 'F'
                good = (d['status'] == 'OK' or (abandoned and d['status'] == 'ERR' and 'boom' in d['result'])) and end != c['q0']
            elif c['kind'] == 'hang':
                good = False
            else:
                good = False
            ok_all = ok_all and good
        if not ok_all and c['kind'] == 'panic':
            # a wake-up in which a timer expiry and a readable descriptor coincide needs the process to be descheduled between
            # select() returning and the futures being polled, and then the pseudo-random arm order of futures::select! to pick the
            # timer first: inject the delay (LD_PRELOAD shim around select) and retry a few times
            import subprocess
            from lib import prep as _prep
            shim = os.path.join(_prep.SCRATCH_ROOT, 'selshim-%d.so' % os.getpid())
            os.makedirs(_prep.SCRATCH_ROOT, exist_ok=True)
            r = subprocess.run(['cc', '-shared', '-fPIC', '-O1', '-o', shim, os.path.join(_prep.VERIF, 'replay', 'crashshim.c'), '-ldl'],
                               stdout=subprocess.PIPE, stderr=subprocess.STDOUT)
            if r.returncode == 0:
                try:
                    for attempt in range(1, 25):
                        payload, raw, rc = rep.run('jobserver', 'script_batch', [line], release=False, timeout=600,
                                                   env={'LD_PRELOAD': shim, 'VERIF_SELECT_DELAY_MS': '40',
                                                        'VERIF_SELECT_SEED_SKIP': str(attempt - 1)})
                        if len(payload) != 1:
                            break
                        d = parse_native(payload[0])
                        if d['status'] == 'PANIC' and c['needle'] in d['result']:
                            return True, ('scenario `%s` with the process descheduled for 40 ms after each select() (timer expiry and token '
                                          'arrival in one wake-up), select! seed #%d (its arm order is pseudo-random per thread) -> %s' % (line, attempt, payload[0]))
                finally:
                    try:
                        os.unlink(shim)
                    except OSError:
                        pass
        return ok_all, 'scenario `%s` -> dev: %s | release: %s' % (line, outs[0], outs[1])
    return replay
