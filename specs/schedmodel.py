"""Combined world for executing the real `builder::run` coroutine (the scheduler) under the real `JobServer::block_on`:
jobserver environment (token / cheat pipes, children, clock: specs/jobmodel.py) + database and filesystem (specs/buildworld.py)
+ fcntl byte-range locks shared with other redo processes.

What the forked children (sh -e x.do) do is not executed; each child's observable outcome is chosen when it exits: exit
status, and what it wrote to its capture file.  Other redo processes appear only through the lock file: a lock they hold makes
F_SETLK fail; when this process blocks in F_SETLKW they finish their build (successfully or not, recorded in the database the
way the real code records it) and release the lock."""
import z3
from mirsym.values import *
from mirsym.engine import PyCallable
from mirsym.summaries.core import some, none, ok, err, deref_all
from mirsym.summaries.env import io_error
from mirsym.summaries.sysenv import errno
from specs import dbmodel, buildworld, buildjob, jobmodel
from specs.jobmodel import JobWorld, Hang
from specs.buildworld import BuildWorld
from specs.dbmodel import BASE, S1, S2

F_RDLCK, F_WRLCK, F_UNLCK = 0, 1, 2


class LockDeadlock(Exception):
    """blocking F_SETLKW on a lock whose holder cannot finish"""


class SchedWorld(JobWorld, BuildWorld):
    def __init__(self, eng, runid, pipe_tokens, others, **kw):
        BuildWorld.__init__(self, eng, runid)
        JobWorld.__init__(self, eng, pipe_tokens, others, **kw)
        self.captures = []            # capture files in creation order (one per started job)
        self.child_capture = {}       # pid -> capture file
        self.child_target = {}        # pid -> target name (from the job's reason string)
        self.held = set()             # fids whose byte the process under examination (proc 0) has locked
        self.proc = 0                 # which process is executing: 0 = the command under examination, pid = a nested sub-redo
        self.held_by = {}             # fid -> process that holds the byte (nested sub-redos included)
        self.scripts = None           # {target name: [('ifchange', [names])...]}: what a script does, run with the real code
        self.nest_depth = 0
        self.other_locks = {}         # fid -> {'outcome': 'built'|'failed'|'clean', 'name': bytes}
        self.nstamp = 0
        self.script_outputs = {}      # pid -> True/False (wrote stdout)
        self.script_writes_stdout = True
        self.lock_log = []
        self.fresh_capture = None
        self.server_state = None
        self._cmd_argv = []
        self.cmd_target = None
        self.digest = b''
        self.script_declares = None     # {target name: source name}
        self.child_target_name = {}
        self.select_budget = 0

    # ---- time: in this exploration a blocking call takes exactly as long as it was asked to (a concrete clock); the symbolic
    # clock of the jobserver obligations (every later instant) stays with C08/C09's client scripts
    def advance(self, eng, at_least):
        from mirsym.summaries.sysenv import tval
        d = tval(at_least)
        if isinstance(d, int) and isinstance(self.clock, int):
            self.clock = self.clock + d + 1
            return
        JobWorld.advance(self, eng, at_least)

    # ---- fresh stamps for any number of new files
    def fresh_stamp(self):
        self.nstamp += 1
        return tuple(b'%d.000000-%d-%d-33188-0-0' % (20 + self.nstamp, 70 + self.nstamp, 900 + self.nstamp))

    def tempfile(self, eng, sp):
        c = Opaque('fs::File', {'kind': 'capture', 'size': 0, 'pos': 0, 'n': len(self.captures)})
        self.captures.append(c)
        self.fresh_capture = c
        return ok(c)

    # ---- children: the script's observable outcome is applied when the child exits
    def fork(self, eng, sp):
        r = JobWorld.fork(self, eng, sp)
        pid = self.children[-1]['pid']
        fork_ev = self.log[-1][1]
        # a script job (start_self) creates its capture file right before the fork; the other kind of child is redo-unlocked
        # (start_deps_unlocked), which records its result in its own process
        cap = getattr(self, 'fresh_capture', None)
        self.fresh_capture = None
        kind = 'script' if cap is not None else 'unlocked'
        if cap is not None:
            self.child_capture[pid] = cap
        self.children[-1]['job_kind'] = kind
        if kind == 'unlocked' and self.scripts is not None and self.__dict__.get('pending_closure') is not None:
            saved_env = dict(self.envmap)
            self.exec_argv = None
            try:
                self.eng.call_closure(self.pending_closure, [])
            except ProcessExit:
                pass
            self.envmap = saved_env
            self.children[-1]['argv'] = list(self.exec_argv or [])
        pt = self.__dict__.get('pending_target')
        if pt is not None:
            import os.path
            self.child_target_name[pid] = tuple(os.path.normpath(pt).encode('latin-1'))
        fork_ev['job_kind'] = kind
        self.effect('fork', pid=pid, job_kind=kind)
        return r

    def child_exit(self, c, forced=False):
        JobWorld.child_exit(self, c, forced)
        cap = self.child_capture.get(c['pid'])
        if cap is not None and self.script_writes_stdout:
            cap.data['size'] = 5
            cap.data['pos'] = 5
        if cap is not None and self.script_declares:
            self.script_declares_effect(c)
        if cap is not None and self.scripts:
            self.run_script_commands(c)
        if cap is None and self.scripts is not None and c.get('job_kind') == 'unlocked':
            self.run_unlocked(c)

    def run_script_commands(self, c):
        """the redo commands of the script of child `c`, executed with the real code as a nested process at the moment the child
        is seen to exit (a script's commands are atomic with respect to its siblings in this exploration)"""
        tname = self.child_target_name.get(c['pid'])
        ops = self.scripts.get(bytes(tname)) if tname is not None else None
        if not ops or self.nest_depth >= 3:
            return
        for op in ops:
            if op[0] == 'ifchange':
                rc = self.sub_redo_ifchange(c, bytes(tname), list(op[1]))
                self.ev('sub-redo', parent=bytes(tname).decode(), targets=[x.decode() for x in op[1]], rc=rc)
                if rc != 0:
                    c['forced_status'] = 1           # sh -e: the script stops at the failing command
                    return
            elif op[0] in ('always', 'ifcreate'):
                # the real always::run / ifcreate::run of the bin crate
                argv = [b'redo-always'] if op[0] == 'always' else [b'redo-ifcreate'] + list(op[1])
                rc = self.run_cmd(c, bytes(tname), op[0] + '::run', argv)
                self.ev('redo-' + op[0], target=bytes(tname).decode(), rc=rc)
                if rc != 0:
                    c['forced_status'] = 1
                    return
            elif op[0] == 'stamp':
                d = op[1]
                if isinstance(d, dict):
                    d = d.get(self.runid, d.get('default'))
                rc = self.run_stamp(c, bytes(tname), d)
                self.ev('redo-stamp', target=bytes(tname).decode(), digest=bytes(d).decode(), rc=rc)
                if rc != 0:
                    c['forced_status'] = 1
                    return

    def sub_redo_ifchange(self, c, tname, names, no_oob=False, unlocked=False, proc=None):
        """a `redo-ifchange names...` process: its prelude (edges on the calling target, if any) and the real builder::run with the real
        should_build, under its own JobServer; -> exit status"""
        eng = self.eng
        saved = (self.proc, self.server_state, self.wakeups, self.timeouts, dict(self.envmap), self.__dict__.get('pending_target'),
                 self.__dict__.get('pending_closure'))
        self.proc = proc if proc is not None else c['pid']
        self.nest_depth += 1
        try:
            if tname is not None:
                tid = [k for k, r in self.files.items() if tuple(r['name']) == tuple(tname)]
                cyc = self.envmap.get('REDO_CYCLES')
                ids = ([] if not cyc else bytes(cyc).decode().split(':')) + [str(x) for x in tid]
                self.envmap['REDO_CYCLES'] = [ord(ch) for ch in ':'.join(ids)]
            envkw = dict(log=0, no_oob=bool(no_oob), unlocked=bool(unlocked))
            if tname is not None:
                envkw['target'] = rp(tname)
            env = dbmodel.make_env(eng, self.runid, **envkw)
            ps = dbmodel.make_process_state(eng, env)
            psr = new_cell(ps)
            if tname is not None and not unlocked:
                # redo-ifchange's own prelude (bin/redo/ifchange.rs): record the edges on the calling target, commit
                ptx = dbmodel.begin(eng, psr)
                ptxr = new_cell(ptx)
                me = eng.call('state::File::from_name', [ptxr, new_cell(Vec(list(BASE + b'/' + tname), 'PathBuf')), True], None, None)
                if me.var != 'Ok':
                    return 1
                mer = new_cell(me.f[0])
                for n in names:
                    r = eng.call('state::File::add_dep', [mer, ptxr, Enum('DepMode', 'Modified'), new_cell(rp(n))], None, None)
                    if r.var != 'Ok':
                        return 1
                eng.call('state::File::save', [mer, ptxr], None, None)
                eng.call('ProcessTransaction::commit', [ptxr.get()], None, None)
            server, state, params = jobmodel.make_server(eng, 1, 0, 0)
            self.server_state = state
            sref = new_cell(server)
            href = new_cell(eng.call('JobServer::handle', [sref], None, None))
            tvec = Vec([rp(n) for n in names], 'Vec<RedoPathBuf>')
            root = eng.call('builder::run', [psr, href, tvec, FnItem('ifchange::should_build')], None, None)
            res = eng.call('JobServer::block_on', [sref, root], None, None)
            eng.call('JobServer::do_force_return_tokens', [sref], None, None)
            return 0 if res.var == 'Ok' else 1
        finally:
            self.nest_depth -= 1
            self.proc, self.server_state, self.wakeups, self.timeouts, self.envmap, pt, pc = saved
            self.pending_target = pt
            self.pending_closure = pc

    # ---- the out-of-band path: the child of start_deps_unlocked is `redo-unlocked <target> <deps...>`
    def run_unlocked(self, c):
        """the real unlocked::run (bin MIR) with the argv the real child closure handed to execvp; the two redo-ifchange commands it
        spawns are nested processes running the real builder::run"""
        eng = self.eng
        argv = c.get('argv')
        if not argv:
            raise Unsupported('redo-unlocked child without a captured argv')
        saved = (self._cmd_argv, self.proc)
        self._cmd_argv = argv
        self.cmd_target = None
        self.proc = c['pid']
        try:
            try:
                r = eng.call('unlocked::run', [], None, None)
            except ProcessExit as e:
                self.ev('redo-unlocked-exit', code=repr(e.args[0] if e.args else '?'))
                c['forced_status'] = 1
                return
            c['forced_status'] = 0 if (isinstance(r, Enum) and r.var == 'Ok') else 1
        finally:
            self._cmd_argv, self.proc = saved

    def argv(self, eng):
        return self._cmd_argv

    def spawn(self, eng, prog, args, env, sp):
        if prog != 'redo-ifchange':
            raise Unsupported('spawn of %r' % prog)
        envd = dict((k, v) for k, v in env)
        self.ev('spawn', prog=prog, args=list(args), env=sorted(envd.items()))
        rc = self.sub_redo_ifchange(None, None, [a.encode('latin-1') for a in args], no_oob=envd.get('REDO_NO_OOB') == '1',
                                    unlocked=envd.get('REDO_UNLOCKED') == '1', proc=('unlocked', self.proc, len(self.log)))
        return ok(Opaque('Child', rc))

    def child_wait(self, eng, child, sp):
        return ok(Opaque('ExitStatus', child.data))

    def run_cmd(self, c, tname, entry, argv):
        eng = self.eng
        saved = (self._cmd_argv, self.proc, self.__dict__.get('cmd_target'))
        self._cmd_argv = argv
        self.cmd_target = tname
        self.proc = c['pid']
        try:
            try:
                r = eng.call(entry, [], None, None)
            except ProcessExit:
                return 1
            return 0 if (isinstance(r, Enum) and r.var == 'Ok') else 1
        finally:
            self._cmd_argv, self.proc, self.cmd_target = saved

    def run_stamp(self, c, tname, digest):
        """`redo-stamp` in a script: the real stamp::run; the digest of its input is the script's (an input of the exploration)"""
        eng = self.eng
        saved = (self._cmd_argv, self.proc, self.__dict__.get('cmd_target'))
        self._cmd_argv = [b'redo-stamp']
        self.cmd_target = tname
        self.digest = digest
        self.proc = c['pid']
        try:
            try:
                r = eng.call('stamp::run', [], None, None)
            except ProcessExit:
                return 1
            return 0 if (isinstance(r, Enum) and r.var == 'Ok') else 1
        finally:
            self._cmd_argv, self.proc, self.cmd_target = saved

    def waitpid(self, eng, pid, opts, sp):
        r = JobWorld.waitpid(self, eng, pid, opts, sp)
        p = pid.f[0].f[0] if isinstance(pid, Enum) and pid.var == 'Some' else None
        for c in self.children:
            if c['pid'] == p and c.get('forced_status') is not None and r.var == 'Ok':
                # the script's own redo-ifchange failed (sh -e), or the child is redo-unlocked whose status the real code decided
                eng.assume(c['status'] != 0 if c['forced_status'] else c['status'] == 0)
        return r

    def script_declares_effect(self, c):
        """`redo-ifchange <source>` in the script: what ifchange::run commits for a source file - the edge, and the source's row
        with its current stamp (changed in this run if the stamp is new); the same summary as in C10's crash exploration"""
        tname = self.child_target_name.get(c['pid'])
        src = self.script_declares.get(tname) if isinstance(self.script_declares, dict) else None
        if not src:
            return
        tid = [k for k, r in self.files.items() if tuple(r['name']) == tuple(tname)]
        if not tid:
            return
        if isinstance(src, tuple) and src[0] in ('always', 'ifcreate'):
            # `redo-always` / `redo-ifcreate F` in the script: what always::run / ifcreate::run commit (decided by C14's own obligations)
            if src[0] == 'always':
                nm, mode = b'//ALWAYS', b'm'
            else:
                nm, mode = src[1], b'c'
            sid = [k for k, r in self.files.items() if tuple(r['name']) == tuple(nm)]
            if not sid:
                sid = [self.next_rowid]
                self.next_rowid += 1
                self.add_file(sid[0], nm, is_generated=False, is_override=False)
            if src[0] == 'always':
                self.files[sid[0]].update(stamp=tuple(b'0'), changed_runid=self.runid)
            self.deps[(tid[0], sid[0])] = {'mode': tuple(mode), 'delete_me': 0}
            self.ev('script-declares', target=bytes(tname).decode(), source=bytes(nm).decode(), mode=mode.decode())
            if self.db_committed is not None and not self.in_tx:
                self.db_committed = self.snap_db()
            return
        sid = [k for k, r in self.files.items() if tuple(r['name']) == tuple(src)]
        if not sid:
            sid = [self.next_rowid]
            self.next_rowid += 1
            self.add_file(sid[0], src, is_generated=False, is_override=False)
        row = self.files[sid[0]]
        st = self.fs_stamp(tuple(src))
        if row.get('stamp') is None or tuple(row['stamp']) != tuple(st or b'0'):
            row['stamp'] = tuple(st) if st is not None else tuple(b'0')
            row['changed_runid'] = self.runid
        self.deps[(tid[0], sid[0])] = {'mode': tuple(b'm'), 'delete_me': 0}
        self.ev('script-declares', target=bytes(tname).decode(), source=bytes(src).decode())
        if self.db_committed is not None and not self.in_tx:
            self.db_committed = self.snap_db()

    # ---- fcntl byte-range locks
    def fcntl(self, eng, fd, arg, sp):
        a = deref_all(arg)
        kind = a.var if isinstance(a, Enum) else (a.name if isinstance(a, Struct) else repr(a))
        fl = deref_all(a.f[0]) if isinstance(a, (Enum, Struct)) and a.f else None
        if not isinstance(fl, Struct):
            raise Unsupported('fcntl argument %r' % (a,))
        names = eng.src.structs.get('flock') or ['l_type', 'l_whence', 'l_start', 'l_len', 'l_pid']
        f = dict(zip(names, fl.f)) if len(names) == len(fl.f) else {'l_type': fl.f[0], 'l_start': fl.f[2]}
        ltype = eng.concrete(f['l_type'], 'l_type')
        fid = eng.concrete(f['l_start'], 'l_start')
        if ltype == F_UNLCK:
            if self.held_by.get(fid) == self.proc:
                del self.held_by[fid]
            if self.proc == 0:
                self.held.discard(fid)
            self.ev('unlock', fid=fid, proc=self.proc)
            self.lock_log.append(('unlock', fid))
            return ok(0)
        owner = self.held_by.get(fid)
        if owner is not None and owner != self.proc:
            # held by another process of this tree (the parent that started the script, or a sub-redo)
            if kind == 'F_SETLK':
                self.ev('try-lock', fid=fid, got=False, proc=self.proc, holder=owner)
                return err(Enum('Errno', 'EAGAIN'))
            raise Hang('F_SETLKW by process %s on file id %d, which process %s of the same tree holds while it waits for this one' % (
                self.proc, fid, owner))
        if kind == 'F_SETLK':
            if fid in self.other_locks:
                o = self.other_locks[fid]
                o['tries'] = o.get('tries', 0) + 1
                if o.get('free_at_try') and o['tries'] >= o['free_at_try']:
                    # the holder has finished by the time of this attempt
                    self.other_finishes(eng, fid)
            if fid in self.other_locks and self.other_locks[fid].get('race'):
                # the holder finishes and lets go after this process read the target's row, before it asks for the lock
                self.other_finishes(eng, fid)
            if fid in self.other_locks:
                self.ev('try-lock', fid=fid, got=False, proc=self.proc)
                self.lock_log.append(('try-fail', fid))
                return err(Enum('Errno', 'EAGAIN'))
            self.held_by[fid] = self.proc
            if self.proc == 0:
                self.held.add(fid)
            self.ev('try-lock', fid=fid, got=True, proc=self.proc)
            self.lock_log.append(('lock', fid))
            return ok(0)
        if kind == 'F_SETLKW':
            mt = None
            if getattr(self, 'server_state', None) is not None:
                mt = jobmodel.state_fields(eng, self.server_state)['my_tokens']
                mt = mt if isinstance(mt, int) else repr(mt)
            self.ev('wait-lock', fid=fid, proc=self.proc, holding=sorted(self.held), running=len(self.running()),
                    exited_unreaped=len([c for c in self.children if c['state'] == 'exited']), my_tokens=mt)
            self.lock_log.append(('wait', fid, tuple(sorted(self.held))))
            if fid in self.other_locks:
                if self.other_locks[fid]['outcome'] == 'never':
                    # the holder is an ancestor of this process: it waits for us
                    raise Hang('F_SETLKW on file id %d, whose lock is held by an ancestor of this process that is waiting for it' % fid)
                self.other_finishes(eng, fid)
            self.held_by[fid] = self.proc
            if self.proc == 0:
                self.held.add(fid)
            self.lock_log.append(('lock', fid))
            return ok(0)
        raise Unsupported('fcntl %s' % kind)

    def other_finishes(self, eng, fid):
        """the process that held the lock on `fid` finishes its job and releases it; what it recorded is what the real
        record_new_state / set_failed would have recorded (row facts decided by C01-3 / C05)"""
        o = self.other_locks.pop(fid)
        row = self.files.get(fid)
        self.ev('other-finishes', fid=fid, outcome=o['outcome'])
        if row is None:
            return
        name = tuple(row['name'])
        if o['outcome'] == 'built':
            st = self.fresh_stamp()
            self.fs[name] = st
            self.content[name] = 'built-by-other'
            row.update(is_generated=True, is_override=False, changed_runid=self.runid, checked_runid=self.runid, failed_runid=None, stamp=st, csum=None)
        elif o['outcome'] == 'failed':
            row.update(is_generated=True, failed_runid=self.runid)
        if self.db_committed is not None and not self.in_tx:
            self.db_committed = self.snap_db()


def install(eng):
    dbmodel.install_stubs(eng)
    buildworld.install(eng)
    eng.stubs.pop('JobServerHandle::start', None)
    for key in (('Job', 'Future', 'poll'), ('Lock', 'Drop', 'drop')):
        nm = eng.impl_index.get(key)
        if nm:
            eng.stubs.pop(nm, None)
    jobmodel.install_stubs(eng)
    dbmodel.install_rdfs_stubs(eng)
    eng.summaries['drop Rc<LockManager>'] = lambda e, v: None
    eng.stubs['state::warn_override'] = lambda e, ci, a, sp: (e.world.ev('warn-override'), UNIT)[1]
    eng.stubs['warn_override'] = eng.stubs['state::warn_override']
    eng.summaries.setdefault('AsRawFd::as_raw_fd', lambda e, ci, a, sp: 9)


def install_commands(eng):
    """the small redo commands a script runs (redo-stamp) and redo-unlocked: their real run() bodies, with Env::inherit /
    ProcessState::init answering from the world (the environment a child inherits)"""
    def env_ok(e, ci, a, sp):
        w = e.world
        kw = dict(log=0)
        if getattr(w, 'cmd_target', None):
            kw['target'] = rp(w.cmd_target)
        return ok(dbmodel.make_env(e, w.runid, **kw))
    for n in ('Env::inherit', 'redo::Env::inherit', 'env::<impl at src/env.rs:85:1: 85:9>::inherit'):
        eng.stubs[n] = env_ok

    def ps_init(e, ci, a, sp):
        return ok(dbmodel.make_process_state(e, a[0]))
    for n in ('ProcessState::init', 'redo::ProcessState::init', 'state::<impl at src/state.rs:85:1: 85:18>::init'):
        eng.stubs[n] = ps_init
    for n in ('LogBuilder::setup', 'logs::<impl at src/logs.rs:283:1: 283:16>::setup', 'redo::logs::LogBuilder::setup'):
        eng.stubs[n] = lambda e, ci, a, sp: UNIT
    s = eng.summaries
    s['<LogBuilder as From>::from'] = lambda e, ci, a, sp: Opaque('LogBuilder')
    # SHA-1 itself is outside: the digest of a script's data is an input
    s['unistd::isatty'] = lambda e, ci, a, sp: ok(False)
    s['Digest::new'] = lambda e, ci, a, sp: Opaque('Sha1')
    s['Sha1::new'] = s['Digest::new']
    s['io::stdin'] = lambda e, ci, a, sp: Opaque('Stdin')
    s['stdin'] = s['io::stdin']
    s['Digest::finalize'] = lambda e, ci, a, sp: Opaque('Digest', None)
    s['Argument::new_lower_hex'] = lambda e, ci, a, sp: Struct('FmtArg', ['display', Bytes(list(e.world.digest), 'str')])
    base_copy = s.get('io::copy')

    def io_copy(e, ci, a, sp):
        src = deref_all(a[0])
        if isinstance(src, Opaque) and src.ty in ('Stdin', 'StdinLock'):
            return ok(0)
        return base_copy(e, ci, a, sp)
    s['io::copy'] = io_copy


def rp(name):
    return Struct('RedoPathBuf', [Vec(list(name), 'String')])


def setup(eng, targets, keep_going=False, top_level=2, pipe0=1, others0=0, runid=10, should_build=None, max_wakeups=10,
          prior=None, other_locks=None, sub_target=None, shuffle=False, no_do=(), race=(), deps=(), free_at_try=None, cycles=(), default_do=False, scripts=None):
    """-> (world, server cell, root future = the real builder::run coroutine)"""
    w = SchedWorld(eng, runid, pipe0, others0, adv_budget=(1 if top_level == 0 else 0), allow_steal=(top_level == 0),
                   max_wakeups=max_wakeups)
    eng.world = w
    w.cheater_children = False
    w.do_firstline = b'echo hi\n'
    rid = 2
    for t in dict.fromkeys(targets):
        if not t:
            continue
        import os.path
        tn = os.path.normpath(t.decode('latin-1')).encode('latin-1')
        if tn not in no_do:
            w.fs[tuple(tn + b'.do')] = tuple(S1)
        w.fs.setdefault(tuple(tn), None)
    ids = {}
    if default_do:
        w.fs[tuple(b'default.do')] = tuple(S1)
    w.scripts = scripts
    for tn, ops in (scripts or {}).items():
        for op in ops:
            for n in (op[1] if op[0] == 'ifchange' else ()):
                if n + b'.do' not in [bytes(k) for k in w.fs] and not (prior and n in prior):
                    w.fs[tuple(n + b'.do')] = tuple(S1)      # a nested target has its own rule
                    w.fs.setdefault(tuple(n), None)
    for name, (cells, fs_t) in (prior or {}).items():
        w.add_file(rid, name, **cells)
        ids[name] = rid
        w.fs[tuple(name)] = fs_t
        if fs_t is not None:
            w.content[tuple(name)] = 'previous'
        rid += 1
    for tname, sname, mode in deps:
        w.deps[(ids[tname], ids[sname])] = {'mode': tuple(mode), 'delete_me': 0}
    w.next_rowid = max(100, rid)
    for name, outcome in (other_locks or {}).items():
        # another redo holds the lock of this target: its row exists already
        ids = [k for k, r in w.files.items() if tuple(r['name']) == tuple(name)]
        if ids:
            fid = ids[0]
        else:
            fid = w.next_rowid
            w.next_rowid += 1
            w.add_file(fid, name)
        w.other_locks[fid] = {'outcome': outcome, 'name': name, 'race': name in race, 'free_at_try': (free_at_try or {}).get(name)}
    if cycles:
        # locks held by the ancestors of this process (REDO_CYCLES): the named targets are being built above us
        cyc = []
        for name in cycles:
            fid = [k for k, r in w.files.items() if tuple(r['name']) == tuple(name)]
            if not fid:
                fid = [w.next_rowid]
                w.next_rowid += 1
                w.add_file(fid[0], name)
            cyc.append(fid[0])
            w.other_locks[fid[0]] = {'outcome': 'never', 'name': name, 'race': False, 'free_at_try': None}
        w.envmap['REDO_CYCLES'] = [ord(c) for c in ':'.join(str(x) for x in cyc)]
    w.db_committed = w.snap_db()
    return (w,) + new_run(eng, w, targets, runid, keep_going=keep_going, shuffle=shuffle, sub_target=sub_target, top_level=top_level,
                          should_build=should_build, pipe0=pipe0, others0=others0)


def new_run(eng, w, targets, runid, keep_going=False, shuffle=False, sub_target=None, top_level=0, should_build=None, pipe0=None,
            others0=None):
    """a (further) invocation of the command on the world as it is: fresh Env / ProcessState / JobServer, same database, filesystem
    and pipes -> (server cell, root future)"""
    w.runid = runid
    envover = dict(keep_going=keep_going, shuffle=shuffle, log=0)
    if sub_target is not None:
        envover['target'] = rp(sub_target)
    env = dbmodel.make_env(eng, runid, **envover)
    ps = dbmodel.make_process_state(eng, env)
    psr = new_cell(ps)
    server, state, params = jobmodel.make_server(eng, 1, 0, top_level)
    w.server_state = state
    sref = new_cell(server)
    handle = eng.call('JobServer::handle', [sref], None, None)
    href = new_cell(handle)
    tvec = Vec([rp(t) for t in targets], 'Vec<RedoPathBuf>')
    if should_build is None:
        def sb(e, args):
            return ok(Struct('()', [True, Enum('Dirtiness', 'Dirty')]))
        should_build = PyCallable(sb, 'should_build')
    root = eng.call('builder::run', [psr, href, tvec, should_build], None, None)
    if pipe0 is not None:
        w.q0 = pipe0 + others0 + 1
    return sref, root
