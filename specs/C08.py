#!/usr/bin/env python3-vt
"""C08 - job tokens are conserved and -j is respected (see specs/jobcheck.py, DESIGN.md §5 C08)"""
import os, sys
sys.path.insert(0, os.path.dirname(os.path.dirname(os.path.abspath(__file__))))
from specs import jobcheck
jobcheck.main("C08")
