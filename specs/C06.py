#!/usr/bin/env python3-vt
"""C06 - at most one .do runs for a given target at any time: lock discipline of one redo process (see specs/schedfamily.py, DESIGN.md §5 C06)"""
import os, sys
sys.path.insert(0, os.path.dirname(os.path.dirname(os.path.abspath(__file__))))
from specs import schedfamily
schedfamily.main("C06")
