"""Obligations on the dirtiness kernel (deps::is_dirty / private_is_dirty with the real File methods and SQL) shared by
C01 C02 C03 C05 C12 C14 C17.  Every Files row is an unconstrained symbolic input, the dependency edges of each target are
chosen (lazily) among all shapes over N files, and the verdict of the real code is compared, per path class, with a
reference evaluation written from the documented semantics (apenwarr's isdirty) plus the property-level lemmas."""
import os
import z3
from mirsym.values import *
from mirsym.engine import PyCallable
from mirsym.summaries.core import some, none, ok, err, deref_all
from specs import dbmodel
from specs.dbmodel import DBWorld, S1, S2, S3, S_MISSING, S_DIR, ALWAYS

CLEAN, DIRTY = 'Clean', 'Dirty'


class CyclicRef(Exception):
    pass


def names(n):
    return {i + 2: ('f%d' % (i + 1)).encode() for i in range(n)}


def build_world(eng, nfiles, max_edges, with_always=True, runid=None, fixed=None, edge_modes=(None, b'm', b'c'), row_kw=None,
                always_stamps=(S_MISSING,)):
    R = runid if runid is not None else z3.Int('R')
    w = DBWorld(eng, R)
    eng.world = w
    if runid is None:
        eng.assume(z3.And(R > 0, R <= (1 << 62)))
    ids = sorted(names(nfiles))
    # the ALWAYS pseudo file (row 1)
    if with_always:
        # the ALWAYS row as redo-always leaves it (stamp "missing"); C01 and C14 also explore the NULL stamp of a fresh database
        w.sym_file(1, ALWAYS, tag='always', fs_choices=(None,), stamp_choices=tuple(always_stamps), csum_choices=(None,),
                   fixed={'is_generated': None, 'is_override': None, 'checked_runid': None, 'failed_runid': None})
    for i in ids:
        w.sym_file(i, names(nfiles)[i], fixed=(fixed or {}).get(i), **(row_kw or {}))
    w.nedges = 0

    def edges_for(t):
        def th():
            srcs = [s for s in ([1] if with_always else []) + ids if s != t]
            for s in srcs:
                modes = edge_modes if s != 1 else (None, b'm')
                k = eng.choose(len(modes), 'edge %d->%d' % (t, s))
                if modes[k] is None:
                    continue
                w.nedges += 1
                if w.nedges > max_edges:
                    raise PathDead()
                # delete_me is set on every edge while the target's script runs (zap_deps1) and stays set after a kill; the
                # walk must count such edges like any other.  Symbolic 0/1: it only forks if the code looks at it.
                dm = z3.Int('dm_%d_%d' % (t, s))
                eng.assume(z3.Or(dm == 0, dm == 1))
                w.deps[(t, s)] = {'mode': tuple(modes[k]), 'delete_me': dm}
        return th
    for t in ids:
        w.deps_lazy[t] = edges_for(t)
    return w, R, ids


# ------------------------------------------------------------------------------------------------ reference semantics
class RefEval:
    """reference dirtiness evaluation over a snapshot of the tables taken before the real code ran"""

    def __init__(self, eng, w, files, deps, fs, R, is_checked=None):
        self.eng, self.w, self.files, self.deps, self.fs, self.R = eng, w, files, deps, fs, R
        self.extra_checked = set()
        self.is_checked_fn = is_checked

    def cell(self, rid, col):
        v = self.files[rid][col]
        if type(v) is LazyVal:
            v = v.force()
        return v

    def b(self, cond):
        return self.eng.branch(cond) if not isinstance(cond, bool) else cond

    def truthy(self, v):
        if v is None:
            return False
        if isinstance(v, bool):
            return v
        if z3.is_bool(v):
            return self.b(v)
        raise Unsupported('truthy %r' % (v,))

    def changed(self, rid):
        c = self.cell(rid, 'changed_runid')
        if tuple(self.files[rid]['name']) == tuple(ALWAYS):
            # the ALWAYS pseudo file counts as changed in every run
            if c is None:
                return self.R
            return z3.If(c > self.R, c, self.R)
        return c

    def checked_this_run(self, rid):
        if self.is_checked_fn is not None:
            return self.is_checked_fn(self, rid)
        c = self.cell(rid, 'checked_runid')
        if c is None:
            return False
        return self.b(z3.And(c != 0, c >= self.R)) if not isinstance(c, int) else (c != 0 and self.b(c >= self.R))

    def fs_stamp(self, rid):
        v = self.fs.get(tuple(self.files[rid]['name']))
        if type(v) is LazyVal:
            v = v.force()
        return v

    def verdict(self, rid, threshold, seen=()):
        """-> 'Clean' | 'Dirty' | [ids]"""
        if rid in seen:
            raise CyclicRef()
        seen = seen + (rid,)
        fr = self.cell(rid, 'failed_runid')
        if fr is not None and self.b(fr != 0):          # 0 is the "converted target -> source" marker, not a run id
            return DIRTY
        ch = self.changed(rid)
        if ch is None:
            return DIRTY
        if self.b(ch > threshold):
            return DIRTY
        if self.checked_this_run(rid):
            return CLEAN
        st = self.cell(rid, 'stamp')
        if st is None:
            return DIRTY
        fs = self.fs_stamp(rid)
        cur = tuple(S_MISSING) if fs is None else tuple(fs)
        csum = self.cell(rid, 'csum')
        checksummed = csum is not None and len(csum) > 0
        if tuple(st) != cur:
            return [rid] if checksummed else DIRTY
        must = []
        gen = self.truthy(self.cell(rid, 'is_generated'))
        ovr = self.truthy(self.cell(rid, 'is_override'))
        edges = []
        if gen and not ovr:
            if rid in self.w.deps_lazy:
                self.w.deps_lazy.pop(rid)()
            edges = [(s, d) for (t, s), d in sorted(self.w.deps.items()) if t == rid]
        for s, d in edges:
            sub = CLEAN
            if tuple(d['mode']) == (99,):           # 'c'
                if self.fs_stamp(s) is not None:
                    sub = DIRTY
            else:
                chk = self.cell(rid, 'checked_runid')
                chk = 0 if chk is None else chk
                chz = ch if not isinstance(ch, int) else z3.IntVal(ch)
                ckz = chk if not isinstance(chk, int) else z3.IntVal(chk)
                th = z3.If(chz > ckz, chz, ckz)
                sub = self.verdict(s, th, seen)
            if sub == DIRTY:
                return [rid] if checksummed else DIRTY
            if isinstance(sub, list):
                must += sub
        if must:
            return must
        self.extra_checked.add(rid)
        return CLEAN


def snapshot(w):
    return ({k: dict(v) for k, v in w.files.items()}, {k: dict(v) for k, v in w.deps.items()}, dict(w.fs))


def real_verdict(eng, r):
    """Result<Dirtiness,RedoError> -> 'Clean'|'Dirty'|[ids]|('Err', kind)"""
    if r.var == 'Err':
        e = r.f[0]
        kind = e.f[eng.src.structs['RedoError'].index('kind')]
        return ('Err', kind.var if isinstance(kind, Enum) else repr(kind))
    d = r.f[0]
    if d.var == 'Clean':
        return CLEAN
    if d.var == 'Dirty':
        return DIRTY
    ids = []
    for f in d.f[0].items:
        ids.append(dbmodel.file_struct_fields(eng, f)['id'])
    return ids


def call_is_dirty(eng, w, R, target, callbacks=None):
    env = dbmodel.make_env(eng, R)
    ps = dbmodel.make_process_state(eng, env)
    psr = new_cell(ps)
    ptx = dbmodel.begin(eng, psr)
    ptxr = new_cell(ptx)
    f = dbmodel.load_file(eng, ptxr, target)
    fr = new_cell(f)
    cb = callbacks(eng) if callbacks else eng.call('<DirtyCallbacks<\'_> as Default>::default', [], None, None)
    cbr = new_cell(cb)
    r = eng.call('is_dirty', [ptxr, fr, cbr], None, None)
    return r, fr, ptxr, psr


def model_of(eng, w, R, ids, extra=None, snap=None):
    """concrete witness (rows, fs, edges) of the current path.  With snap=(files, deps, fs) the tables AS THEY WERE BEFORE the
    code ran are printed (the walk itself writes: checked marks, target -> source conversion)."""
    m = eng.model(extra)
    if m is None:
        return None
    files, deps, fs = (snap if snap is not None else (w.files, w.deps, w.fs))

    def val(v):
        if type(v) is LazyVal:
            if not v.forced:
                return '*'
            v = v.val
        if v is None:
            return None
        if isinstance(v, tuple):
            return bytes(v).decode('latin-1')
        if isinstance(v, (int, bool)):
            return v
        if is_sym(v):
            x = m.eval(v, model_completion=True)
            if z3.is_bool(x):
                return z3.is_true(x)
            return x.as_long() if z3.is_int_value(x) else x.as_signed_long()
        return repr(v)
    out = {'runid': val(R), 'files': {}, 'fs': {}, 'deps': []}
    for rid, row in files.items():
        out['files'][rid] = {k: val(v) for k, v in row.items()}
    for n, v in fs.items():
        out['fs'][bytes(n).decode('latin-1')] = val(v)
    for (t, s), d in deps.items():
        out['deps'].append([t, s, bytes(d['mode']).decode(), d['delete_me'] if isinstance(d['delete_me'], int) else val(d['delete_me'])])
    return out


ASSUMPTIONS = [
    'one step from an arbitrary state: histories are not explored; every Files row is an unconstrained input (no representation '
    'invariant is assumed)',
    'run ids are mathematical integers within +-2^62 (the code only compares them and takes max)',
    'stamps are represented by 3 recorded x 4 on-disk classes (NULL/missing/recorded vs absent/equal/mtime differs/only mode differs); '
    'Stamp::from_metadata formatting is replaced by the model (stub)',
    'the filesystem and the tables do not change during one call (sources are not edited while a run is in progress)',
    'SQL statements succeed; SQLite transactions are atomic',
    'logging (logs::meta, debug_level) is inert',
]


def fmt_verdict(v):
    if isinstance(v, list):
        return 'Need:' + ','.join(str(x) for x in v)
    if isinstance(v, tuple):
        return 'Err:' + str(v[1])
    return v


def to_dbline(model, target, op='is_dirty'):
    def iv(v):
        return 'N' if v in (None, '*') else str(v)

    def bv(v):
        if v in (None, '*'):
            return 'N'
        return '1' if v else '0'
    parts = ['R=%s' % model['runid'], 'T=%d' % target, 'OP=' + op]
    fsmap = {None: 'none', '*': 'none', S1.decode(): 'same', S2.decode(): 'mtime', S3.decode(): 'mode', S_DIR.decode(): 'dir'}
    for rid, r in sorted(model['files'].items(), key=lambda kv: int(kv[0])):
        st = r['stamp']
        sk = 'N' if st in (None, '*') else ('M' if st == S_MISSING.decode() else 'S')
        cs = r['csum']
        parts.append('F=%s,%s,%s,%s,%s,%s,%s,%s,%s' % (rid, r['name'].encode('latin-1').hex(), bv(r['is_generated']), bv(r['is_override']),
                                                      iv(r['checked_runid']), iv(r['changed_runid']), iv(r['failed_runid']), sk,
                                                      'N' if cs in (None, '*', '') else cs.encode('latin-1').hex()))
    for t, s, m, dm in model['deps']:
        parts.append('D=%d,%d,%s,%s' % (t, s, m, dm if isinstance(dm, int) else 0))
    for n, v in model['fs'].items():
        if n.startswith('//'):
            continue
        parts.append('X=%s,%s' % (n.encode('latin-1').hex(), fsmap.get(v, 'same')))
    return ' '.join(parts)


def kernel_agreement(chk, nfiles, max_edges, goals=False, name=None, focus=None, world_kw=None):
    """real is_dirty == reference, for every symbolic state.  `focus(rv, ov, w, ref)` may add property-specific judgements."""
    eng = chk.eng
    st = {}

    def run():
        w, R, ids = build_world(eng, nfiles, max_edges, **(world_kw or {}))
        st.update(w=w, R=R, ids=ids)
        snap = snapshot(w)
        st['snap'] = snap
        r, fr, ptxr, psr = call_is_dirty(eng, w, R, ids[0])
        rv = real_verdict(eng, r)
        ref = RefEval(eng, w, snap[0], snap[1], snap[2], R)
        try:
            ov = ref.verdict(ids[0], R)
        except CyclicRef:
            ov = ('Err', 'CyclicDependency')
        st['ref'] = ref
        return rv, ov

    def judge(outcome, val, path):
        w, R, ids = st['w'], st['R'], st['ids']
        if outcome == 'panic':
            m = model_of(eng, w, R, ids)
            return {'role': 'is_dirty-panics:' + str(val.site()[1]), 'kind': 'dbstate', 'real': 'PANIC', 'ref': '?',
                    'what': 'is_dirty panics: %s' % val.msg, 'witness': {'line': to_dbline(m, ids[0]), 'model': m}}
        rv, ov = val
        if goals:
            chk.goal('kernel: some state is Clean', rv == CLEAN)
            chk.goal('kernel: some state is Dirty', rv == DIRTY)
            chk.goal('kernel: some state needs a checksummed target first', isinstance(rv, list))
            chk.goal('kernel: some state is a cycle', isinstance(rv, tuple) and rv[1] == 'CyclicDependency')
            chk.goal('kernel: a created-mode edge is examined', any(k == 'exists' for k, d in w.log))
            chk.goal('kernel: recursion reaches depth 2', sum(1 for k, d in w.log if k == 'sql-select-deps') >= 2)
        if rv != ov:
            # edges are chosen lazily while the code runs; rows and filesystem are taken as they were before the walk
            m = model_of(eng, w, R, ids, snap=(st['snap'][0], w.deps, st['snap'][2]))
            return {'role': 'verdict-differs:%s-instead-of-%s' % (kind_of(rv), kind_of(ov)), 'kind': 'dbstate',
                    'real': fmt_verdict(rv), 'ref': fmt_verdict(ov),
                    'what': 'is_dirty answers %s where the documented semantics give %s' % (fmt_verdict(rv), fmt_verdict(ov)),
                    'witness': {'line': to_dbline(m, ids[0]), 'model': m}}
        if focus:
            return focus(rv, ov, w, st['ref'], st)
        return None

    def sample(outcome, val, path):
        if outcome != 'ok':
            return None
        w, R, ids = st['w'], st['R'], st['ids']
        m = model_of(eng, w, R, ids)
        return {'verdict': fmt_verdict(val[0]), 'state': to_dbline(m, ids[0]), 'decisions': path.decisions[:30]}

    chk.explore(name or 'is_dirty == reference (N=%d files, <=%d edges)' % (nfiles, max_edges), run, judge, sample, max_samples=2)


def kind_of(v):
    if isinstance(v, list):
        return 'NeedTargets'
    if isinstance(v, tuple):
        return 'Err(%s)' % v[1]
    return v


def eval_expect(e, out):
    import re
    if e['type'] == 'contains':
        return e['text'] in out
    if e['type'] == 'always':
        return True
    if e['type'] == 'twophase':
        mo = re.search(r'DEPS=(\S*)', out)
        got = sorted(x for x in (mo.group(1).split(';') if mo and mo.group(1) else []) if x.startswith('%d>' % e['T']))
        if e['finish']:
            return got != sorted(e['want'])
        return any(not any(g.startswith(k + ':') for g in got) for k in e['old_keys'])
    return False


def make_replay(chk, rep, scn=None):
    def replay(c):
        if c.get('kind') == 'sched':
            from specs import schedcheck
            return schedcheck.replay_cand(chk, scn, c)
        if c.get('kind') == 'dbstate':
            line = c['witness']['line']
            payload, raw, rc = rep.run('state', 'dbstate_batch', [line])
            if len(payload) != 1:
                return False, 'native run failed rc=%s %s' % (rc, raw[-300:])
            import re
            m = re.search(r'VERDICT=(\S+)', payload[0])
            native = m.group(1) if m else '?'
            c['native'] = payload[0]
            if 'expect' in c:
                return eval_expect(c['expect'], payload[0]), payload[0]
            return (native == c['real'] and native != c['ref']), 'native verdict %s (engine %s, reference %s)' % (native, c['real'], c['ref'])
        if c.get('kind') == 'scenario' and scn is not None:
            rcx, out = scn.run(c['files'], c['script'])
            c['scenario_output'] = out[-2000:]
            from specs import orchestration
            return orchestration.PREDICATES[c['violated']](out), out[-600:].replace('\n', ' | ')
        if c.get('kind') == 'cycles':
            payload, raw, rc = rep.run('cycles', 'cycles_batch', [c['witness']['line']])
            if len(payload) != 1:
                return False, 'native run failed rc=%s %s' % (rc, raw[-300:])
            got = payload[0].split(' ')[-1]
            return got != c['expect_native'], 'compiled cycles::add/check on `%s`: %s (a held id must be CYCLIC, a free one FREE)' % (c['witness']['line'], got)
        if c.get('kind') == 'subredo' and scn is not None:
            import shutil
            import re
            payload, raw, rc = rep.run('state', 'dbstate_batch', [c['witness']['line']])
            mdir = [re.search(r'DIR=(\S+)', x) for x in payload]
            mdir = [x.group(1) for x in mdir if x]
            if not mdir:
                return False, 'could not materialise the state: ' + raw[-300:]
            proj = mdir[0]
            try:
                t = c['target_name']
                with open(os.path.join(proj, t + '.do'), 'w') as fh:
                    fh.write('echo ran >> %s.ran\nexit 1\n' % t)
                rcx, out = scn.run_sub_redo(proj, c['runid'], ['redo-ifchange', t])
                ran = os.path.exists(os.path.join(proj, t + '.ran'))
                c['scenario_output'] = out[-1500:]
                return (rcx != c['expect_rc'] or ran), 'real redo-ifchange %s as a sub-redo of run %s on the materialised state: exit %d%s (expected: refused with %d, script not run)' % (
                    t, c['runid'], rcx, ', the script ran' if ran else '', c['expect_rc'])
            finally:
                if proj.startswith('/var/tmp/'):
                    shutil.rmtree(proj, ignore_errors=True)
        if c.get('kind') in ('record', 'crash', 'buildjob', 'jobstatus', 'argv', 'tmpname'):
            from specs import buildjob
            return buildjob.make_replay(chk, rep, scn)(c)
        return False, 'no replay for kind %r' % c.get('kind')
    return replay


# ------------------------------------------------------------------------------------------------ translator validation
def validate_kernel(chk, rep, n=24, nfiles=3):
    """Seeded random CONCRETE states of Files/Deps/filesystem go through (a) the symbolic executor (one path each) and (b) the
    compiled is_dirty on a materialised sqlite database; the verdicts and the rows afterwards must agree.  This validates the
    summaries, the SQL interpretation and the filesystem model the kernel obligations rest on."""
    import random
    eng = chk.eng
    rnd = random.Random(chk.seed * 7919 + 11)
    cases = []
    for _ in range(n):
        R = rnd.randint(2, 9)
        nm = names(nfiles)
        ids = sorted(nm)
        files = {1: {'rowid': 1, 'name': ALWAYS.decode(), 'is_generated': None, 'is_override': None, 'checked_runid': None,
                     'changed_runid': rnd.choice([None, R - 1, R]), 'failed_runid': None, 'stamp': rnd.choice([None, S_MISSING.decode()]),
                     'csum': None}}
        fs = {}
        for i in ids:
            files[i] = {'rowid': i, 'name': nm[i].decode(), 'is_generated': rnd.choice([None, False, True, True]),
                        'is_override': rnd.choice([None, False, False, True]),
                        'checked_runid': rnd.choice([None, None, 0, R - 1, R, R + 1]),
                        'changed_runid': rnd.choice([None, 1, R - 1, R - 1, R]),
                        'failed_runid': rnd.choice([None, None, None, 0, R - 1, R]),
                        'stamp': rnd.choice([None, S_MISSING.decode(), S1.decode(), S1.decode()]),
                        'csum': rnd.choice([None, None, 'abc'])}
            fs[nm[i].decode()] = rnd.choice([None, S1.decode(), S1.decode(), S2.decode(), S3.decode()])
        deps = []
        for t in ids:
            for s_ in [1] + ids:
                if s_ != t and rnd.random() < 0.35:
                    deps.append([t, s_, 'm' if s_ == 1 else rnd.choice(['m', 'm', 'c']), rnd.choice([0, 0, 1])])
        cases.append({'runid': R, 'files': files, 'fs': fs, 'deps': deps, 'target': ids[0]})
    lines = [to_dbline(c, c['target']) for c in cases]
    payload, raw, rc = rep.run('state', 'dbstate_batch', lines)
    if len(payload) != len(cases):
        chk.inconclusive.append('translator validation (kernel): native batch failed rc=%s %s' % (rc, raw[-300:]))
        return
    import re
    for c, line, nat in zip(cases, lines, payload):
        out = []

        def run(c=c):
            w = DBWorld(eng, c['runid'])
            eng.world = w
            for rid, r in c['files'].items():
                w.add_file(rid, r['name'].encode(), **{k: (tuple(v.encode()) if isinstance(v, str) else v) for k, v in r.items()
                                                       if k not in ('rowid', 'name')})
            for nme, v in c['fs'].items():
                w.fs[tuple(nme.encode())] = None if v is None else tuple(v.encode())
            w.fs[tuple(ALWAYS)] = None
            for t, s_, m, dm in c['deps']:
                w.deps[(t, s_)] = {'mode': tuple(m.encode()), 'delete_me': dm}
            r, fr, ptxr, psr = call_is_dirty(eng, w, c['runid'], c['target'])
            v = real_verdict(eng, r)
            eng.call('ProcessTransaction::commit', [ptxr.get()], None, None)
            return v, w

        def end(outcome, val, path):
            out.append((outcome, val))
        eng.explore(run, end)
        if len(out) != 1 or out[0][0] != 'ok':
            chk.inconclusive.append('translator validation (kernel): interpreter did not give one verdict on %s: %r' % (line, [o[0] for o in out]))
            continue
        v, w = out[0][1]
        m = re.search(r'VERDICT=(\S+)', nat)
        nv = m.group(1) if m else '?'
        mine = fmt_verdict(v).replace(' ', '')
        if isinstance(v, tuple):
            mine = 'Err:' + str(v[1])
        if nv != mine:
            chk.inconclusive.append('translator validation (kernel): %s: interpreter says %s, compiled code says %s' % (line, mine, nv))
            continue
        # rows afterwards: checked_runid of every file (the only column the walk writes)
        rows = dict(x.split(':', 1) for x in (re.search(r'ROWS=(\S*)', nat).group(1).split(';')) if ':' in x)
        okk = True
        for rid, r in w.files.items():
            ck = r['checked_runid']
            want = rows.get(str(rid), '').split(',')
            if len(want) >= 3 and want[2] != ('N' if ck is None else str(int(ck) if not is_sym(ck) else ck)):
                okk = False
        if not okk:
            chk.inconclusive.append('translator validation (kernel): %s: rows after the walk differ (%s)' % (line, nat[-200:]))
            continue
        chk.validated += 1
