#!/usr/bin/env python3-vt
"""C01 — no stale target after a successful redo-ifchange (see DESIGN.md §5 C01).

1. dirtiness kernel: for EVERY state of the Files/Deps tables and the filesystem over N files (all columns symbolic, all edge
   shapes), the verdict of the real deps::is_dirty (real File methods, real SQL text) equals the reference semantics; a stale
   file (failed / never built / newer dependency / stamp mismatch / dirty dependency) is therefore never called Clean.
2. out-of-band path: redo-unlocked re-evaluates the primary target, with the caller's lock and without further OOB.
"""
import os
import sys

sys.path.insert(0, os.path.dirname(os.path.dirname(os.path.abspath(__file__))))
from lib.harness import Check, log
from lib.replay import Replayer
from lib.scenario import Scenario
from specs import dbmodel, depscheck, orchestration

chk = Check('C01', 'symbolic execution of rustc MIR (mirsym) + z3 over symbolic Files/Deps tables (SQL text interpreted) and a '
                   'filesystem model; verdicts compared with reference semantics per path class; native replay on a materialised '
                   'sqlite database / with the real binaries', need_bin=True)
eng = chk.eng
dbmodel.install_stubs(eng)
rep = Replayer(log)
scn = Scenario(log)
try:
    # end to end, first (the exploration installs its own hand-over to the jobserver): nested builds through the real scheduler,
    # repeated after source edits - see DESIGN.md §5.0 "Histories"
    from specs import schedcheck
    if not os.environ.get('VERIF_OBL') or 'sched' in os.environ.get('VERIF_OBL'):
        schedcheck.explore(chk, 'C01', scn)
        schedcheck.uninstall(eng)
    N, E = (3, 3) if chk.thorough() else (2, 2)
    chk.bounds.update({'files': N, 'max_edges': E, 'row columns': 'all symbolic (run ids: integers; flags: booleans; stamp in {NULL, missing, '
                  'recorded}; filesystem in {absent, as recorded, mtime differs, only mode differs}; csum empty or not)',
                  'ALWAYS pseudo-file': 'present, may be a dependency'})
    chk.assumptions += depscheck.ASSUMPTIONS
    from specs.dbmodel import S_MISSING
    only = os.environ.get('VERIF_OBL')          # development aid: run a subset of the obligations
    if not only or 'kernel' in only:
        depscheck.kernel_agreement(chk, N, E, goals=True, world_kw={'always_stamps': (None, S_MISSING)})
        depscheck.validate_kernel(chk, rep, n=(60 if chk.thorough() else 24))
    if not only or 'unlocked' in only:
        orchestration.unlocked_reevaluates(chk)
    if not only or 'record' in only:
        from specs import buildjob, buildworld
        buildworld.install(eng)
        chk.assumptions += buildjob.ASSUMPTIONS
        buildjob.record_new_state_facts(chk, 'C01')
        buildjob.job_completion_blocks(chk, 'C01')
    chk.finish(depscheck.make_replay(chk, rep, scn))
finally:
    rep.cleanup()
    scn.cleanup()
