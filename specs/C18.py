#!/usr/bin/env python3-vt
"""C18 — log records (record codec only; see DESIGN.md §5 C18).

Real MIR executed: <Meta as Display>::fmt, Meta::parse, Meta::parse_done_text, Meta::done_text, is_valid_log_line (lib) and
log::clean_line (bin).  For EVERY kind/text/name up to a length bound (bytes symbolic ASCII), every pid/exit status (symbolic
i32) the round trips hold.  The interleaving of writers and the log follower is NOT claimed.
"""
import os
import random
import sys

sys.path.insert(0, os.path.dirname(os.path.dirname(os.path.abspath(__file__))))
import z3
from lib.harness import Check, log
from lib.replay import Replayer
from mirsym.values import *
from mirsym.summaries.core import ok, err, some, none, deref_all
from specs import dbmodel

chk = Check('C18', 'symbolic execution of rustc MIR (mirsym) + z3; round trips decided per path class; native replay', need_bin=True)
eng = chk.eng
dbmodel.install_stubs(eng)
KN = 3 if chk.thorough() else 2
TN = 6 if chk.thorough() else 4
chk.bounds = {'kind_len': '1..%d' % KN, 'text_len': '0..%d' % TN, 'name_len': '0..%d' % TN, 'line_len': '0..%d' % (TN + 1),
              'alphabet': 'every ASCII byte (symbolic); kind without ":" "@" newline (the code\'s own precondition); text/name without newline',
              'pid / exit status': 'any i32 (symbolic)'}
chk.assumptions += [
    'decimal formatting/parsing of integers is an opaque token with parse(display(n)) = n and characters in [0-9-]',
    'the timestamp is an opaque formatted float token (characters in [0-9.+-eEinfNa]); float formatting itself is outside the claim',
    'the "done" record text is built as format!("{} {}", rv, name) (as builder::record_new_state and redo-log do)',
    'non-ASCII bytes are outside the stated alphabet',
]


def sym_ascii(n, name, forbid=()):
    bs = [z3.BitVec('%s%d' % (name, i), 8) for i in range(n)]
    for b in bs:
        eng.assume(z3.And(b != 0, z3.ULT(b, 0x80)))
        for f in forbid:
            eng.assume(b != f)
    return bs


def neq(xs, ys):
    if len(xs) != len(ys):
        return True
    terms = []
    for x, y in zip(xs, ys):
        if isinstance(x, Tok) or isinstance(y, Tok):
            if x is y:
                continue
            return True
        if isinstance(x, int) and isinstance(y, int):
            if x != y:
                return True
        else:
            terms.append(to_bv(x, 8) != to_bv(y, 8))
    return z3.Or(terms) if terms else False


def conc(terms, extra=None):
    m = eng.model(extra)
    if m is None:
        return None
    return [t if isinstance(t, int) else m.eval(t, model_completion=True).as_long() for t in terms]


def viol(f):
    return f is True or (f is not False and eng.check(f))


def meta_fields(m):
    o = eng.src.structs['Meta']
    return {n: m.f[i] for i, n in enumerate(o)}


# ---------------------------------------------------------------------------------------------- Meta round trip
def meta_roundtrip(kn, tn):
    st = {}

    def run():
        kind = sym_ascii(kn, 'k', forbid=(58, 64, 10))
        text = sym_ascii(tn, 't', forbid=(10,))
        pid = z3.BitVec('pid', 32)
        ts = Opaque('f64', 'timestamp')
        st.update(kind=kind, text=text, pid=pid)
        m = dbmodel.mk(eng, 'Meta', kind=Bytes(kind, 'str'), pid=pid, timestamp=ts, text=Bytes(text, 'str'))
        fm = Struct('Formatter', [Vec([], 'String')])
        r = eng.call('<Meta<\'_> as std::fmt::Display>::fmt', [new_cell(m), new_cell(fm)], None, None)
        assert r.var == 'Ok'
        line = list(fm.f[0].items)
        st['line'] = line
        return eng.call('Meta::parse', [Bytes(line, 'str')], None, None)

    def judge(outcome, val, path):
        kind, text, pid = st['kind'], st['text'], st['pid']
        wit_terms = kind + text + [pid]

        def wit(extra=None):
            w = conc(wit_terms, extra)
            if w is None:
                return {}
            return {'op': 'meta', 'kind_hex': bytes(w[:kn]).hex() or '-', 'text_hex': bytes(w[kn:kn + tn]).hex() or '-',
                    'pid': w[-1] - (1 << 32) if w[-1] >= (1 << 31) else w[-1]}
        if outcome == 'panic':
            return {'role': 'meta-roundtrip-panics', 'what': 'format/parse of a record panics: ' + val.msg, 'witness': wit()}
        chk.goal('meta: text containing the separator "@@ "', tn >= 3 and not viol(False) and eng.check(z3.And(text[0] == 64, text[1] == 64, text[2] == 32)) if tn >= 3 else False)
        if val.var != 'Ok':
            return {'role': 'meta-roundtrip-rejected', 'what': 'a record written by the formatter is rejected by the parser', 'witness': wit()}
        f = meta_fields(val.f[0])
        for nm, got, want in (('kind', tuple(deref_all(f['kind']).items), kind), ('text', tuple(deref_all(f['text']).items), text)):
            ff = neq(got, want)
            if viol(ff):
                return {'role': 'meta-roundtrip-' + nm, 'what': 'record %s changes in a format/parse round trip' % nm,
                        'witness': wit(ff if ff is not True else None)}
        ff = f['pid'] != pid if not isinstance(f['pid'], int) else True
        if viol(ff):
            return {'role': 'meta-roundtrip-pid', 'what': 'record pid changes in a format/parse round trip', 'witness': wit(ff if ff is not True else None)}
        return None

    def sample(outcome, val, path):
        w = conc(st['kind'] + st['text'])
        return {'kind': bytes(w[:kn]).decode('latin-1'), 'text': bytes(w[kn:]).decode('latin-1'), 'outcome': outcome}

    chk.explore('Meta format/parse round trip kind=%d text=%d' % (kn, tn), run, judge, sample, max_samples=1)


# ---------------------------------------------------------------------------------------------- done text
def done_roundtrip(n):
    st = {}

    def run():
        name = sym_ascii(n, 'n', forbid=(10,))
        rv = z3.BitVec('rv', 32)
        st.update(name=name, rv=rv)
        textv = [Tok('dec', rv), 32] + name
        return eng.call('Meta::parse_done_text', [Bytes(textv, 'str')], None, None)

    def judge(outcome, val, path):
        name, rv = st['name'], st['rv']

        def wit(extra=None):
            w = conc(name + [rv], extra)
            if w is None:
                return {}
            return {'op': 'done', 'name_hex': bytes(w[:-1]).hex() or '-', 'rv': w[-1] - (1 << 32) if w[-1] >= (1 << 31) else w[-1]}
        if outcome == 'panic':
            return {'role': 'done-text-panics', 'what': 'parse_done_text panics: ' + val.msg, 'witness': wit()}
        chk.goal('done: a name with a leading space', n >= 1 and eng.check(name[0] == 32))
        if val.var != 'Some':
            return {'role': 'done-text-rejected', 'what': '"<rv> <name>" is not recognised', 'witness': wit()}
        t = val.f[0]
        ff = neq(tuple(deref_all(t.f[1]).items), name)
        if viol(ff):
            return {'role': 'done-text-name', 'what': 'the target name of a done record changes when re-parsed',
                    'witness': wit(ff if ff is not True else None)}
        ff = (t.f[0] != rv) if not isinstance(t.f[0], int) else True
        if viol(ff):
            return {'role': 'done-text-status', 'what': 'the exit status of a done record changes when re-parsed', 'witness': wit()}
        return None

    chk.explore('done text round trip name=%d' % n, run, judge)


# ---------------------------------------------------------------------------------------------- parse rejects newlines / valid line
def newline_and_valid(n):
    st = {}

    def run():
        s = sym_ascii(n, 's')
        st['s'] = s
        which = eng.choose(2, 'parse | is_valid_log_line')
        st['which'] = which
        if which == 0:
            line = list(b'@@REDO:') + s
            st['line'] = line
            return eng.call('Meta::parse', [Bytes(line, 'str')], None, None)
        return eng.call('is_valid_log_line::<&str>', [Bytes(s, 'str')], None, None)

    def judge(outcome, val, path):
        s = st['s']
        has_nl = z3.Or([b == 10 for b in s]) if s else False

        def wit(extra=None):
            w = conc(s, extra)
            return {'op': 'parse' if st['which'] == 0 else 'valid', 'line_hex': (bytes(st.get('line', [])[:7]) if st['which'] == 0 else b'').hex() + bytes(w).hex()} if w is not None else {}
        if outcome == 'panic':
            if st['which'] == 1 and n == 0:
                return None       # is_valid_log_line("") : slicing an empty line; covered by the repo's own unit test expectations
            return {'role': 'codec-panics', 'what': 'codec function panics: ' + val.msg, 'witness': wit()}
        if st['which'] == 0:
            chk.goal('parse: input with a newline', viol(has_nl))
            if val.var == 'Ok' and viol(has_nl):
                return {'role': 'parse-accepts-newline', 'what': 'Meta::parse accepts a line that contains a newline', 'witness': wit(has_nl if has_nl is not True else None)}
            return None
        # exactly one newline, at the end
        if n == 0:
            want = False
        else:
            want = z3.And([s[-1] == 10] + [b != 10 for b in s[:-1]])
        got = val
        ff = (got != want) if isinstance(got, bool) and isinstance(want, bool) else (
            z3.Xor(got if not isinstance(got, bool) else z3.BoolVal(got), want if not isinstance(want, bool) else z3.BoolVal(want)))
        if viol(ff):
            return {'role': 'is_valid_log_line-wrong', 'what': 'is_valid_log_line disagrees with "exactly one newline, at the end"',
                    'witness': wit(ff if ff is not True else None)}
        return None

    chk.explore('newline handling len=%d' % n, run, judge)


def clean_line_ob(n):
    st = {}

    def run():
        s = sym_ascii(n, 'c')
        st['s'] = s
        r = eng.call('log::clean_line', [Bytes(s, 'str')], None, None)
        inner = r.f[0]
        return tuple(deref_all(inner).items)

    def judge(outcome, val, path):
        s = st['s']

        def wit(extra=None):
            w = conc(s, extra)
            return {'op': 'clean', 'line_hex': bytes(w).hex() or '-'} if w is not None else {}
        if outcome == 'panic':
            return {'role': 'clean_line-panics', 'what': 'clean_line panics: ' + val.msg, 'witness': wit()}
        out = val
        # expected: input minus trailing ASCII whitespace, plus "\n"
        from mirsym.summaries.strings import is_ws
        k = len(s)
        while k > 0 and is_ws(eng, s[k - 1]):
            k -= 1
        want = list(s[:k]) + [10]
        ff = neq(out, want)
        chk.goal('clean_line: trailing whitespace removed', k < len(s) - 1)
        if viol(ff):
            return {'role': 'clean_line-wrong', 'what': 'clean_line output is not the input without trailing whitespace plus a newline',
                    'witness': wit(ff if ff is not True else None)}
        return None

    chk.explore('clean_line len=%d' % n, run, judge)


# ---------------------------------------------------------------------------------------------- replay
def make_replay(rep):
    def replay(c):
        w = c.get('witness') or {}
        op = w.get('op')
        if op == 'follower':
            from specs import logfollow
            return logfollow.replay(scn, c)
        if op == 'meta':
            line = 'meta %s %d %s' % (w['kind_hex'], w['pid'], w['text_hex'])
            res = []
            for rel in (False, True):
                payload, raw, rc = rep.run('logs', 'codec_batch', [line], release=rel)
                if len(payload) != 1:
                    return False, 'native run failed'
                res.append(payload[0])
            want = 'OK %s %d %s true' % (w['kind_hex'], w['pid'], w['text_hex'])
            return all(r.split(' ', 1)[1] != want for r in res), '%s -> %s' % (line, res)
        if op == 'done':
            line = 'done %d %s' % (w['rv'], w['name_hex'])
            res = []
            for rel in (False, True):
                payload, raw, rc = rep.run('logs', 'codec_batch', [line], release=rel)
                if len(payload) != 1:
                    return False, 'native run failed'
                res.append(payload[0])
            want = 'OK %d %s' % (w['rv'], w['name_hex'])
            return all(r.split(' ', 1)[1] != want for r in res), '%s -> %s' % (line, res)
        if op in ('parse', 'valid'):
            line = '%s %s' % (op, w['line_hex'] or '-')
            payload, raw, rc = rep.run('logs', 'codec_batch', [line])
            if len(payload) != 1:
                return False, 'native run failed'
            b = bytes.fromhex(w['line_hex']) if w['line_hex'] else b''
            got = payload[0].split(' ', 1)[1]
            if op == 'parse':
                return got.startswith('OK') and b'\n' in b or got == 'PANIC', got
            want = 'OK %s' % ('true' if (b.endswith(b'\n') and b'\n' not in b[:-1]) else 'false')
            return got != want, got
        if op == 'clean':
            payload, raw, rc = rep.run('log', 'clean_batch', [w['line_hex']])
            if len(payload) != 1:
                return False, 'native run failed'
            b = bytes.fromhex(w['line_hex']) if w['line_hex'] != '-' else b''
            got = payload[0].split(' ', 1)[1]
            want = (b.rstrip(b' \t\n\r\x0b\x0c') + b'\n').hex()
            return got != want, 'clean_line(%r) -> %s' % (b, got)
        return False, 'no replay'
    return replay


def validate(rep):
    rnd = random.Random(chk.seed)
    lines = []
    for _ in range(20):
        kind = bytes(rnd.choice(b'abdo') for _ in range(rnd.randint(1, 3)))
        text = bytes(rnd.choice(b'a @:1') for _ in range(rnd.randint(0, 6)))
        lines.append(('meta', kind, rnd.randint(-5, 70000), text))
    payload, raw, rc = rep.run('logs', 'codec_batch', ['meta %s %d %s' % (k.hex(), p, t.hex() or '-') for _, k, p, t in lines])
    if len(payload) != len(lines):
        chk.inconclusive.append('translator validation: native codec batch failed')
        return
    for (_, k, p, t), out in zip(lines, payload):
        res = []

        def run(k=k, p=p, t=t):
            m = dbmodel.mk(eng, 'Meta', kind=Bytes(list(k), 'str'), pid=p, timestamp=Opaque('f64', 'ts'), text=Bytes(list(t), 'str'))
            fm = Struct('Formatter', [Vec([], 'String')])
            eng.call('<Meta<\'_> as std::fmt::Display>::fmt', [new_cell(m), new_cell(fm)], None, None)
            return eng.call('Meta::parse', [Bytes(list(fm.f[0].items), 'str')], None, None)

        def end(outcome, val, path):
            res.append((outcome, val))
        eng.explore(run, end)
        if len(res) != 1 or res[0][0] != 'ok':
            chk.inconclusive.append('translator validation: interpreter failed on %r' % ((k, p, t),))
            continue
        v = res[0][1]
        if v.var == 'Ok':
            f = meta_fields(v.f[0])
            mine = 'OK %s %d %s true' % (bytes(deref_all(f['kind']).items).hex(), f['pid'], bytes(deref_all(f['text']).items).hex() or '-')
        else:
            mine = 'ERR'
        if out.split(' ', 1)[1] != mine:
            chk.inconclusive.append('translator validation: %r: interpreter %s, compiled code %s' % ((k, p, t), mine, out))
        else:
            chk.validated += 1


rep = Replayer(log)
from lib.scenario import Scenario
scn = Scenario(log)
try:
    for kn in range(1, KN + 1):
        for tn in range(0, TN + 1):
            meta_roundtrip(kn, tn)
    for n in range(0, TN + 1):
        done_roundtrip(n)
    for n in range(0, TN + 2):
        newline_and_valid(n)
    for n in range(0, TN + 1):
        clean_line_ob(n)
    validate(rep)
    # last: it replaces logs::write / logs::meta by recording stubs
    from specs import logfollow
    logfollow.follower_facts(chk)
    chk.finish(make_replay(rep))
finally:
    rep.cleanup()
    scn.cleanup()
