"""Filesystem + process model for BuildJob::{start_self, record_new_state} (C04 C10 C11 C13): DBWorld plus the state-changing
filesystem calls (unlink, create, copy, rename), the anonymous stdout capture file, the $3 file, the .do file's first line,
and the hand-over to the jobserver (JobServerHandle::start is an event: the forked child is not executed here).

Every state-changing call is appended to `self.effects` together with a snapshot hook, so that a spec can re-create the world
"as of just before effect k" (crash points, C10)."""
import z3
from mirsym.values import *
from mirsym.summaries.core import some, none, ok, err, deref_all
from mirsym.summaries.env import io_error
from mirsym.summaries.sysenv import errno
from specs.dbmodel import DBWorld, BASE, S1, S2, S3, S_MISSING, S_DIR, S_LINK, S_LINK_TARGET

S_NEW = b'9.000000-77-900-33188-0-0'        # stamp of a file created by this job (fresh inode, fresh mtime)
S_NEW2 = b'9.500000-78-901-33188-0-0'
S_DLINK = b'8.000000-5-557-41471-0-0'     # a symbolic link whose target does not exist (yet): lstat sees it, stat does not
S_OLDER = b'0.500000-78-901-33188-0-0'     # a file written by the script with an mtime older than anything recorded (cp -p)


def mtime_of(stamp):
    return bytes(stamp).split(b'-')[0]


class BuildWorld(DBWorld):
    def __init__(self, eng, runid):
        DBWorld.__init__(self, eng, runid)
        self.content = {}              # name -> content tag
        self.effects = []              # (kind, data) of every state-changing call, in order
        self.faults = set()            # which environment failures may be injected: 'rename', 'create', 'unlink-tmp'
        self.do_firstline = b''
        self.jobs = []
        self.new_stamps = [S_NEW, S_NEW2]
        self.cwd = BASE
        self.fs_snapshots = []         # filesystem as of just before effect k
        self.db_committed = None       # last committed (files, deps)
        self.db_commits = []           # index into effects of each commit
        self.envmap = {}
        self.child_cwd = None
        self.exec_argv = None

    # ------------------------------------------------------------ bookkeeping
    def snap_fs(self):
        return ({k: self.fs_stamp(k) for k in list(self.fs)}, dict(self.content))

    def snap_db(self):
        return ({k: dict(v) for k, v in self.files.items()}, {k: dict(v) for k, v in self.deps.items()})

    def effect(self, kind, **data):
        """called BEFORE the state change is applied"""
        self.fs_snapshots.append((self.snap_fs(), self.db_committed if self.db_committed is not None else None))
        self.effects.append((kind, data))
        self.ev('fx-' + kind, **data)

    def sql_batch(self, eng, sql, sp):
        s = sql.upper()
        if s.startswith('BEGIN') and self.db_committed is None:
            self.db_committed = self.snap_db()
        if s == 'COMMIT':
            self.effect('commit')
            r = DBWorld.sql_batch(self, eng, sql, sp)
            self.db_committed = self.snap_db()
            return r
        return DBWorld.sql_batch(self, eng, sql, sp)

    def fresh_stamp(self):
        return tuple(self.new_stamps.pop(0))

    # ------------------------------------------------------------ filesystem calls
    def name_of(self, path):
        v = deref_all(path)
        if isinstance(v, Struct) and v.name in ('RedoPath', 'RedoPathBuf'):
            v = deref_all(v.f[0])
        items = tuple(v.items)
        if not all(isinstance(x, int) for x in items):
            raise Unsupported('symbolic path in fs model')
        b = bytes(items)
        if not b.startswith(b'/'):
            b = self.cwd + b'/' + b
        if b.startswith(BASE + b'/'):
            return tuple(b[len(BASE) + 1:])
        return tuple(b)

    def rel(self, path):
        return self.name_of(path)

    def stat(self, eng, path, follow):
        name = self.rel(path)
        st = self.fs_stamp(name)
        self.ev('stat', name=bytes(name).decode('latin-1'), follow=follow, result=None if st is None else bytes(st).decode())
        if st is None:
            return err(io_error('NotFound'))
        if tuple(st) == tuple(S_DLINK):
            if follow:
                return err(io_error('NotFound'))
            md = self.metadata(name, st)
            md.data['is_symlink'] = True
            return ok(md)
        if tuple(st) == tuple(S_LINK):
            if follow:
                return ok(self.metadata(name, S_LINK_TARGET))
            md = self.metadata(name, st)
            md.data['is_symlink'] = True
            return ok(md)
        return ok(self.metadata(name, st))

    def metadata(self, name, st, size=None):
        return Opaque('Metadata', {'stamp': tuple(st), 'is_dir': tuple(st) == tuple(S_DIR), 'is_symlink': False, 'name': name,
                                   'mtime': mtime_of(st), 'size': size})

    def unlink(self, eng, path, sp):
        name = self.rel(path)
        st = self.fs_stamp(name)
        if st is None:
            self.ev('unlink-enoent', name=bytes(name).decode('latin-1'))
            return err(errno('ENOENT'))
        if tuple(st) == tuple(S_DIR):
            self.ev('unlink-eisdir', name=bytes(name).decode('latin-1'))
            return err(errno('EISDIR'))
        if 'unlink' in self.faults and eng.choose(2, 'unlink fails') == 1:
            return err(errno('EACCES'))
        self.effect('unlink', name=bytes(name).decode('latin-1'))
        self.fs[name] = None
        self.content.pop(name, None)
        return ok(UNIT)

    def file_create(self, eng, path, sp):
        name = self.rel(path)
        if 'create' in self.faults and eng.choose(2, 'File::create fails') == 1:
            self.ev('create-failed', name=bytes(name).decode('latin-1'))
            return err(io_error('PermissionDenied'))
        self.effect('create', name=bytes(name).decode('latin-1'))
        self.fs[name] = self.fresh_stamp()
        self.content[name] = 'empty'
        return ok(Opaque('fs::File', {'kind': 'named', 'name': name, 'pos': 0}))

    def file_metadata(self, eng, f, sp):
        d = deref_all(f).data
        if d['kind'] == 'capture':
            return ok(self.metadata((), S_NEW, size=d['size']))
        st = self.fs_stamp(d['name'])
        if st is None:      # unlinked while open: still has metadata
            st = S_NEW
        return ok(self.metadata(d['name'], st, size=0))

    def seek(self, eng, f, pos, sp):
        d = deref_all(f).data
        p = deref_all(pos)
        if (isinstance(p, Enum) and p.var == 'Start') or (isinstance(p, Struct) and p.name == 'Start'):
            d['pos'] = eng.concrete(p.f[0], 'seek offset')
        else:
            raise Unsupported('seek %r' % (p,))
        self.ev('seek', pos=d['pos'])
        return ok(d['pos'])

    def io_copy(self, eng, src, dst, sp):
        s = deref_all(src).data
        d = deref_all(dst).data
        if s['kind'] != 'capture' or d['kind'] != 'named':
            raise Unsupported('io::copy between %r and %r' % (s, d))
        self.effect('copy', dst=bytes(d['name']).decode('latin-1'), from_pos=s['pos'])
        self.content[d['name']] = 'stdout' if s['pos'] == 0 else 'stdout-truncated'
        s['pos'] = s['size']
        return ok(s['size'])

    def rename(self, eng, a, b, sp):
        na, nb = self.rel(a), self.rel(b)
        if 'rename' in self.faults and eng.choose(2, 'rename fails') == 1:
            self.ev('rename-failed')
            return err(io_error('PermissionDenied'))
        st = self.fs_stamp(na)
        if st is None:
            return err(io_error('NotFound'))
        dst = self.fs_stamp(nb)
        if dst is not None and tuple(dst) == tuple(S_DIR) and tuple(st) != tuple(S_DIR):
            # rename(2) of a file onto an existing directory fails (EISDIR)
            self.ev('rename-eisdir', dst=bytes(nb).decode('latin-1'))
            return err(io_error('Other'))
        self.effect('rename', src=bytes(na).decode('latin-1'), dst=bytes(nb).decode('latin-1'))
        self.fs[nb] = st
        self.content[nb] = self.content.get(na, '?')
        self.fs[na] = None
        self.content.pop(na, None)
        return ok(UNIT)

    def fcntl(self, eng, fd, arg, sp):
        self.ev('fcntl', arg=repr(arg)[:60])
        return ok(0)

    def tempfile(self, eng, sp):
        return ok(Opaque('fs::File', {'kind': 'capture', 'size': 0, 'pos': 0}))

    def file_open(self, eng, path, sp):
        name = self.rel(path)
        if self.fs_stamp(name) is None:
            return err(io_error('NotFound'))
        return ok(Opaque('fs::File', {'kind': 'named', 'name': name, 'pos': 0, 'read': True}))

    def read_line(self, eng, reader, buf, sp):
        b = deref_all(buf)
        line = self.do_firstline
        if type(line) is LazyVal:
            line = line.force()
        b.items.extend(list(line))
        return ok(len(line))

    def log_tempfile(self, eng, sp):
        return ok(Opaque('NamedTempFile', None))

    # ---- what the forked child does before exec (only when a spec runs the job closure)
    def getenv(self, eng, k, os_string=True):
        v = self.envmap.get(k)
        if v is None:
            return none() if os_string else err(Enum('VarError', 'NotPresent'))
        val = Vec(list(v), 'OsString' if os_string else 'String')
        return some(val) if os_string else ok(val)

    def setenv(self, eng, k, v):
        if v is None:
            self.envmap.pop(k, None)
        else:
            self.envmap[k] = [ord(c) for c in v] if isinstance(v, str) else list(v)
        self.ev('setenv', k=k)

    def set_current_dir(self, eng, path, sp):
        v = deref_all(path)
        b = bytes(x for x in v.items)
        self.child_cwd = b if b.startswith(b'/') else (self.cwd + b'/' + b)
        self.ev('chdir', dir=self.child_cwd.decode('latin-1'))
        return ok(UNIT)

    def dup2(self, eng, a, b, sp):
        self.ev('dup2', src=repr(a), dst=repr(b))
        return ok(b)

    def execvp(self, eng, prog, argv, sp):
        def cstr(x):
            x = deref_all(x)
            if isinstance(x, Enum) and x.ty == 'Cow':        # Vec<Cow<CStr>> (start_deps_unlocked)
                x = deref_all(x.f[0])
            items = list(x.items)
            if items and items[-1] == 0:
                items = items[:-1]
            return bytes(items)
        self.exec_argv = [cstr(a) for a in deref_all(argv).items]
        self.ev('execvp', argv=[a.decode('latin-1') for a in self.exec_argv])
        raise ProcessExit(0)

    def start_job(self, eng, handle, reason, closure, sp):
        """JobServerHandle::start: the child is not executed; the closure (everything the child would do up to execvp) is kept
        so that a spec can run it separately"""
        self.effect('job-start', reason=repr(reason))
        self.jobs.append(closure)
        if getattr(self, 'run_child', False):
            # fork(): the child works on a copy of the parent's memory.  The only captured state the child mutates is the
            # Cell holding the capture file (it take()s it); it is restored for the parent afterwards.
            cl = closure
            while isinstance(cl, Ref):
                cl = cl.get()
            saved = []
            for v in getattr(cl, 'f', []):
                c = deref_all(v) if isinstance(v, Ref) else v
                if isinstance(c, Struct) and c.name == 'Cell':
                    saved.append((c, c.f[0]))
            try:
                self.child_rv = eng.call_closure(closure, [])
            except ProcessExit:
                self.child_rv = 'exec'
            for c, v0 in saved:
                c.f[0] = v0
        return ok(Opaque('Job', len(self.jobs) - 1))


def install(eng):
    """summaries for the std/nix/tempfile calls of builder.rs, routed to the world"""
    s = eng.summaries
    s['unistd::unlink'] = lambda e, ci, a, sp: e.world.unlink(e, a[0], sp)
    s['File::create'] = lambda e, ci, a, sp: e.world.file_create(e, a[0], sp)
    s['fs::File::create'] = s['File::create']
    s['File::open'] = lambda e, ci, a, sp: e.world.file_open(e, a[0], sp)
    s['File::metadata'] = lambda e, ci, a, sp: e.world.file_metadata(e, a[0], sp)
    s['Seek::seek'] = lambda e, ci, a, sp: e.world.seek(e, a[0], a[1], sp)
    s['io::copy'] = lambda e, ci, a, sp: e.world.io_copy(e, a[0], a[1], sp)
    s['fs::rename'] = lambda e, ci, a, sp: e.world.rename(e, a[0], a[1], sp)
    s['tempfile'] = lambda e, ci, a, sp: e.world.tempfile(e, sp)
    s['tempfile::tempfile'] = s['tempfile']
    s['BufReader::new'] = lambda e, ci, a, sp: Struct('BufReader', [a[0]])
    s['BufRead::read_line'] = lambda e, ci, a, sp: e.world.read_line(e, a[0], a[1], sp)
    s['Builder::new'] = lambda e, ci, a, sp: Struct('TempBuilder', [])
    s['Builder::prefix'] = lambda e, ci, a, sp: a[0]
    s['Builder::suffix'] = lambda e, ci, a, sp: a[0]
    s['Builder::tempfile_in'] = lambda e, ci, a, sp: e.world.log_tempfile(e, sp)
    s['NamedTempFile::persist'] = lambda e, ci, a, sp: (e.world.ev('log-persist'), ok(Opaque('fs::File', {'kind': 'log'})))[1]
    s['AsRawFd::as_raw_fd'] = lambda e, ci, a, sp: 7
    s['MetadataExt::size'] = lambda e, ci, a, sp: meta_size(e, a[0])
    s['Metadata::len'] = s['MetadataExt::size']
    s['Metadata::modified'] = lambda e, ci, a, sp: ok(Opaque('SystemTime', deref_all(a[0]).data['mtime']))
    s['<SystemTime as PartialEq>::ne'] = lambda e, ci, a, sp: deref_all(a[0]).data != deref_all(a[1]).data
    s['<SystemTime as PartialEq>::eq'] = lambda e, ci, a, sp: deref_all(a[0]).data == deref_all(a[1]).data
    for op, fn in (('lt', lambda x, y: x < y), ('le', lambda x, y: x <= y), ('gt', lambda x, y: x > y), ('ge', lambda x, y: x >= y)):
        s['<SystemTime as PartialOrd>::' + op] = (lambda fn: lambda e, ci, a, sp: fn(float(deref_all(a[0]).data), float(deref_all(a[1]).data)))(fn)
    s['set_current_dir'] = lambda e, ci, a, sp: e.world.set_current_dir(e, a[0], sp)
    s['env::set_current_dir'] = s['set_current_dir']
    s['io::_eprint'] = lambda e, ci, a, sp: UNIT
    s['_eprint'] = s['io::_eprint']
    s['drop fs::File'] = lambda e, v: None
    eng.stubs['close_on_exec'] = lambda e, ci, a, sp: ok(UNIT)
    eng.stubs['helpers::close_on_exec'] = eng.stubs['close_on_exec']
    eng.stubs['JobServerHandle::start'] = lambda e, ci, a, sp: e.world.start_job(e, a[0], a[1], a[2], sp)


def meta_size(eng, m):
    d = deref_all(m).data
    if d.get('size') is None:
        raise Unsupported('size of %r' % (d,))
    return d['size']
