"""C15, project base discovery (`Env::init`, src/env.rs:136-179): from every working directory inside a project and for every
spelling of the target directories, the project base that redo settles on is the directory that holds `.redo` - and in a
fresh project (no `.redo` yet) it is the deepest directory that contains the working directory and every target, so that a
later invocation from elsewhere in the project finds the same database instead of creating a second one."""
import os

import z3
from mirsym.values import *
from mirsym.summaries.core import ok, err, some, none, deref_all
from mirsym.summaries.env import World, io_error
from specs.depsobl import EnvWorld

P = '/p'


class BaseWorld(EnvWorld):
    def __init__(self, eng, env, cwd, redo_dirs):
        EnvWorld.__init__(self, eng, env)
        self.cwd = cwd
        self.redo_dirs = set(redo_dirs)       # directories that contain a `.redo`
        self.probed = []

    def current_dir(self, eng):
        return ok(Vec(list(self.cwd.encode()), 'PathBuf'))

    def exists(self, eng, path):
        items = deref_all(path).items
        if not all(isinstance(x, int) for x in items):
            raise Unsupported('symbolic path probed for existence')
        p = bytes(items).decode()
        self.probed.append(p)
        if p.endswith('/.redo'):
            return os.path.normpath(p[:-6]) in self.redo_dirs and '..' not in p.split('/')  # `..` spellings resolve through real dirs
        raise Unsupported('exists(%r)' % p)


def common_path_all(eng, ci, a, sp):
    """common_path 1.0: component-wise common prefix of all paths, None if the first components already differ"""
    from mirsym.summaries.strings import path_items, comps
    it = a[0]
    paths = []
    # the argument is an iterator adaptor chain; collect it through the engine's iterator protocol
    from mirsym.summaries.collections import iterate
    for v in iterate(eng, it):
        paths.append(bytes(path_items(eng, v)).decode())
    if not paths:
        return none()

    def cs(p):
        out = []
        if p.startswith('/'):
            out.append('/')
        for i, c in enumerate(p.split('/')):
            if c == '' or (c == '.' and (i > 0 or p.startswith('/'))):
                continue
            out.append(c)
        return out
    res = cs(paths[0])
    for p in paths[1:]:
        c2 = cs(p)
        n = 0
        while n < len(res) and n < len(c2) and res[n] == c2[n]:
            n += 1
        if n == 0:
            return none()
        res = res[:n]
    s = ''
    for c in res:
        if c == '/':
            s = '/'
        else:
            s = s + c if s in ('', '/') else s + '/' + c
    return some(Vec(list(s.encode()), 'PathBuf'))


CWDS = ['/p', '/p/d', '/p/d/e']
# target directory spellings, relative to a cwd; each is given with the directory it denotes for each cwd (None = not used there)
SPELLINGS = ['x', './x', 'd/x', 'd/e/x', '../x', '../../x', 'e/../x', '/p/x', '/p/d/x', '/p/d/e/x', 'e/x']


def denotes(cwd, t):
    d = os.path.dirname(t)
    return os.path.normpath(os.path.join(cwd, d))


def base_discovery(chk):
    eng = chk.eng
    eng.summaries['common_path::common_path_all'] = common_path_all
    eng.summaries['common_path_all'] = common_path_all
    st = {}
    chk.bounds['base_discovery'] = {'working_directories': CWDS, 'target_spellings': SPELLINGS, 'targets_per_command': '1..2',
                                    '.redo_present_in': 'nowhere | /p | /p/d | both'}
    chk.assumptions.append('base discovery: REDO (the re-exec marker) is already set, so the PATH / helper-link set-up of Env::init is '
                           'skipped; directories are real (no symlinks); a `.redo` reached through a `..` spelling is not seen')

    def run():
        cwd = CWDS[eng.choose(len(CWDS), 'cwd')]
        where = [(), ('/p',), ('/p/d',), ('/p', '/p/d')][eng.choose(4, 'where .redo exists')]
        n = 1 + eng.choose(2, 'number of targets')
        ts = []
        for i in range(n):
            t = SPELLINGS[eng.choose(len(SPELLINGS), 'target %d' % i)]
            ts.append(t)
        dirs = [denotes(cwd, t) for t in ts]
        if any(not (d == P or d.startswith(P + '/')) for d in dirs):
            raise PathDead()
        # an existing project: the property speaks about working directories and targets inside it
        # (with nested state directories: inside the outermost one)
        if where and any(not (d == where[0] or d.startswith(where[0] + '/')) for d in dirs + [cwd]):
            raise PathDead()
        # the file name is symbolic (2 bytes, no '/', not starting with '.')
        names = []
        tv = []
        for i, t in enumerate(ts):
            bs = [z3.BitVec('n%d_%d' % (i, j), 8) for j in range(2)]
            for b in bs:
                eng.assume(z3.And(b != 47, b != 0, z3.ULT(b, 0x80)))
            eng.assume(bs[0] != 46)
            names.append(bs)
            items = list(t[:-1].encode()) + bs
            tv.append(Struct('RedoPathBuf', [Vec(items, 'String')]))
        w = BaseWorld(eng, {'REDO': [ord(c) for c in '/usr/bin/redo']}, cwd, where)
        eng.world = w
        st.update(w=w, cwd=cwd, where=where, ts=ts, dirs=dirs)
        saved = {k: eng.stubs.pop(k) for k in list(eng.stubs) if k.endswith('::inherit') or k == 'Env::inherit'}
        try:
            return eng.call('Env::init', [Vec(tv, 'Vec<RedoPathBuf>')], None, None)
        finally:
            eng.stubs.update(saved)

    def judge(outcome, val, path):
        w = st['w']
        cwd, where, dirs = st['cwd'], st['where'], st['dirs']
        wit = {'op': 'base', 'cwd': cwd, 'targets': st['ts'], 'redo_dirs': list(where)}
        if outcome == 'panic':
            return {'role': 'base:panic', 'kind': 'base', 'witness': wit, 'what': 'Env::init aborts: %s' % val.msg}
        if outcome != 'ok' or val.var != 'Ok':
            return {'role': 'base:error', 'kind': 'base', 'witness': wit, 'what': 'Env::init fails for %r from %s' % (st['ts'], cwd)}
        b = w.envmap.get('REDO_BASE')
        base = bytes(b).decode() if b is not None and all(isinstance(x, int) for x in b) else repr(b)
        # the deepest directory containing the cwd and every target directory
        lca = os.path.commonpath([cwd] + dirs)
        want = lca
        d = lca
        while True:
            if d in where:
                want = d
                break
            if d == '/':
                break
            d = os.path.dirname(d)
        chk.goal('base: a fresh project entered from a subdirectory with a target above it', not where and cwd != P and any(x == P for x in dirs))
        chk.goal('base: .redo found above the working directory', bool(where) and where[0] != cwd and want == where[0])
        chk.goal('base: a nested state directory below the common ancestor is not taken', len(where) == 2 and want == '/p' and cwd != '/p')
        wit['base'] = base
        wit['expected'] = want
        nb = os.path.normpath(base)
        if not where:
            # a fresh project: any directory that contains the working directory and every target keeps later invocations on one
            # database; the deepest such directory is what this implementation (and the original) picks, but it is not required
            good = (lca == nb or lca.startswith(nb.rstrip('/') + '/'))
        else:
            good = nb == want
        if not good:
            kind = 'fresh-project' if not where else 'existing-project'
            return {'role': 'base:wrong-base:' + kind, 'kind': 'base', 'witness': wit,
                    'what': 'from %s, targets %r (.redo in %s): the project base becomes %r, expected %r - another invocation from elsewhere '
                            'in the project settles on a different base and a second database' % (cwd, st['ts'], list(where) or 'no directory', base, want)}
        sd = w.envmap.get('REDO_STARTDIR')
        if sd is None or bytes(sd).decode() != cwd:
            return {'role': 'base:startdir', 'kind': 'base', 'witness': wit, 'what': 'REDO_STARTDIR is %r, the working directory is %s' % (sd, cwd)}
        return None

    def sample(outcome, val, path):
        return {'cwd': st['cwd'], 'targets': st['ts'], 'redo_dirs': list(st['where'])}

    chk.explore('Env::init: project base discovery', run, judge, sample)


def replay(scn, c):
    """real binaries: run the command from the witness's working directory in a laid-out project and look where the state directory
    was created (fresh project) / which one was used (existing project)"""
    w = c.get('witness') or {}
    cwd, ts, where, want = w.get('cwd', '/p'), w.get('targets', ['x']), w.get('redo_dirs', []), w.get('expected', '/p')
    rel = os.path.relpath(cwd, P)
    files = {'d/e/keep': '', 'default.do': 'echo built\n', 'd/default.do': 'echo built\n', 'd/e/default.do': 'echo built\n'}
    t0 = [t[:-1] + 'tt' for t in ts]
    pre = ''
    for wd in sorted(where, key=len, reverse=True):
        # earlier builds made these directories project bases (innermost first, so that each creates its own .redo)
        pre += '(cd %s && redo --no-log seed.t >/dev/null 2>&1); ' % os.path.relpath(wd, P)
    files['names.py'] = ('import sqlite3, sys\n'
                         'for d in sys.argv[1:]:\n'
                         '    try:\n'
                         '        rows = sqlite3.connect(d + "/.redo/db.sqlite3").execute("select name from Files").fetchall()\n'
                         '    except Exception as e:\n'
                         '        rows = [("ERR %s" % e,)]\n'
                         '    print("NAMES %s %s" % (d, " ".join(sorted(r[0] for r in rows if r[0].endswith("tt")))))\n')
    script = ('ROOT=$(pwd); %scd %s && redo --no-log %s >/dev/null 2>"$ROOT/first.err"; echo "exit $?"; cd "$ROOT"; '
              'for d in $(find . -name .redo -type d | sort); do echo "STATE $(dirname $d)"; done; '
              'python3 names.py $(find . -name .redo -type d | sort | xargs -n1 dirname)') % (
        pre, rel, ' '.join(t.replace('/p/', '"$ROOT"/') for t in t0))
    rc, out = scn.run(files, script, timeout=120)
    c['native_scenario'] = {'files': files, 'script': script}
    got = sorted(os.path.normpath(os.path.join(P, l.split(' ', 1)[1])) for l in out.split('\n') if l.startswith('STATE '))
    expect = sorted(set(list(where) + [want]))
    # which database received the record of the requested target(s)
    recorded_in = []
    for l in out.split('\n'):
        if l.startswith('NAMES '):
            parts = l.split(' ')
            if len(parts) > 2 and any(parts[2:]):
                recorded_in.append(os.path.normpath(os.path.join(P, parts[1])))
    wrong_db = sorted(recorded_in) != [want]
    return (got != expect or wrong_db), 'real binaries: from %s `redo %s` -> state directories %r (expected %r), target recorded in %r (expected %r)' % (
        cwd, ' '.join(t0), got, expect, sorted(recorded_in), [want])
