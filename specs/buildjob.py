"""Obligations over the real BuildJob::{start_self, record_new_state} MIR (C04, C10, C11, parts of C01/C03/C05/C13).

The job's environment (target file before/after, capture file, $3 file, prior Files row, .do outcome, failing syscalls) is
symbolic / enumerated by the world model in specs/buildworld.py; the code's own effects are recorded as an ordered trace."""
import z3
from mirsym.values import *
from mirsym.engine import PyCallable
from mirsym.summaries.core import some, none, ok, err, deref_all
from specs import dbmodel, depscheck, buildworld
from specs.buildworld import BuildWorld, S_NEW, S_NEW2
from specs.dbmodel import BASE, S1, S2, S3, S4, S_MISSING, S_DIR, S_LINK

T_NAME = b'tgt'
TMP_NAME = b'tgt.redo.tmp'
T_ID = 2

ASSUMPTIONS = [
    'one build job of one target; the forked child (sh -e x.do) is not executed: its observable outcome (exit status, bytes '
    'written to the capture file, $3 created or not, target touched or not) is an arbitrary input',
    'the target\'s prior Files row is an unconstrained symbolic input (no representation invariant)',
    'filesystem calls are modelled by specs/buildworld.py: unlink/create/copy/rename act on a name->(stamp, content tag) map; a new '
    'file gets a stamp that differs from every recorded stamp in mtime and inode',
    'environment faults are injected only where stated in bounds (rename, File::create); other syscalls and SQL statements succeed',
    'logging (logs::meta, eprintln!, log_err!) is inert',
]


def surely_true(eng, v):
    """the (possibly symbolic) SQL cell is true on every model of the current path"""
    if v is None:
        return False
    if isinstance(v, (bool, int)):
        return bool(v)
    if z3.is_bool(v):
        return not eng.check(z3.Not(v))
    return not eng.check(v == 0)


CONTENT_CLASS = {'previous': 'previous', '$3': 'three', 'stdout': 'stdout', 'script-wrote-$1': 'direct'}


def content_class(w, name):
    st = w.fs_stamp(tuple(name))
    if st is None:
        return 'missing'
    if tuple(st) == tuple(S_DIR):
        return 'dir'
    return CONTENT_CLASS.get(w.content.get(tuple(name)), 'other')


def concretize_row(m, row):
    out = {}
    for k, v in row.items():
        if k in ('rowid', 'name'):
            continue
        if type(v) is LazyVal:
            v = v.val if v.forced else None
        if v is None:
            out[k] = None
        elif isinstance(v, tuple):
            out[k] = bytes(v).decode('latin-1')
        elif isinstance(v, (bool, int)):
            out[k] = v
        else:
            x = m.eval(v, model_completion=True)
            out[k] = z3.is_true(x) if z3.is_bool(x) else (x.as_long() if z3.is_int_value(x) else x.as_signed_long())
    return out


def row_class(eng, m, w, R):
    """the target's row as replay/state_replay.rs::dump_rows prints it: gen,ovr,checked,changed,failed,stamp class,csum class"""
    r = concretize_row(m, {k: w.cell(T_ID, k) for k in dbmodel.FILE_COLS})

    def b(v):
        return 'N' if v is None else ('1' if v else '0')

    def i(v):
        return 'N' if v is None else str(int(v))
    stp = r['stamp']
    return '%d:%s,%s,%s,%s,%s,%s,%s' % (T_ID, b(r['is_generated']), b(r['is_override']), i(r['checked_runid']), i(r['changed_runid']),
                                        i(r['failed_runid']), 'N' if stp is None else ('M' if stp == '0' else 'S'),
                                        'N' if not r['csum'] else 'C')


def t_path(eng, name=T_NAME, absolute=True):
    b = (BASE + b'/' + name) if absolute else name
    return Struct('RedoPath', [Bytes(list(b), 'str')])


def setup(eng, R=None, fixed=None, fs_choices=(None, S1, S2, S3, S_DIR), world_cls=BuildWorld, **envover):
    R = R if R is not None else z3.Int('R')
    w = world_cls(eng, R)
    eng.world = w
    if not isinstance(R, int):
        eng.assume(z3.And(R > 1, R <= (1 << 62)))
    w.sym_file(T_ID, T_NAME, tag='t', fs_choices=fs_choices, fixed=fixed)
    env = dbmodel.make_env(eng, R, **envover)
    ps = dbmodel.make_process_state(eng, env)
    psr = new_cell(ps)
    return w, R, env, psr


# ------------------------------------------------------------------------------------------------ record_new_state (C04)
def record_new_state_facts(chk, pid):
    """every path of BuildJob::record_new_state: which filesystem effects happen under which circumstances, what is returned,
    what is left behind, and what the Files row says afterwards"""
    eng = chk.eng
    st = {}
    faults = ('rename', 'create') if chk.thorough() or pid == 'C04' else ()

    def run():
        w, R, env, psr = setup(eng)
        w.faults = set(faults)
        # ---- what the script did
        before = w.fs_stamp(tuple(T_NAME))                       # target before the job: absent | file | dir
        before_md = some(w.metadata(tuple(T_NAME), before)) if before is not None else none()
        touched = eng.choose(4, 'script touched $1')
        # 0: left $1 alone; 1: (re)wrote $1 directly (newer mtime); 2: removed $1; 3: (re)wrote $1 keeping an OLDER mtime (cp -p)
        if touched in (1, 3):
            if before is not None and tuple(before) == tuple(S_DIR):
                raise PathDead()
            w.fs[tuple(T_NAME)] = tuple(S_NEW2) if touched == 1 else tuple(buildworld.S_OLDER)
            w.content[tuple(T_NAME)] = 'script-wrote-$1'
        elif touched == 2:
            if before is None:
                raise PathDead()
            w.fs[tuple(T_NAME)] = None
        else:
            if before is not None:
                w.content[tuple(T_NAME)] = 'previous'
        out_size = eng.choose(2, 'stdout bytes') * 5
        # 0: no $3; 1: a regular file; 2: a symbolic link that does not resolve at the moment the script exits (ln -s later-built $3)
        has3 = eng.choose(3, '$3 created')
        if has3:
            w.fs[tuple(TMP_NAME)] = tuple(w.fresh_stamp()) if has3 == 1 else tuple(buildworld.S_DLINK)
            w.content[tuple(TMP_NAME)] = '$3'
        else:
            w.fs[tuple(TMP_NAME)] = None
        rv = z3.BitVec('rv', 32)
        st.update(w=w, R=R, before=before, touched=touched, out_size=out_size, has3=has3, rv=rv,
                  t_before=(w.fs_stamp(tuple(T_NAME)), w.content.get(tuple(T_NAME))))
        ptx = dbmodel.begin(eng, psr)
        ptxr = new_cell(ptx)
        sf = dbmodel.load_file(eng, ptxr, T_ID)
        st['row0'] = {k: w.cell(T_ID, k) for k in dbmodel.FILE_COLS}
        out_file = Opaque('fs::File', {'kind': 'capture', 'size': out_size, 'pos': out_size})
        argv = Vec([Vec(list(x), 'OsString') for x in (b'sh', b'-e', b'tgt.do', b'tgt', b'tgt', b'tgt.redo.tmp')], 'Vec')
        w.effects.clear()
        w.fs_snapshots.clear()
        r = eng.call('BuildJob::record_new_state', [ptxr, new_cell(t_path(eng)), sf, new_cell(before_md), out_file,
                                                    Bytes(list(BASE + b'/' + TMP_NAME), 'Path'), argv, rv], None, None)
        return r

    def judge(outcome, val, path):
        w, R = st['w'], st['R']
        rv0 = st['rv']
        tn, tmpn = T_NAME.decode(), TMP_NAME.decode()
        fx = list(w.effects)
        on_t = [(k, d) for k, d in fx if (k in ('unlink', 'create') and d['name'] == tn) or (k == 'rename' and d['dst'] == tn) or
                (k == 'copy' and d['dst'] == tn) or (k == 'rename' and d['src'] == tn)]
        injected = any(k in ('rename-failed', 'create-failed', 'rename-eisdir') for k, d in w.log)
        wit = {'before': None if st['before'] is None else bytes(st['before']).decode(), 'touched': st['touched'],
               'stdout_bytes': st['out_size'], 'has3': st['has3'], 'effects': [(k, d) for k, d in fx],
               'faults': [k for k, d in w.log if k.endswith('-failed')]}

        def cand(role, what, extra=None):
            m = eng.model(extra)
            wit2 = dict(wit)
            c = {'role': 'record_new_state:' + role, 'kind': 'record', 'what': 'record_new_state: ' + what, 'witness': wit2,
                 'prio': (2 if 'rename-failed' in wit['faults'] else (1 if wit['faults'] else 0))}
            if m is not None:
                rvv = m.eval(rv0, model_completion=True).as_signed_long()
                wit2['rv'] = rvv
                # the state BEFORE the job, as a replay line for replay/builder_replay.rs, and what the model says comes out
                mm = depscheck.model_of(eng, w, R, [T_ID], extra)
                mm['files'] = {T_ID: dict(mm['files'][T_ID], **concretize_row(m, st['row0']))}
                mm['fs'] = {T_NAME.decode(): None if st['before'] is None else bytes(st['before']).decode()}
                mm['deps'] = []
                wit2['model'] = mm
                fault = 'create' if 'create-failed' in wit['faults'] else ('rename' if 'rename-failed' in wit['faults'] else 'none')
                wit2['line'] = '%s RV=%d OUT=%d HAS3=%d TOUCH=%d FAULT=%s' % (depscheck.to_dbline(mm, T_ID, 'record'), rvv, st['out_size'],
                                                                            st['has3'], st['touched'], fault)
                if outcome == 'ok':
                    retv = val if isinstance(val, int) else m.eval(val, model_completion=True).as_signed_long()
                    c['predict'] = {'RET': str(retv), 'TGT': content_class(w, T_NAME), 'TMP': '1' if w.fs_stamp(tuple(TMP_NAME)) is not None else '0',
                                    'row': row_class(eng, m, w, R)}
                    if role == 'in-place-write':
                        c['predict']['INO'] = 'same'
                else:
                    c['predict'] = {'RET': 'PANIC'}
            return c

        if outcome == 'panic':
            return cand('panic', 'aborts (%s) with %r' % (val.msg, wit))
        if outcome != 'ok':
            return None
        ret = val
        modified = st['touched'] in (1, 3)
        both = st['has3'] and st['out_size'] > 0
        script_ok = (rv0 == 0)
        chk.goal('record_new_state: $1 modified directly', modified)
        chk.goal('record_new_state: stdout and $3 both', both and not modified)
        chk.goal('record_new_state: stdout copied and renamed', any(k == 'copy' for k, d in fx) and any(k == 'rename' for k, d in fx))
        chk.goal('record_new_state: $3 renamed', st['has3'] and any(k == 'rename' for k, d in fx))
        chk.goal('record_new_state: no output => target unlinked', any(k == 'unlink' and d['name'] == tn for k, d in fx))
        chk.goal('record_new_state: a fault is injected', injected or not faults)
        # (1) nothing but rename(tmp -> t) and unlink(t) ever acts on the target; File::create / copy only on the temp name
        for k, d in on_t:
            if not ((k == 'rename' and d['src'] == tmpn and d['dst'] == tn) or (k == 'unlink')):
                return cand('in-place-write', 'the target itself is written / moved (%s %r): a reader can see a partial file' % (k, d))
        for k, d in fx:
            if k in ('create', 'copy') and d.get('name', d.get('dst')) != tmpn:
                return cand('in-place-write', 'File::create / copy on %r, not on the temporary name' % (d,))
        # (2) the target is replaced / removed only if the script exited 0, did not touch $1 and did not produce both outputs
        if on_t:
            bad = z3.Or(rv0 != 0, bool(modified), bool(both))
            if eng.check(bad):
                return cand('replaced-after-failure', 'the target is replaced or removed (%r) although the script failed, wrote $1 '
                            'directly, or produced both stdout and $3' % (on_t,), bad)
        # (3) documented status
        if modified:
            if eng.check(ret != 206):
                return cand('status', 'script modified $1 directly but the job returns something other than 206', ret != 206)
        elif both:
            if eng.check(ret != 207):
                return cand('status', 'stdout and $3 both produced but the job returns something other than 207', ret != 207)
        elif not injected:
            if eng.check(ret != rv0):
                return cand('status', 'the job does not return the script\'s exit status', ret != rv0)
        else:
            if eng.check(z3.And(ret == 0)):
                return cand('status', 'an internal step failed but the job returns 0', ret == 0)
        # (4) no temporary file is left behind
        if w.fs_stamp(tuple(TMP_NAME)) is not None:
            return cand('tmp-left-behind', 'the temporary output file still exists when the job is finished')
        # (5) on failure the target is exactly as the script left it
        now = (w.fs_stamp(tuple(T_NAME)), w.content.get(tuple(T_NAME)))
        failed = z3.Or(ret != 0)
        if now != st['t_before'] and eng.check(failed):
            return cand('changed-on-failure', 'the job fails but the target changed from %r to %r; %r' % (st['t_before'][1], now[1], wit), failed)
        # (6) on success the target is exactly the script's output
        if eng.check(ret == 0):
            if st['has3']:
                want = (tuple(S_NEW) if st['has3'] == 1 else tuple(buildworld.S_DLINK), '$3')
            elif st['out_size'] > 0:
                want = None
                if now[1] != 'stdout':
                    return cand('wrong-content', 'success with stdout output but the target content is %r (want the complete capture)' % (now[1],),
                                ret == 0)
            else:
                want = st['t_before'] if st['t_before'][0] is not None and tuple(st['t_before'][0]) == tuple(S_DIR) else (None, None)
            if want is not None and now != want:
                return cand('wrong-content', 'success but the target is %r, expected %r' % (now, want), ret == 0)
        # (7) Files row afterwards
        row = w.files[T_ID]
        fsn = w.fs_stamp(tuple(T_NAME))

        def cellnow(c):
            return w.cell(T_ID, c)
        if eng.check(ret == 0):
            eng.path.solver.push()
            eng.path.solver.add(ret == 0)
            try:
                stamp = cellnow('stamp')
                want_stamp = tuple(fsn) if fsn is not None else tuple(S_MISSING)
                if fsn is not None and tuple(fsn) == tuple(buildworld.S_DLINK):
                    # a symbolic link is recorded as "<stamp of the link>+<stamp of what it points to>" (File::read_stamp); the link
                    # does not resolve, so the second part is the "missing" stamp
                    want_stamp = tuple(fsn) + tuple(b'+') + tuple(S_MISSING)
                if stamp is None or tuple(stamp) != want_stamp:
                    return cand('row-stamp', 'success but the recorded stamp %r is not the stamp of the file on disk %r' % (stamp, want_stamp))
                g = cellnow('is_generated')
                if not surely_true(eng, g):
                    return cand('row-generated', 'success but the row is not marked generated (%r)' % (g,))
                fr = cellnow('failed_runid')
                r0 = st['row0']
                chk0, chg0 = r0['checked_runid'], r0['changed_runid']

                def this_run(v):
                    if v is None:
                        return False
                    return z3.And(v != 0, v >= R)
                stamped = z3.Or(this_run(chk0), this_run(chg0)) if (chk0 is not None or chg0 is not None) else False
                stamped = z3.simplify(stamped) if is_sym(stamped) else stamped
                chg = cellnow('changed_runid')
                # not stamped in this run -> changed now, failure cleared, checksum cleared
                not_stamped = z3.Not(stamped) if is_sym(stamped) else (not stamped)
                if not_stamped is not False and eng.check(not_stamped if is_sym(not_stamped) else None):
                    eng.path.solver.push()
                    if is_sym(not_stamped):
                        eng.path.solver.add(not_stamped)
                    try:
                        if chg is None or eng.check(chg != R):
                            return cand('row-changed', 'success, not stamped in this run, but changed_runid is not the current run')
                        if fr is not None:
                            return cand('row-failed', 'success but failed_runid is still set (%r)' % (fr,))
                        cs = cellnow('csum')
                        if cs is not None and len(cs) > 0:
                            return cand('row-csum', 'success without redo-stamp but the old checksum %r is kept' % (cs,))
                    finally:
                        eng.path.solver.pop()
                if stamped is not False and eng.check(stamped if is_sym(stamped) else None):
                    chk.goal('record_new_state: target was stamped in this run')
                    eng.path.solver.push()
                    if is_sym(stamped):
                        eng.path.solver.add(stamped)
                    try:
                        c0 = r0['changed_runid']
                        same = (chg is None and c0 is None) or (chg is not None and c0 is not None and not eng.check(chg != c0))
                        if not same:
                            return cand('row-stamped-changed', 'target stamped in this run (redo-stamp decided changed/unchanged) but '
                                        'record_new_state overwrote changed_runid %r -> %r' % (c0, chg))
                    finally:
                        eng.path.solver.pop()
            finally:
                eng.path.solver.pop()
        if eng.check(ret != 0):
            eng.path.solver.push()
            eng.path.solver.add(ret != 0)
            try:
                fr = cellnow('failed_runid')
                if fr is None or eng.check(fr != R):
                    return cand('row-not-failed', 'the job fails but failed_runid is not the current run (%r)' % (fr,))
            finally:
                eng.path.solver.pop()
        # (8) leftover edges marked for deletion are gone (zap_deps2 ran)
        if any(k[0] == T_ID and d['delete_me'] not in (0, False) for k, d in w.deps.items()):
            return cand('zap-deps2', 'edges marked delete_me survive the end of the job')
        return None

    def sample(outcome, val, path):
        w = st['w']
        return {'before': None if st['before'] is None else bytes(st['before']).decode(), 'touched': st['touched'],
                'stdout_bytes': st['out_size'], 'has3': st['has3'], 'effects': ['%s %s' % (k, d) for k, d in w.effects]}

    chk.explore('record_new_state: effects, status, leftovers, row (every script outcome x prior state)', run, judge, sample)


ENOSPC_SCENARIO = r"""
set -u
mkdir m || exit 97
mount -t tmpfs -o size=4m,nr_inodes=60 none m || { echo CANNOT-MOUNT; exit 97; }
M="$PWD/m"
trap 'cd /; umount "$M" 2>/dev/null || umount -l "$M"' EXIT
cd m
# the script uses up one more inode each time its input changes, then writes its output to stdout
printf ': > hog.$(cat src)\ncat src\n' > out.do
echo v1 > src
redo --no-log out >/dev/null 2>&1 || { echo FIRST-BUILD-FAILED; exit 97; }
[ "$(cat out)" = v1 ] || { echo FIRST-BUILD-WRONG; exit 97; }
# fill the file system so that exactly 3 inodes are free (sqlite needs two while redo runs, the script takes the third):
# File::create of the temporary output file then fails with ENOSPC
i=0; while touch fill$i 2>/dev/null; do i=$((i+1)); done
rm -f fill0 fill1 fill2
echo v2 > src
redo --no-log out >../log 2>&1; rc=$?
echo "rc=$rc"
if [ -e out ]; then echo "out=$(cat out)"; else echo "out=MISSING"; fi
ls | grep -c 'redo.tmp' | sed 's/^/tmpfiles=/'
sed 's/^/LOG: /' ../log
"""


CRASH_SCENARIO = r"""
set -u
cc -shared -fPIC -O1 -o ./shim.so "$SHIM_SRC" -ldl || { echo CANNOT-BUILD-SHIM; exit 97; }
SHIM="$PWD/shim.so"
mkdir proj && cd proj
cat > tgt.do <<'DO'
if [ -e ../kill-now ]; then rm -f ../kill-now; kill -9 $PPID; exit 1; fi
redo-ifchange src
@OUTPUT@
if [ -e ../kill-after-stamp ]; then rm -f ../kill-after-stamp; kill -9 $PPID; exit 1; fi
DO
echo v1 > src
if [ "@PRIOR@" != never-built ]; then
    redo-ifchange tgt >/dev/null 2>&1 || { echo FIRST-BUILD-FAILED; exit 97; }
    [ "$(cat tgt)" = v1 ] || { echo FIRST-BUILD-WRONG; exit 97; }
    [ "@PRIOR@" = built-then-removed ] && rm -f tgt
    sleep 0.05
    echo v2 > src
fi
[ '@CRASH@' = script ] && : > ../kill-now
[ '@CRASH@' = script-after-stamp ] && : > ../kill-after-stamp
VERIF_CRASH='@CRASH@' LD_PRELOAD="$SHIM" redo-ifchange tgt >../killed.log 2>&1
echo "killed-rc=$?"
redo-ifchange tgt >../recovery.log 2>&1
echo "recovery-rc=$?"
echo "after-recovery=$(cat tgt 2>/dev/null || echo MISSING)"
sleep 0.05
echo v3 > src
redo-ifchange tgt >../later.log 2>&1
echo "later-rc=$?"
echo "final=$(cat tgt 2>/dev/null || echo MISSING)"
ls | grep -c 'redo.tmp' | sed 's/^/tmpfiles=/'
sed 's/^/RECOVERY-LOG: /' ../recovery.log | head -5
"""

CRASH_SPEC = {
    'after-rename-before-commit': 'after:rename:tgt',
    'after-unlink-before-commit': 'after:unlink:tgt',
    'after-copy-before-rename': 'before:rename:tgt',
    'after-script-creates-$3-before-rename': 'before:rename:tgt',
    'after-script-writes-stdout-before-rename': 'before:rename:tgt',
    'after-create-before-copy': 'before:rename:tgt',        # the copy is not a libc call we intercept; same leftovers one step later
    # the redo process is killed while the script runs, before the script did anything (the script kills its parent)
    'after-commit-before-job-start': 'script',
    'after-job-start-before-script-declares-dep': 'script',
    'after-job-start-before-script-writes-stdout': 'script',
    'after-job-start-before-script-creates-$3': 'script',
    'after-job-start-before-end': 'script',
    # killed after the script's redo-stamp committed, before redo put the output in place
    'after-script-redo-stamp-before-rename': 'script-after-stamp',
    'after-script-redo-stamp-before-create': 'script-after-stamp',
    'after-script-redo-stamp-before-unlink': 'script-after-stamp',
}


PREAMBLE_SCENARIO = r"""
set -u
mkdir proj && cd proj
echo v1 > src
cat > @DOFILE@ <<'DO'
@DOBODY@
DO
@SETUP@
redo-ifchange tgt >../run1.log 2>&1
echo "rc1=$?"
echo "tgt1=$(cat tgt 2>/dev/null || echo MISSING)"
echo "link1=$([ -L tgt ] && echo yes || echo no)"
echo "ran1=$(wc -l < ../ran.log 2>/dev/null || echo 0)"
redo-ifchange tgt >../run2.log 2>&1
echo "rc2=$?"
echo "tgt2=$(cat tgt 2>/dev/null || echo MISSING)"
echo "ran2=$(wc -l < ../ran.log 2>/dev/null || echo 0)"
ls | grep -c 'redo.tmp' | sed 's/^/tmpfiles=/'
# and once more after a source edit (a file redo must keep its hands off stays as it is then, too)
sleep 0.05; echo v2 > src
redo-ifchange tgt >../run3.log 2>&1
echo "rc3=$?"
echo "tgt3=$(cat tgt 2>/dev/null || echo MISSING)"
echo "ran3=$(wc -l < ../ran.log 2>/dev/null || echo 0)"
sed 's/^/LOG1: /' ../run1.log | head -6
"""


def preamble_replay(scn, c):
    """start_self counterexamples: the prior row / filesystem state named by the witness is produced by a short real history, then
    the real `redo-ifchange tgt` runs twice"""
    role = c['role'].split(':', 1)[1]
    w = c['witness']
    m = w.get('model', {})
    row = w.get('row_before') or (m.get('files') or {}).get(T_ID) or (m.get('files') or {}).get(str(T_ID)) or {}
    dof = 'tgt.do' if 'tgt.do' in w.get('dofiles', []) or not w.get('dofiles') else 'default.do'
    exists = w.get('fs') is not None
    gen = bool(row.get('is_generated'))
    build_first = 'redo-ifchange tgt >/dev/null 2>&1 || { echo SETUP-FAILED; exit 97; }; : > ../ran.log; sleep 0.05'
    ovr = bool(row.get('is_override'))
    same_mtime = w.get('fs') is not None and w.get('stamp') is not None and w['fs'].split('-')[0] == w['stamp'].split('-')[0]
    # a hand edit; with the recorded mtime kept when the witness says only the size differs (cp -p, rsync -t, touch -r)
    edit = ('cp -p tgt ../ref; echo USER-EDIT > tgt; touch -r ../ref tgt' if same_mtime else 'echo USER-EDIT > tgt')
    dobody = 'echo ran >> ../ran.log\nredo-ifchange src\ncat src'
    is_link = (w.get('fs') or '').startswith('7.000000-5-555')
    if role == 'stale-tmp':
        setup = 'echo STALE-PARTIAL-OUTPUT > tgt.redo.tmp'
        want = {'rc1': '0', 'tgt1': 'v1', 'tmpfiles': '0'}
    elif role in ('touches-foreign-file', 'foreign-file-status', 'foreign-file-role'):
        want = {'rc1': '0', 'tgt1': 'USER-EDIT', 'ran1': '0', 'rc2': '0', 'tgt2': 'USER-EDIT', 'ran2': '0', 'tgt3': 'USER-EDIT', 'ran3': '0'}
        if is_link:
            # the user's own symbolic link to a regular file (e.g. config.h -> config-linux.h); a rule matches its name
            setup = ('echo USER-EDIT > real-file\nln -s real-file tgt' if not gen else
                     build_first + '\nrm -f tgt\necho USER-EDIT > real-file\nln -s real-file tgt')
            want['link1'] = 'yes'
        elif gen and row.get('stamp') is None:
            # marked generated by redo-stamp during a first build that was killed before any stamp was recorded; then the user
            # wrote the file by hand
            dobody = ('if [ -e ../kill-after-stamp ]; then redo-ifchange src; cat src > $3; redo-stamp < $3; rm -f ../kill-after-stamp; '
                      'kill -9 $PPID; exit 1; fi\necho ran >> ../ran.log\ncat src')
            setup = ': > ../kill-after-stamp\nredo-ifchange tgt >/dev/null 2>&1\n: > ../ran.log\necho USER-EDIT > tgt'
        elif gen and ovr:
            # generated, edited by hand, noticed by an earlier run (marked overridden), then edited a second time
            setup = build_first + '\necho FIRST-EDIT > tgt\nredo-ifchange tgt >/dev/null 2>&1\n: > ../ran.log; sleep 0.05\n' + edit
        elif gen:
            setup = build_first + '\n' + edit                      # generated, then edited by hand
        else:
            setup = 'echo USER-EDIT > tgt'                       # the user's own file; a rule matches its name
    elif role == 'not-started':
        if exists:
            setup = build_first + '\necho v2 > src'
            want = {'rc1': '0', 'tgt1': 'v2'}
        elif gen:
            setup = build_first + '\necho USER-EDIT > tgt\nredo-ifchange tgt >/dev/null 2>&1\nrm -f tgt'     # overridden, then removed
            want = {'rc1': '0', 'tgt1': 'v1'}
        else:
            setup = ':'
            want = {'rc1': '0', 'tgt1': 'v1'}
    elif role == 'no-rule-status':
        dof = 'other.do'
        setup = 'echo USER > tgt' if exists else ':'
        want = {'rc1': '0', 'tgt1': 'USER'} if exists else {'tgt1': 'MISSING'}
    else:
        return False, 'no scenario for %s' % role
    script = PREAMBLE_SCENARIO.replace('@DOFILE@', dof).replace('@DOBODY@', dobody).replace('@SETUP@', setup)
    rc, out = scn.run({}, script, timeout=300)
    c['scenario_output'] = out[-2500:]
    if rc == 97 or 'SETUP-FAILED' in out:
        return False, 'scenario could not be set up: ' + out[-300:]
    lines = dict(l.split('=', 1) for l in out.split('\n') if '=' in l and not l.startswith('LOG'))
    lines = {k: v.strip() for k, v in lines.items()}
    bad = {k: (lines.get(k), v) for k, v in want.items() if lines.get(k) != v}
    if role == 'no-rule-status' and not exists and lines.get('rc1') == '0':
        bad['rc1'] = ('0', 'non-zero')
    return bool(bad), 'real binaries: %s (observed vs expected: %r)' % ('deviates' if bad else 'as expected', bad or want)


ARGV_SCENARIO = r"""
set -u
mkdir -p proj/@DODIR@ proj/@TDIR@ && cd proj
export OUT="$PWD/../args.out"
cat > @DOFILE@ <<'DO'
@FIRST@
printf '%s\n' "$PWD" "$1" "$2" "$3" > "$OUT"
echo content > "$3"
DO
redo-ifchange @TARGET@ > ../log 2>&1; echo "rc=$?"
echo "base=$PWD"
sed 's/^/ARG=/' ../args.out
"""


SHELL_FLAGS_SCENARIO = r"""
set -u
mkdir proj && cd proj
# the script's first command fails; under `sh -e` the script stops and the build fails
printf 'false\necho reached-the-end > $3\n' > tgt.do
redo @FLAGS@ tgt > ../log 2>&1; echo "rc=$?"
echo "tgt=$(cat tgt 2>/dev/null || echo MISSING)"
"""


def argv_replay(scn, c):
    import posixpath
    w = c['witness']
    if c.get('role') == 'script-args:shell':
        flags = ('-v ' if w.get('verbose') else '') + ('-x' if w.get('xtrace') else '')
        rc, out = scn.run({}, SHELL_FLAGS_SCENARIO.replace('@FLAGS@', flags), timeout=120)
        c['scenario_output'] = out[-1200:]
        lines = dict(l.split('=', 1) for l in out.split('\n') if '=' in l)
        bad = lines.get('rc') == '0' or lines.get('tgt') != 'MISSING'
        return bad, 'real binaries, `redo %s tgt` with a script whose first command fails: %r (must fail and leave no target)' % (flags, lines)
    if c.get('role') == 'script-args:cycles':
        # the script asks for its own target: with its lock id in REDO_CYCLES that is a cyclic dependency error at once; without it
        # the request recurses (REDO_UNLOCKED: nobody really holds the lock) or waits for the parent's lock
        env = ('REDO=1 REDO_BASE="$PWD" REDO_STARTDIR="$PWD" REDO_PWD= REDO_TARGET= REDO_RUNID=99 REDO_LOG=0 REDO_DEPTH= REDO_UNLOCKED=1 '
               if w.get('unlocked') else '')
        script = ('set -u\nmkdir proj && cd proj\nprintf \'redo-ifchange tgt\\necho x\\n\' > tgt.do\nprintf \'echo warm\\n\' > warm.do\n'
                  'redo-ifchange warm >/dev/null 2>&1\n' + env + 'timeout 20 redo-ifchange tgt >../out.log 2>&1; echo "rc=$?"\n'
                  'grep -ci cyclic ../out.log | sed "s/^/cyclic=/"\ntail -2 ../out.log | cut -c1-200')
        rc, out = scn.run({}, script, timeout=120)
        c['scenario_output'] = out[-1200:]
        lines = dict(l.split('=', 1) for l in out.split('\n') if '=' in l)
        bad = lines.get('rc') == '124' or lines.get('cyclic', '0') == '0'
        return bad, 'real binaries, tgt.do = `redo-ifchange tgt`%s: rc=%s, %s line(s) mention a cyclic dependency' % (
            ' under REDO_UNLOCKED' if w.get('unlocked') else '', lines.get('rc'), lines.get('cyclic'))
    t, dof = w['target'], w['do_file']
    # a `#!` line is reproduced with /bin/sh so that the same script body runs; the interpreter obligation itself is not replayable
    script = (ARGV_SCENARIO.replace('@DODIR@', posixpath.dirname(dof) or '.').replace('@TDIR@', posixpath.dirname(t) or '.')
              .replace('@DOFILE@', dof).replace('@TARGET@', t).replace('@FIRST@', '#!/bin/sh' if w.get('shebang') else ': plain'))
    rc, out = scn.run({}, script, timeout=120)
    c['scenario_output'] = out[-1500:]
    lines = out.split('\n')
    base = [l[5:] for l in lines if l.startswith('base=')]
    args = [l[4:] for l in lines if l.startswith('ARG=')]
    if not base or len(args) != 4:
        return False, 'scenario gave no arguments: ' + out[-300:]
    shape = [sh for sh in ARG_SHAPES if sh[0].decode() == t and sh[1].decode() == dof]
    if not shape:
        return False, 'unknown shape'
    _, _, cwd, a1, a2 = shape[0]
    want_cwd = base[0] + cwd.decode()[len('/p'):]
    full3 = posixpath.normpath(posixpath.join(args[0], args[3]))
    fullt = posixpath.normpath(posixpath.join(base[0], t))
    bad = []
    if args[0] != want_cwd:
        bad.append('cwd %s (want %s)' % (args[0], want_cwd))
    if args[1] != a1.decode():
        bad.append('$1 %s (want %s)' % (args[1], a1.decode()))
    if args[2] != a2.decode():
        bad.append('$2 %s (want %s)' % (args[2], a2.decode()))
    if posixpath.dirname(full3) != posixpath.dirname(fullt) or full3 == fullt:
        bad.append('$3 %s is not beside %s' % (full3, fullt))
    return bool(bad), 'real binaries: %s' % ('; '.join(bad) if bad else 'arguments as documented %r' % (args,))


def make_replay(chk, rep, scn):
    def replay(c):
        role = c.get('role', '')
        w = c.get('witness', {})
        if c.get('kind') == 'argv':
            return argv_replay(scn, c)
        if c.get('kind') == 'tmpname':
            return tmpname_replay(scn, c)
        if c.get('kind') == 'jobstatus':
            return jobstatus_replay(scn, c)
        if role.startswith('start_self:') and c.get('kind') == 'buildjob':
            return preamble_replay(scn, c)
        if c.get('kind') == 'crash' and w.get('crash_point') in CRASH_SPEC and w.get('script'):
            import os
            sc = w['script']
            output = 'cat src > $3' if sc['has3'] else ('cat src' if sc['stdout'] else ':')
            if sc.get('stamps'):
                output += '\nredo-stamp < $3' if sc['has3'] else '\ncat src | redo-stamp'
            if sc['rv']:
                output += '\nexit 1'
            script = (CRASH_SCENARIO.replace('@OUTPUT@', output).replace('@PRIOR@', w['prior_state'])
                      .replace('@CRASH@', CRASH_SPEC[w['crash_point']]))
            os.environ['SHIM_SRC'] = os.path.join(os.path.dirname(os.path.dirname(os.path.abspath(__file__))), 'replay', 'crashshim.c')
            rc, out = scn.run({}, script, timeout=300)
            c['scenario_output'] = out[-2500:]
            lines = dict(l.split('=', 1) for l in out.split('\n') if '=' in l and not l.startswith('RECOVERY-LOG'))
            if rc == 97 or 'killed-rc' not in lines:
                return False, 'scenario could not be set up: ' + out[-300:]
            if lines['killed-rc'] != '137':
                return False, 'the crash injector did not fire (killed-rc=%s)' % lines['killed-rc']
            want_final = 'v3' if (sc['has3'] or sc['stdout']) else 'MISSING'
            stale = lines.get('recovery-rc') == '0' and lines.get('later-rc') == '0' and lines.get('final') != want_final
            kind = role.split(':')[1] if ':' in role else ''
            if kind == 'dirtiness-lost':
                want_rec = ('v2' if w['prior_state'] != 'never-built' else 'v1') if (sc['has3'] or sc['stdout']) else 'MISSING'
                stale_now = lines.get('recovery-rc') == '0' and lines.get('after-recovery') != want_rec
                return stale_now, 'real binaries, redo killed %s (%s): the next redo-ifchange exits %s and leaves the target at %r ' \
                                  '(a from-scratch build gives %r)' % (w['crash_point'], CRASH_SPEC[w['crash_point']],
                                                                      lines.get('recovery-rc'), lines.get('after-recovery'), want_rec)
            if kind == 'recovery-error':
                broken = lines.get('recovery-rc') not in ('0',) and ('panicked' in out or lines.get('recovery-rc') == '101')
                return broken, 'real binaries, redo killed %s (%s): the next redo-ifchange exits %s%s' % (
                    w['crash_point'], CRASH_SPEC[w['crash_point']], lines.get('recovery-rc'),
                    ''.join(' | ' + l for l in out.split('\n') if l.startswith('RECOVERY-LOG'))[:500])
            if kind == 'stale-tmp':
                broken = lines.get('recovery-rc') != '0' or lines.get('tmpfiles') != '0'
                return broken, 'real binaries, redo killed %s (%s): the next redo-ifchange exits %s, %s temporary file(s) left%s' % (
                    w['crash_point'], CRASH_SPEC[w['crash_point']], lines.get('recovery-rc'), lines.get('tmpfiles'),
                    ''.join(' | ' + l for l in out.split('\n') if l.startswith('RECOVERY-LOG'))[:400])
            if kind in ('treated-as-foreign',):
                return stale, 'real binaries, redo killed %s (%s): recovery exits %s, after a further source edit redo-ifchange exits %s and ' \
                              'the target is %r (a from-scratch build gives %r)' % (w['crash_point'], CRASH_SPEC[w['crash_point']],
                                                                                 lines.get('recovery-rc'), lines.get('later-rc'),
                                                                                 lines.get('final'), want_final)
            return False, 'no observable for %s' % kind
        if role == 'record_new_state:changed-on-failure' and w.get('faults') == ['create-failed'] and w.get('stdout_bytes'):
            # File::create(tmp) fails although the script succeeded: run the real binaries on a tmpfs whose inodes are used up
            rc, out = scn.run({}, ENOSPC_SCENARIO, timeout=300)
            c['scenario_output'] = out[-2000:]
            if 'CANNOT-MOUNT' in out or rc == 97:
                return False, 'scenario could not be set up (tmpfs mount): ' + out[-300:]
            failed = 'rc=0' not in out.split('\n')
            gone = 'out=MISSING' in out
            return (failed and gone), ('real binaries on a full tmpfs: redo fails (%s) and the previously built target is %s' % (
                [l for l in out.split('\n') if l.startswith('rc=')], 'deleted' if gone else 'still there'))
        if c.get('kind') == 'record' and w.get('line') and c.get('predict'):
            if ' FAULT=rename' in w['line']:
                return False, 'a failing rename cannot be provoked natively'
            payload, raw, rc = rep.run('builder', 'record_batch', [w['line']], timeout=900)
            if len(payload) != 1:
                return False, 'native run failed (rc=%s): %s' % (rc, raw[-600:])
            got = dict(x.split('=', 1) for x in payload[0].split(' ')[1:] if '=' in x)
            c['native'] = payload[0]
            pr = c['predict']
            if pr['RET'] == 'PANIC':
                return got.get('RET', '').startswith('PANIC'), 'native: %s' % payload[0][:300]
            same = all(got.get(k) == v for k, v in pr.items() if k in ('RET', 'TGT', 'TMP', 'INO'))
            if 'row-' in role or role.endswith('zap-deps2'):
                rows = dict(x.split(':', 1) for x in got.get('ROWS', '').split(';') if ':' in x)
                want = pr['row'].split(':', 1)
                same = same and rows.get(want[0]) == want[1]
            return same, 'native record_new_state: %s; the model predicted %r' % (payload[0][:300], pr)
        return False, 'no native replay driver for %s / %s' % (c.get('kind'), role)
    return replay


# ------------------------------------------------------------------------------------------------ start_self
DO_NAMES = (b'tgt.do', b'default.do')


def make_job(eng, w, ptxr, target_id=T_ID, name=T_NAME):
    sf = dbmodel.load_file(eng, ptxr, target_id)
    lm = dbmodel.mk(eng, 'LockManager', file=Opaque('fs::File', 'locks'), locks=Struct('RefCell', [Map('HashSet'), 0]))
    lock = dbmodel.mk(eng, 'Lock', manager=new_cell(lm), owned=True, fid=target_id)
    job = dbmodel.mk(eng, 'BuildJob', t=Struct('RedoPathBuf', [Vec(list(BASE + b'/' + name), 'OsString')]), sf=sf, lock=lock,
                     should_build_func=Opaque('should_build_func', None))
    return job


def install_job_stubs(eng):
    dbmodel.install_rdfs_stubs(eng)
    nm = eng.impl_index.get(('Job', 'Future', 'poll'))

    def job_poll(e, ci, a, sp):
        w = e.world
        rv = w.job_result(e)
        return Enum('Poll', 'Ready', [rv])
    if nm:
        eng.stubs[nm] = job_poll
    eng.summaries['drop Rc<LockManager>'] = lambda e, v: None
    # dropping the Lock at the end of the job future: release (event only)
    dn = eng.impl_index.get(('Lock', 'Drop', 'drop'))
    if dn:
        eng.stubs[dn] = lambda e, ci, a, sp: (e.world.ev('lock-released'), UNIT)[1]
    eng.stubs['state::warn_override'] = lambda e, ci, a, sp: (e.world.ev('warn-override'), UNIT)[1]
    eng.stubs['warn_override'] = eng.stubs['state::warn_override']


_RUN_FACTS = {}


def run_sets_commit_on_drop(eng):
    """builder::run (a lowered coroutine that is not executed here) creates the transaction that it hands to BuildJob::start;
    whether it switches it to commit-on-drop first is read from the source text of builder.rs: every
    `ProcessTransaction::new` that is followed by a `.start(` must have `set_drop_behavior(DropBehavior::Commit)` in between"""
    if 'commit' not in _RUN_FACTS:
        import os
        import re
        src = open(os.path.join(eng.src.root, 'src/builder.rs')).read()
        i = src.index('pub async fn run<')
        body = src[i:]
        okk = True
        n = 0
        for m in re.finditer(r'ProcessTransaction::new\(', body):
            j = body.find('.start(', m.end())
            k = body.find('ProcessTransaction::new(', m.end())
            if j < 0 or (k >= 0 and k < j):
                continue
            n += 1
            seg = re.sub(r'//[^\n]*', '', body[m.end():j])
            if not re.search(r'ptx\s*\.\s*set_drop_behavior\(\s*DropBehavior::Commit\s*\)', seg):
                okk = False
        _RUN_FACTS['commit'] = okk and n > 0
    return _RUN_FACTS['commit']


def run_start_self(eng, w, psr, before_md=None):
    """-> (result of start_self, ptx was consumed)"""
    ptx = dbmodel.begin(eng, psr)
    ptxr = new_cell(ptx)
    if run_sets_commit_on_drop(eng):
        eng.call('ProcessTransaction::set_drop_behavior', [ptxr, Enum('DropBehavior', 'Commit')], None, None)
    job = make_job(eng, w, ptxr)
    if before_md is None:
        st = w.fs_stamp(tuple(T_NAME))
        before_md = some(w.metadata(tuple(T_NAME), st)) if st is not None else none()
        if st is not None and tuple(st) == tuple(S_LINK):
            before_md.f[0].data['is_symlink'] = True       # try_stat uses symlink_metadata
    ps_rc = new_cell(Struct('RefCell', [psr, 0]))
    r = eng.call('BuildJob::start_self', [job, ps_rc, ptxr.get(), new_cell(Opaque('JobServerHandle', None)), before_md], None, None)
    return r


def crit(stamp):
    """the part of a stamp that detect_override compares: mtime and size (first two '-' separated fields)"""
    return tuple(bytes(stamp).split(b'-')[:2])


def ready_value(eng, fut):
    """Pin<Box<future::Ready<i32>>> -> the value, or None when the future is a real job"""
    v = fut
    for _ in range(6):
        if isinstance(v, Struct) and v.name in ('Pin', 'Box'):
            v = v.f[0]
        elif isinstance(v, Ref):
            v = v.get()
        else:
            break
    if isinstance(v, Struct) and v.name == 'Ready':
        inner = v.f[0]
        if isinstance(inner, Enum):
            return inner.f[0] if inner.var == 'Some' else None
        return inner
    return None


def start_self_facts(chk, pid):
    """BuildJob::start_self from every prior row x filesystem state x placement of .do files: files redo did not produce (or that
    were edited since) are never touched and no script is started for them; after the user removed such a file the target is built
    again; 'no rule' handling; a stale temporary file is removed before the script starts"""
    eng = chk.eng
    install_job_stubs(eng)
    st = {}

    def run():
        w, R, env, psr = setup(eng, log=0, fs_choices=(None, S1, S2, S3, S4, S_DIR, S_LINK))
        for dn in DO_NAMES:
            k = eng.choose(2, 'exists ' + dn.decode())
            w.fs[tuple(dn)] = tuple(S1) if k else None
        w.fs[tuple(TMP_NAME)] = [None, tuple(S2)][eng.choose(2, 'stale tmp file')]
        w.do_firstline = LazyVal(lambda: [b'echo hi\n', b'#!/bin/sh -x\n'][eng.choose(2, 'shebang')], 'firstline')
        # no representation invariant is assumed: in particular a row may be marked generated without a recorded stamp
        # (redo-stamp on a first build that was then killed leaves exactly that)
        g, stp = w.cell(T_ID, 'is_generated'), w.cell(T_ID, 'stamp')
        st['row0'] = dict(w.files[T_ID])       # the row before the job (lazy cells stay lazy until the code looks at them)
        st.update(w=w, R=R, gen=g, ovr=w.cell(T_ID, 'is_override'), stamp=stp, fs0=w.fs_stamp(tuple(T_NAME)),
                  dofiles=[dn for dn in DO_NAMES if w.fs_stamp(tuple(dn)) is not None])
        w.effects.clear()
        r = run_start_self(eng, w, psr)
        return r

    def judge(outcome, val, path):
        w, R = st['w'], st['R']
        tn = T_NAME.decode()
        fx = list(w.effects)
        wit = {'fs': None if st['fs0'] is None else bytes(st['fs0']).decode(), 'stamp': None if st['stamp'] is None else bytes(st['stamp']).decode(),
               'dofiles': [d.decode() for d in st['dofiles']], 'effects': fx}

        def cand(role, what, extra=None):
            wit2 = dict(wit)
            wit2['model'] = depscheck.model_of(eng, w, R, [T_ID], extra)
            m = eng.model(extra)
            if m is not None:
                wit2['row_before'] = concretize_row(m, st['row0'])
            return {'role': 'start_self:' + role, 'kind': 'buildjob', 'what': 'start_self: ' + what, 'witness': wit2}
        if outcome == 'panic':
            return cand('panic', 'aborts: %s' % val.msg)
        if outcome != 'ok':
            return None
        res = val
        gen, ovr, stamp, fs0 = st['gen'], st['ovr'], st['stamp'], st['fs0']
        exists = fs0 is not None
        is_dir = exists and tuple(fs0) == tuple(S_DIR)
        started = any(k == 'job-start' for k, d in fx)
        touched_t = [(k, d) for k, d in fx if (k in ('unlink', 'create') and d.get('name') == tn) or
                     (k == 'rename' and tn in (d.get('src'), d.get('dst')))]
        rv = ready_value(eng, res.f[0]) if res.var == 'Ok' else None
        is_link = exists and tuple(fs0) == tuple(S_LINK)
        chk.goal('start_self: the file is a symbolic link put there by the user', is_link)
        edited = exists and stamp is not None and crit(stamp) != crit(fs0)
        # no recorded stamp: nothing shows that the file now on disk is the one redo produced (redo-stamp marks a first build
        # generated before any stamp exists; after a kill the user may have written the file by hand)
        unproven = exists and stamp is None
        # "not ours": exists as a file and (never generated | marked overridden | generated but edited since | unproven)
        if exists and not is_dir:
            not_ours = z3.Or(z3.Not(gen), ovr, z3.BoolVal(bool(edited)), z3.BoolVal(bool(unproven)))
            chk.goal('start_self: an existing non-generated file is met', eng.check(z3.Not(gen)))
            chk.goal('start_self: a hand-edited generated file is met', edited and eng.check(z3.And(gen, z3.Not(ovr))))
            if eng.check(not_ours):
                if started or touched_t:
                    return cand('touches-foreign-file', 'a file redo did not produce (or that was edited by hand) is %s' % (
                        'handed to a .do script' if started else 'modified: %r' % (touched_t,)), not_ours)
                if res.var != 'Ok' or rv is None or eng.check(z3.And(not_ours, rv != 0)):
                    return cand('foreign-file-status', 'an existing file that is not redo\'s is not skipped with success (%r)' % (res,), not_ours)
                # the row must not call it a fresh target: either not generated any more, or marked overridden
                g2, o2 = w.cell(T_ID, 'is_generated'), w.cell(T_ID, 'is_override')
                tgt_like = z3.And(not_ours, as_bool(g2), z3.Not(as_bool(o2)))
                if eng.check(tgt_like):
                    return cand('foreign-file-role', 'after skipping a foreign file its row still says generated and not overridden', tgt_like)
                ch = w.cell(T_ID, 'changed_runid')
                ours = z3.Not(not_ours)
            else:
                ours = True
        else:
            ours = True
        # ours (or absent): with a rule, the script is started; without one: exists -> static/success, absent -> failure
        if ours is True or eng.check(ours):
            extra = None if ours is True else ours
            if st['dofiles']:
                chk.goal('start_self: a job is started', started)
                if not exists:
                    chk.goal('start_self: a removed overridden file is built again', started and eng.check(ovr))
                if not started and (extra is None or eng.check(extra)):
                    if res.var == 'Ok':
                        return cand('not-started', 'a target redo is responsible for (absent, or generated and unedited) is not built although '
                                    'a .do file exists (%r)' % (res,), extra)
                # the stale temporary file is removed before the child starts
                names_before = []
                for k, d in fx:
                    if k == 'job-start':
                        break
                    names_before.append((k, d.get('name')))
                if started and w.fs_stamp(tuple(TMP_NAME)) is not None:
                    return cand('stale-tmp', 'a stale temporary output file survives until the script starts')
                if started:
                    ci = [i for i, (k, d) in enumerate(fx) if k == 'commit']
                    ji = [i for i, (k, d) in enumerate(fx) if k == 'job-start'][0]
                    if not ci or ci[0] > ji:
                        return cand('start-before-commit', 'the script is started before the transaction (zap_deps1, .do edges) is committed')
            else:
                chk.goal('start_self: no rule, file exists', exists)
                chk.goal('start_self: no rule, file absent', not exists)
                if started:
                    return cand('started-without-rule', 'a job is started although no .do file exists')
                if res.var == 'Ok' and rv is not None:
                    want = 0 if exists else 1
                    bad = rv != want
                    if (extra is None and eng.check(bad)) or (extra is not None and eng.check(z3.And(extra, bad))):
                        return cand('no-rule-status', 'no rule to build the target (file %s) but the job result is not %d' % (
                            'exists' if exists else 'absent', want), bad if extra is None else z3.And(extra, bad))
                if touched_t:
                    return cand('no-rule-touches', 'no rule, yet the file is modified: %r' % (touched_t,))
        return None

    def sample(outcome, val, path):
        w = st['w']
        return {'fs0': None if st['fs0'] is None else bytes(st['fs0']).decode(), 'dofiles': [d.decode() for d in st['dofiles']],
                'effects': ['%s %s' % (k, d) for k, d in w.effects], 'result': repr(val)[:80]}

    chk.explore('start_self: foreign files untouched, own targets built, no-rule handling, stale tmp', run, judge, sample)


def as_bool(v):
    if v is None:
        return z3.BoolVal(False)
    if isinstance(v, (bool, int)):
        return z3.BoolVal(bool(v))
    if z3.is_bool(v):
        return v
    return v != 0


# ------------------------------------------------------------------------------------------------ whole job + crash points (C10)
SRC_ID = 3
DO_ID = 4
SRC_NAME = b'src'
PRESTATES = {
    # name: (row cells of the target, filesystem state of the target, content tag)
    'never-built': (dict(is_generated=None, is_override=None, checked_runid=None, changed_runid=None, failed_runid=None, stamp=None,
                         csum=None), None),
    'built': (dict(is_generated=True, is_override=False, checked_runid=None, changed_runid=5, failed_runid=None, stamp=tuple(S1),
                   csum=None), tuple(S1)),
    'built-then-removed': (dict(is_generated=True, is_override=False, checked_runid=None, changed_runid=5, failed_runid=None,
                                stamp=tuple(S1), csum=None), None),
    'failed-last-time': (dict(is_generated=True, is_override=False, checked_runid=None, changed_runid=5, failed_runid=6,
                              stamp=tuple(S1), csum=None), tuple(S1)),
    # redo-stamp ran for it in this very run (R = 10): record_new_state takes its "stamped" branch
    'checksummed-stamped-this-run': (dict(is_generated=True, is_override=False, checked_runid=10, changed_runid=5, failed_runid=None,
                                          stamp=tuple(S1), csum=tuple(b'abc')), tuple(S1)),
    'checksummed': (dict(is_generated=True, is_override=False, checked_runid=None, changed_runid=5, failed_runid=None,
                         stamp=tuple(S1), csum=tuple(b'abc')), tuple(S1)),
    # the user had replaced it by hand (marked overridden) and has now removed it again: redo's target once more
    'overridden-then-removed': (dict(is_generated=True, is_override=True, checked_runid=None, changed_runid=5, failed_runid=None,
                                     stamp=tuple(S2), csum=None), None),
}


class JobWorldB(BuildWorld):
    def __init__(self, eng, runid):
        BuildWorld.__init__(self, eng, runid)
        self.capture = None
        self.script_rv = 0

    def tempfile(self, eng, sp):
        self.capture = Opaque('fs::File', {'kind': 'capture', 'size': 0, 'pos': 0})
        return ok(self.capture)

    def job_result(self, eng):
        return self.script_rv


def clone_world(eng, w, fs, content, db, runid):
    """a fresh world with the given filesystem and (committed) database"""
    n = JobWorldB(eng, runid)
    n.fs = dict(fs)
    n.content = dict(content)
    n.files = {k: dict(v) for k, v in db[0].items()}
    n.deps = {k: dict(v) for k, v in db[1].items()}
    n.next_rowid = max([100] + [k + 1 for k in n.files])
    n.do_firstline = b'echo hi\n'
    n.new_stamps = [b'11.000000-91-910-33188-0-0', b'12.000000-92-920-33188-0-0']
    return n


def crash_facts(chk, pid):
    """one whole build job (start_self, the script, the job future with record_new_state and the final commit) x a kill just
    before every state-changing effect; then the next run's decisions on what the crash left behind"""
    eng = chk.eng
    install_job_stubs(eng)
    R = 10
    st = {}

    def run():
        pre = sorted(PRESTATES)[eng.choose(len(PRESTATES), 'prior state')]
        cells, fs_t = PRESTATES[pre]
        w = JobWorldB(eng, R)
        eng.world = w
        w.add_file(T_ID, T_NAME, **cells)
        w.fs[tuple(T_NAME)] = fs_t
        if fs_t is not None:
            w.content[tuple(T_NAME)] = 'previous'
        # a source the target depends on; edited since the last build or not
        src_edited = eng.choose(2, 'source edited') if pre != 'never-built' else 0
        w.add_file(SRC_ID, SRC_NAME, is_generated=None, is_override=None, checked_runid=None, changed_runid=5, failed_runid=None,
                   stamp=tuple(S1), csum=None)
        w.fs[tuple(SRC_NAME)] = tuple(S2) if src_edited else tuple(S1)
        w.fs[tuple(b'tgt.do')] = tuple(S1)
        if pre != 'never-built':
            # as the earlier build left it: edges on the source and on the script, the script's row up to date
            w.deps[(T_ID, SRC_ID)] = {'mode': tuple(b'm'), 'delete_me': 0}
            w.add_file(DO_ID, b'tgt.do', is_generated=False, is_override=False, checked_runid=None, changed_runid=4, failed_runid=None,
                       stamp=tuple(S1), csum=None)
            w.deps[(T_ID, DO_ID)] = {'mode': tuple(b'm'), 'delete_me': 0}
        w.do_firstline = b'echo hi\n'
        w.db_committed = w.snap_db()
        env = dbmodel.make_env(eng, R, log=0)
        psr = new_cell(dbmodel.make_process_state(eng, env))
        st.update(w=w, pre=pre, src_edited=src_edited, script=None, crashes=[])
        # reference verdict before anything happens
        snap = depscheck.snapshot(w)
        ref = depscheck.RefEval(eng, w, snap[0], snap[1], snap[2], R)
        st['v0'] = ref.verdict(T_ID, R)
        r = run_start_self(eng, w, psr)
        if r.var != 'Ok' or not w.jobs:
            st['started'] = False
            return r, None
        st['started'] = True
        # ---- the script runs (its observable outcome is an input)
        rv = eng.choose(2, 'script exit status')
        out = eng.choose(2, 'script wrote stdout')
        has3 = eng.choose(2, 'script created $3') if not out else 0
        declares = eng.choose(2, 'script declared its source')
        # redo-stamp <$3 (or of what it printed): 0 = not called, 1 = digest differs from the recorded one, 2 = same digest
        stamps = eng.choose(3 if chk.thorough() else 2, 'script ran redo-stamp') if (out or has3) and rv == 0 and declares else 0
        st['script'] = dict(rv=rv, stdout=out, has3=has3, declares=declares, stamps=stamps)
        if declares:
            w.effect('script-declares-dep')
            w.deps[(T_ID, SRC_ID)] = {'mode': tuple(b'm'), 'delete_me': 0}
            # redo-ifchange in the child also records the source's current stamp
            w.files[SRC_ID]['stamp'] = w.fs_stamp(tuple(SRC_NAME))
            if src_edited:
                w.files[SRC_ID]['changed_runid'] = R
            w.db_committed = w.snap_db()
        if out:
            w.effect('script-writes-stdout')
            w.capture.data['size'] = 5
            w.capture.data['pos'] = 5
        if has3:
            w.effect('script-creates-$3')
            w.fs[tuple(TMP_NAME)] = w.fresh_stamp()
            w.content[tuple(TMP_NAME)] = '$3'
        if stamps:
            # what `redo-stamp` (bin/redo/stamp.rs, decided separately by C03's stamp obligation) commits for REDO_TARGET
            w.effect('script-redo-stamp')
            row = w.files[T_ID]
            row['is_generated'] = True
            if stamps == 1:
                row.update(changed_runid=R, failed_runid=None, is_override=False, csum=tuple(b'newsum'))
            else:
                row['checked_runid'] = R
            w.db_committed = w.snap_db()
        w.script_rv = rv
        cx = new_cell(Struct('Context', [Opaque('Waker', 'noop')]))
        p = eng.call('<X as Future>::poll', [r.f[0], cx], None, None)
        w.effect('end')       # pseudo effect: "crash" after everything = no crash
        return r, p

    def judge(outcome, val, path):
        w = st['w']
        pre = st['pre']
        wit = {'prior_state': pre, 'source_edited': st['src_edited'], 'script': st['script'], 'effects': [k for k, d in w.effects]}
        if outcome != 'ok':
            return {'role': 'job:' + outcome, 'kind': 'crash', 'witness': wit, 'what': 'build job: %s %s' % (outcome, getattr(val, 'msg', val))}
        if not st['started']:
            return None
        chk.goal('crash: a job with stdout output runs to the end', bool(st['script']['stdout']) and st['script']['rv'] == 0)
        chk.goal('crash: a job with $3 output runs to the end', bool(st['script']['has3']) and st['script']['rv'] == 0)
        chk.goal('crash: a failing job runs to the end', st['script']['rv'] != 0)
        r, p = val
        fx = w.effects
        v0 = st['v0']
        found = []
        for k in range(len(fx)):
            (fs, content), dbc = w.fs_snapshots[k]
            prev_kind = fx[k - 1][0] if k else 'begin'
            next_kind = fx[k][0]
            point = 'after-%s-before-%s' % (prev_kind, next_kind)
            if dbc is None:
                continue
            res = recover(eng, fs, content, dbc, R + 1)
            eng.world = w
            tcont = content.get(tuple(T_NAME))
            tfs = fs.get(tuple(T_NAME))
            ours = True     # in every prior state of this obligation the target is redo's own (or absent)
            bad = None
            if res.get('error'):
                bad = ('recovery-error', 'the recovery run fails: %s' % res['error'])
            elif tfs is not None and res['foreign_exit']:
                bad = ('treated-as-foreign', 'the next run treats the target (content: %s) as a file it must not touch (%s): it is never '
                       'built again' % (tcont, res['how']))
            elif next_kind != 'end' and v0 != depscheck.CLEAN and res['verdict'] == depscheck.CLEAN and tcont != 'previous-complete':
                # dirtiness may only go away through the job's final commit
                if not (prev_kind == 'commit' and k == len(fx) - 1):
                    bad = ('dirtiness-lost', 'the target was %s before the job, the job was killed %s, and the next run calls it Clean' % (
                        depscheck.fmt_verdict(v0), point))
            elif res['started'] and res['tmp_left']:
                bad = ('stale-tmp', 'the next run starts the script while the killed run\'s temporary output file still exists')
            if bad:
                found.append((point, bad))
        chk.goal('crash: a kill between rename and commit is examined', any(fx[k - 1][0] == 'rename' and fx[k][0] == 'commit' for k in range(1, len(fx))))
        if found:
            point, (what_k, what) = found[0]
            role = 'crash:%s:%s' % (what_k, point)
            wit['crash_point'] = point
            wit['all_points'] = [(pt, b[0]) for pt, b in found]
            sc = st['script'] or {}
            # replay preference: a script that prints its output and declares its source is the ordinary shape (a script without
            # any output cannot even complete the first build of the replay scenario)
            prio = (0 if sc.get('stdout') else (1 if sc.get('has3') else 3)) + (0 if sc.get('declares') else 1)
            return {'role': role, 'kind': 'crash', 'witness': wit, 'prio': prio,
                    'what': 'killed %s (prior state %s): %s' % (point, pre, what)}
        return None

    def sample(outcome, val, path):
        w = st['w']
        return {'prior_state': st['pre'], 'script': st['script'], 'effects': [k for k, d in w.effects]}

    chk.explore('kill before every state-changing effect of a build job, then the next run', run, judge, sample)


def recover(eng, fs, content, db, runid):
    """what the next run decides on the world a kill left behind: the dirtiness verdict of the real is_dirty and whether the real
    start_self builds the target or walks away from it"""
    w2 = clone_world(eng, None, fs, content, db, runid)
    eng.world = w2
    out = {'error': None, 'foreign_exit': False, 'how': '', 'started': False, 'tmp_left': False, 'verdict': None}
    try:
        r, fr, ptxr, psr = depscheck.call_is_dirty(eng, w2, runid, T_ID)
        if r.var != 'Ok':
            out['error'] = 'is_dirty: %r' % (r,)
            return out
        out['verdict'] = depscheck.real_verdict(eng, r)
        # the verdict transaction is committed by the caller (redo-ifchange's should_build runs inside the job's transaction)
        eng.call('ProcessTransaction::commit', [ptxr.get()], None, None)
        w2.effects.clear()
        env = dbmodel.make_env(eng, runid, log=0)
        psr = new_cell(dbmodel.make_process_state(eng, env))
        r2 = run_start_self(eng, w2, psr)
        if r2.var != 'Ok':
            out['error'] = 'start_self: %r' % (r2,)
            return out
        out['started'] = bool(w2.jobs)
        if not w2.jobs:
            rv = ready_value(eng, r2.f[0])
            row = w2.files[T_ID]
            out['foreign_exit'] = True
            out['how'] = 'is_generated=%r is_override=%r, job result %r' % (row['is_generated'], row['is_override'], rv)
        else:
            out['tmp_left'] = w2.fs_stamp(tuple(TMP_NAME)) is not None
    except Panic as e:
        out['error'] = 'panic: %s' % e.msg
    return out


# ------------------------------------------------------------------------------------------------ script arguments (C13)
ARG_SHAPES = [
    # (target relative to the project base, the .do file that exists (relative to the base), documented: cwd, $1, $2)
    (b'tgt', b'tgt.do', b'/p', b'tgt', b'tgt'),
    (b'tgt', b'default.do', b'/p', b'tgt', b'tgt'),
    (b'x.y.z', b'default.y.z.do', b'/p', b'x.y.z', b'x'),
    (b'x.y.z', b'default.z.do', b'/p', b'x.y.z', b'x.y'),
    (b'd/x.c', b'd/x.c.do', b'/p/d', b'x.c', b'x.c'),
    (b'd/x.c', b'd/default.c.do', b'/p/d', b'x.c', b'x'),
    (b'd/x.c', b'default.c.do', b'/p', b'd/x.c', b'd/x'),
    (b'd/e/x.c', b'd/default.do', b'/p/d', b'e/x.c', b'e/x.c'),
    (b'd/e/x.c', b'default.c.do', b'/p', b'd/e/x.c', b'd/e/x'),
]


def script_arguments(chk, pid):
    """what the forked child does up to execvp (the real closure handed to JobServerHandle::start is executed): it runs the chosen
    script in the script's directory with $1 = the target relative to that directory, $2 = $1 without the matched extension,
    $3 = a temporary path beside the target; REDO_TARGET / REDO_PWD / REDO_DEPTH are set; the job's lock id is added to the
    cycle list before exec"""
    eng = chk.eng
    install_job_stubs(eng)
    eng.stubs['ProcessState::is_flushed'] = lambda e, ci, a, sp: True
    st = {}

    def run():
        k = eng.choose(len(ARG_SHAPES), 'shape')
        tname, dofile, cwd, a1, a2 = ARG_SHAPES[k]
        verbose = eng.choose(2, 'verbose')
        xtrace = eng.choose(2, 'xtrace')
        shebang = eng.choose(2, 'shebang')
        # REDO_UNLOCKED: the job runs under a lock its caller (redo-unlocked's parent) holds; the script still runs "inside" the target
        unlocked = eng.choose(2, 'unlocked') if k == 0 else 0
        R = z3.Int('R')
        w = BuildWorld(eng, R)
        eng.world = w
        eng.assume(z3.And(R > 1, R < (1 << 62)))
        w.add_file(T_ID, tname)
        w.fs[tuple(tname)] = None
        w.fs[tuple(dofile)] = tuple(S1)
        for d_ in (b'd', b'd/e'):
            w.fs[tuple(d_)] = tuple(S_DIR)
        w.do_firstline = b'#!/usr/bin/env python3\n' if shebang else b'echo hi\n'
        w.canonicalize = lambda e, p_: ok(Vec(list(bytes(deref_all(p_).items)), 'PathBuf'))
        env = dbmodel.make_env(eng, R, log=0, verbose=verbose, xtrace=xtrace, unlocked=bool(unlocked))
        psr = new_cell(dbmodel.make_process_state(eng, env))
        st.update(w=w, shape=ARG_SHAPES[k], verbose=verbose, xtrace=xtrace, shebang=shebang, unlocked=unlocked)
        w.run_child = True
        w.child_rv = None
        ptx = dbmodel.begin(eng, psr)
        ptxr = new_cell(ptx)
        if run_sets_commit_on_drop(eng):
            eng.call('ProcessTransaction::set_drop_behavior', [ptxr, Enum('DropBehavior', 'Commit')], None, None)
        job = make_job(eng, w, ptxr, name=tname)
        ps_rc = new_cell(Struct('RefCell', [psr, 0]))
        r = eng.call('BuildJob::start_self', [job, ps_rc, ptxr.get(), new_cell(Opaque('JobServerHandle', None)), none()], None, None)
        if r.var != 'Ok' or not w.jobs:
            return r, None
        return r, w.child_rv

    def judge(outcome, val, path):
        w = st['w']
        tname, dofile, cwd, a1, a2 = st['shape']
        wit = {'target': tname.decode(), 'do_file': dofile.decode(), 'verbose': st['verbose'], 'xtrace': st['xtrace'], 'shebang': st['shebang'],
               'argv': [a.decode('latin-1') for a in (w.exec_argv or [])], 'cwd': (w.child_cwd or b'').decode('latin-1'),
               'unlocked': st.get('unlocked', 0)}
        chk.goal('script invocation: a job started under REDO_UNLOCKED', bool(st.get('unlocked')))

        def cand(role, what):
            return {'role': 'script-args:' + role, 'kind': 'argv', 'what': 'script invocation: ' + what, 'witness': wit}
        if outcome == 'panic':
            return cand('panic', 'aborts: %s' % val.msg)
        if outcome != 'ok':
            return None
        r, rv = val
        if rv != 'exec' or not w.exec_argv:
            return cand('no-exec', 'the child does not reach execvp (%r)' % (rv,))
        chk.goal('script-args: a default.*.do in a parent directory is used', tname.count(b'/') > dofile.count(b'/'))
        chk.goal('script-args: a #! line is honoured', bool(st['shebang']))
        argv = list(w.exec_argv)
        if st['shebang']:
            if argv[:2] != [b'/usr/bin/env', b'python3']:
                return cand('interpreter', 'the #! interpreter line is not used: %r' % (argv[:3],))
            rest = argv[2:]
        else:
            # always `sh -e` (a failing command, e.g. a failing redo-ifchange, must end the script), plus v / x when asked for
            want0 = [b'sh', b'-e' + (b'v' if st['verbose'] else b'') + (b'x' if st['xtrace'] else b'')]
            if argv[:2] != want0:
                return cand('shell', 'shell invocation is %r, expected %r' % (argv[:2], want0))
            rest = argv[2:]
        if len(rest) != 4:
            return cand('argc', 'the script gets %d arguments instead of script + $1 $2 $3' % (len(rest) - 1))
        script, g1, g2, g3 = rest
        child_cwd = w.child_cwd if w.child_cwd is not None else w.cwd
        if child_cwd != cwd:
            return cand('cwd', 'the script runs in %r, its own directory is %r' % (child_cwd, cwd))
        if child_cwd + b'/' + script != BASE + b'/' + dofile:
            return cand('script', 'the script executed is %r in %r, the chosen one is %r' % (script, child_cwd, dofile))
        if g1 != a1:
            return cand('arg1', '$1 is %r, the target relative to the script directory is %r' % (g1, a1))
        if g2 != a2:
            return cand('arg2', '$2 is %r, $1 without the matched extension is %r' % (g2, a2))
        # $3: beside the target, not the target itself
        import posixpath
        full3 = posixpath.normpath((child_cwd + b'/' + g3).decode('latin-1'))
        fullt = posixpath.normpath((BASE + b'/' + tname).decode('latin-1'))
        if posixpath.dirname(full3) != posixpath.dirname(fullt) or full3 == fullt:
            return cand('arg3', '$3 is %r (= %s), not a temporary name beside the target %s' % (g3, full3, fullt))
        if bytes(w.envmap.get('REDO_TARGET', b'')) != a1:
            return cand('env-target', 'REDO_TARGET is %r, expected %r' % (bytes(w.envmap.get('REDO_TARGET', b'')), a1))
        cyc = bytes(w.envmap.get('REDO_CYCLES', b'')).split(b':')
        if str(T_ID).encode() not in cyc:
            return cand('cycles', 'the lock id of the job is not added to REDO_CYCLES before exec (%r)' % (cyc,))
        return None

    def sample(outcome, val, path):
        w = st['w']
        return {'target': st['shape'][0].decode(), 'do_file': st['shape'][1].decode(), 'cwd': (w.child_cwd or b'').decode(),
                'argv': [a.decode('latin-1') for a in (w.exec_argv or [])]}

    chk.explore('script invocation: cwd, argv, $1 $2 $3, environment (child closure up to execvp)', run, judge, sample)


# ------------------------------------------------------------------------------------------------ temp names are per target (C04)
def tmp_names_distinct(chk, pid):
    """two different targets never share the temporary output name ($3 / the stdout copy): builds of sibling targets overlap in
    time (parallel, or nested through redo-ifchange inside a script), and each start removes "its" stale temp file"""
    eng = chk.eng
    install_job_stubs(eng)
    eng.stubs['ProcessState::is_flushed'] = lambda e, ci, a, sp: True
    PAIRS = [((b'x.c', b'default.c.do'), (b'x.h', b'default.h.do')),
             ((b'x.c', b'default.c.do'), (b'x', b'default.do')),
             ((b'd/x.c', b'default.c.do'), (b'd/x.h', b'd/default.h.do'))]
    st = {}

    def run():
        pair = PAIRS[eng.choose(len(PAIRS), 'pair of targets')]
        R = z3.Int('R')
        w = BuildWorld(eng, R)
        eng.world = w
        eng.assume(z3.And(R > 1, R < (1 << 62)))
        w.fs[tuple(b'd')] = tuple(S_DIR)
        w.do_firstline = b'echo hi\n'
        w.canonicalize = lambda e, p_: ok(Vec(list(bytes(deref_all(p_).items)), 'PathBuf'))
        w.run_child = True
        env = dbmodel.make_env(eng, R, log=0)
        psr = new_cell(dbmodel.make_process_state(eng, env))
        out = []
        for i, (tname, dofile) in enumerate(pair):
            w.add_file(T_ID + i, tname)
            w.fs[tuple(tname)] = None
            w.fs[tuple(dofile)] = tuple(S1)
        for i, (tname, dofile) in enumerate(pair):
            w.child_cwd, w.exec_argv, w.child_rv = None, None, None
            ptx = dbmodel.begin(eng, psr)
            ptxr = new_cell(ptx)
            if run_sets_commit_on_drop(eng):
                eng.call('ProcessTransaction::set_drop_behavior', [ptxr, Enum('DropBehavior', 'Commit')], None, None)
            job = make_job(eng, w, ptxr, target_id=T_ID + i, name=tname)
            ps_rc = new_cell(Struct('RefCell', [psr, 0]))
            r = eng.call('BuildJob::start_self', [job, ps_rc, ptxr.get(), new_cell(Opaque('JobServerHandle', None)), none()], None, None)
            if r.var != 'Ok' or not w.exec_argv:
                raise Unsupported('job %r did not reach execvp: %r' % (tname, r))
            import posixpath
            cwd = (w.child_cwd if w.child_cwd is not None else w.cwd).decode()
            out.append((tname.decode(), posixpath.normpath(posixpath.join(cwd, w.exec_argv[-1].decode()))))
        st['out'] = out
        st['pair'] = pair
        return out

    def judge(outcome, val, path):
        if outcome != 'ok':
            return {'role': 'tmp-names:' + outcome, 'kind': 'none', 'what': 'temp names: %s %s' % (outcome, getattr(val, 'msg', val)), 'witness': {}}
        (t1, p1), (t2, p2) = val
        chk.goal('tmp names: two default.<ext>.do targets with the same base name', t1 == 'x.c' and t2 == 'x.h')
        targets = {'/p/' + t1, '/p/' + t2}
        bad = None
        if p1 == p2:
            bad = 'targets %s and %s share the temporary output file %s' % (t1, t2, p1)
        elif p1 in targets or p2 in targets:
            bad = 'a temporary output name equals a target name (%s, %s)' % (p1, p2)
        if bad:
            return {'role': 'tmp-names-shared', 'kind': 'tmpname', 'what': bad, 'witness': {'targets': [t1, t2], 'tmp': [p1, p2]}}
        return None

    chk.explore('temporary output names of different targets differ', run, judge)


TMPNAME_SCENARIO = r"""
set -u
mkdir proj && cd proj
# x.c's script starts writing $3, then needs x.h (built by a sibling default rule with the same base name), then finishes $3
printf 'echo first > $3\nredo-ifchange $2.h\necho second >> $3\n' > default.c.do
printf 'echo header > $3\n' > default.h.do
redo-ifchange x.c > ../log 2>&1; echo "rc=$?"
echo "xc=$(tr '\n' '+' < x.c 2>/dev/null || echo MISSING)"
echo "xh=$(tr '\n' '+' < x.h 2>/dev/null || echo MISSING)"
"""


def tmpname_replay(scn, c):
    rc, out = scn.run({}, TMPNAME_SCENARIO, timeout=120)
    c['scenario_output'] = out[-1200:]
    lines = dict(l.split('=', 1) for l in out.split('\n') if '=' in l)
    bad = lines.get('rc') == '0' and (lines.get('xc') != 'first+second+' or lines.get('xh') != 'header+')
    return bad, 'real binaries, nested build of two default.<ext>.do targets with the same base name: %r' % (lines,)


# ------------------------------------------------------------------------------------------------ job completion in builder::run
def job_completion_blocks(chk, pid):
    """builder::run (a lowered coroutine that is not executed) wraps every started job in `async { let rv = job.await; if rv != 0
    { result.set(Err(..)) } }`.  These async blocks are ordinary MIR bodies: each is polled with a job that finishes with an
    ARBITRARY i32 status (a script killed by a signal is reported as a negative number) and must record an error for every
    status other than 0 - otherwise the command exits 0 although a script it needed did not succeed."""
    eng = chk.eng
    names = [n for n in eng.bodies if n.startswith('run::{closure#0}::{closure#') and eng.body(n).argtys and
             'async block@src/builder.rs' in eng.body(n).argtys[0][1] and 'Poll<()>' in (eng.body(n).ret or '')]
    if not names:
        chk.inconclusive.append('job completion blocks of builder::run not identified in the MIR')
        return
    for nm in sorted(names):
        st = {}

        def run(nm=nm):
            rv = z3.BitVec('job_rv', 32)
            st['rv'] = rv
            job = Struct('Pin', [new_cell(Struct('Ready', [some(rv)]))])
            cell = Struct('Cell', [ok(UNIT)])
            st['cell'] = cell
            co = Coroutine(nm, [job, new_cell(cell), Vec(list(b'tgt'), 'String')])
            cx = new_cell(Struct('Context', [Opaque('Waker', 'noop')]))
            return eng.run_body(eng.body(nm), [Struct('Pin', [new_cell(co)]), cx])

        def judge(outcome, val, path, nm=nm):
            if outcome != 'ok':
                return {'role': 'job-completion:' + outcome, 'kind': 'none', 'what': 'job completion block %s: %s %s' % (nm, outcome, getattr(val, 'msg', val)),
                        'witness': {}}
            rv, cell = st['rv'], st['cell']
            res = cell.f[0]
            is_err = isinstance(res, Enum) and res.var == 'Err'
            chk.goal('job completion: a non-zero status is met', eng.check(rv != 0))
            chk.goal('job completion: a negative status (signal) is met', eng.check(rv < 0))
            if not is_err and eng.check(rv != 0):
                # prefer a status a real script can end with: killed by signal 1..31 (negative) or exit 1..255
                m = eng.model(z3.And(rv < 0, rv >= -31, rv != -19, rv != -17)) or eng.model(z3.And(rv > 0, rv <= 255)) or eng.model(rv != 0)
                v = m.eval(rv, model_completion=True).as_signed_long()
                return {'role': 'job-completion:failure-not-reported', 'kind': 'jobstatus',
                        'what': 'a job that ends with status %d is not turned into an error of the command (%s)' % (v, nm),
                        'witness': {'status': v, 'block': nm}}
            if is_err and eng.check(rv == 0):
                return {'role': 'job-completion:success-reported-as-failure', 'kind': 'none', 'what': 'status 0 is reported as an error', 'witness': {}}
            return None

        chk.explore('builder::run job completion block %s: every non-zero status is an error' % nm.split('::')[-1], run, judge)


SIGNAL_SCENARIO = r"""
set -u
mkdir proj && cd proj
printf 'redo-ifchange dep\ncat dep\n' > top.do
printf 'redo-ifchange src\n@KILL@\ncat src\n' > dep.do
echo v1 > src
redo-ifchange top > ../log1 2>&1 || { echo SETUP-FAILED; exit 97; }
sleep 0.05
echo v2 > src
: > ../die-now
redo-ifchange top > ../log2 2>&1; echo "rc=$?"
echo "dep=$(cat dep 2>/dev/null || echo MISSING)"
echo "top=$(cat top 2>/dev/null || echo MISSING)"
"""


def jobstatus_replay(scn, c):
    v = c['witness']['status']
    kill = 'if [ -e ../die-now ]; then rm -f ../die-now; kill -%d $$; fi' % (-v) if v < 0 else 'if [ -e ../die-now ]; then rm -f ../die-now; exit %d; fi' % (v & 255)
    rc, out = scn.run({}, SIGNAL_SCENARIO.replace('@KILL@', kill), timeout=120)
    c['scenario_output'] = out[-1200:]
    if 'SETUP-FAILED' in out:
        return False, 'scenario could not be set up'
    lines = dict(l.split('=', 1) for l in out.split('\n') if '=' in l)
    bad = lines.get('rc') == '0' and lines.get('dep') != 'v2'
    return bad, 'real binaries, dep.do ends with status %d during a rebuild: redo-ifchange top exits %s, dep=%r top=%r' % (
        v, lines.get('rc'), lines.get('dep'), lines.get('top'))
