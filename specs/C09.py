#!/usr/bin/env python3-vt
"""C09 - no interleaving crashes or deadlocks the scheduler: jobserver state machine (see specs/jobcheck.py, DESIGN.md §5 C09)"""
import os, sys
sys.path.insert(0, os.path.dirname(os.path.dirname(os.path.abspath(__file__))))
from specs import jobcheck
jobcheck.main("C09")
