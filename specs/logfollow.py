"""C18, first half, for one follower: the real `LogState::catlog` (redo-log / the live viewer of a top-level redo) reads the log
file of a target while the script is still writing it.  The log's content is a list of lines whose bytes are symbolic; the
writer delivers it in arbitrary pieces (every split of every line into <= 3 fragments, every number of pieces appended between
two reads, "nothing new yet" polls in between), optionally with a nested target whose own log is followed recursively.
Obligation: what the follower hands to `logs::write` (plus a final unterminated fragment) is exactly the written lines, once
each, in order, the nested target's lines in between where its `do` record stands."""
import itertools

import z3
from mirsym.values import *
from mirsym.summaries.core import ok, err, some, none, deref_all, format_arguments
from mirsym.summaries.env import io_error
from specs import dbmodel
from specs.dbmodel import DBWorld, BASE, S1

X_ID, SUB_ID = 2, 3
LOG_LOCK_MAGIC = 0x10000000


class LogWorld(DBWorld):
    def __init__(self, eng, runid, opts):
        DBWorld.__init__(self, eng, runid)
        self.opts = opts
        self.logs = {}              # fid -> {'pieces': [...], 'written': n, 'exited': bool}
        self.out = []               # ('write', items) | ('meta', kind, text) | ('print', items)
        self.reads = 0
        self.max_reads = 40

    def add_log(self, fid, pieces, mode='all'):
        """mode: 'all' = the log is complete and its writer gone; 'piece' = every read finds exactly one more piece;
        'piece-idle' = in between, one read finds nothing new although the writer is still alive"""
        self.logs[fid] = {'pieces': pieces, 'written': len(pieces) if mode == 'all' else 0, 'exited': mode == 'all', 'mode': mode,
                          'tick': 0}

    # ---- the writer
    def writer_progress(self, eng, fid):
        lg = self.logs[fid]
        if lg['mode'] == 'all':
            return
        lg['tick'] += 1
        rem = len(lg['pieces']) - lg['written']
        if rem > 0:
            if lg['mode'] == 'piece' or lg['tick'] % 2 == 1:
                lg['written'] += 1
        elif not lg['exited']:
            # everything is written; the writer exits before the next poll ('piece') or one poll later ('piece-idle')
            if lg['mode'] == 'piece' or lg.get('drained'):
                lg['exited'] = True
            lg['drained'] = True

    def content(self, fid):
        lg = self.logs[fid]
        out = []
        for p in lg['pieces'][:lg['written']]:
            out.extend(p)
        return out

    # ---- syscalls
    def file_open(self, eng, path, sp):
        b = bytes(deref_all(path).items)
        tail = b.rsplit(b'/', 1)[-1]
        if not tail.startswith(b'log.'):
            raise Unsupported('open of %r' % b)
        fid = int(tail[4:])
        if fid not in self.logs:
            return err(io_error('NotFound'))
        self.ev('open-log', fid=fid)
        return ok(Opaque('fs::File', {'kind': 'log', 'fid': fid, 'pos': 0}))

    def read_line(self, eng, reader, buf, sp):
        self.reads += 1
        if self.reads > self.max_reads:
            from mirsym.engine import BoundExceeded
            raise BoundExceeded('more than %d read_line calls' % self.max_reads)
        r = deref_all(reader)
        f = deref_all(r.f[0]) if isinstance(r, Struct) else r
        d = f.data
        fid = d['fid']
        self.writer_progress(eng, fid)
        c = self.content(fid)
        unread = c[d['pos']:]
        n = 0
        for x in unread:
            n += 1
            if isinstance(x, int) and x == 10:
                break
        got = unread[:n]
        d['pos'] += n
        deref_all(buf).items.extend(got)
        self.ev('read_line', fid=fid, n=n, newline=bool(got) and got[-1] == 10)
        return ok(n)

    def fcntl(self, eng, fd, arg, sp):
        a = deref_all(arg)
        kind = a.var if isinstance(a, Enum) else a.name
        fl = deref_all(a.f[0])
        names = eng.src.structs.get('flock') or ['l_type', 'l_whence', 'l_start', 'l_len', 'l_pid']
        f = dict(zip(names, fl.f))
        ltype = eng.concrete(f['l_type'], 'l_type')
        fid = eng.concrete(f['l_start'], 'l_start')
        if ltype == 2 or kind == 'F_SETLKW' or fid >= LOG_LOCK_MAGIC:
            return ok(0)
        # the probe of is_locked(): the target's own lock is held by its builder until the script has exited
        lg = self.logs.get(fid)
        busy = lg is not None and not lg['exited']
        self.ev('is_locked', fid=fid, busy=busy)
        return err(Enum('Errno', 'EAGAIN')) if busy else ok(0)

    def sleep(self, eng, d, sp):
        self.ev('sleep')

    def getenv(self, eng, k, os_string=True):
        self.ev('getenv', key=repr(k)[:40])
        return none() if os_string else err(Enum('VarError', 'NotPresent'))


def install(eng):
    dbmodel.install_stubs(eng)
    s = eng.summaries
    s['File::open'] = lambda e, ci, a, sp: e.world.file_open(e, a[0], sp)
    s['fs::File::open'] = s['File::open']
    s['BufReader::new'] = lambda e, ci, a, sp: Struct('BufReader', [a[0]])
    s['BufRead::read_line'] = lambda e, ci, a, sp: e.world.read_line(e, a[0], a[1], sp)
    s['ArgMatches::is_present'] = lambda e, ci, a, sp: bool(e.world.opts.get(bytes(deref_all(a[1]).items).decode(), False))
    s['stdin'] = lambda e, ci, a, sp: Opaque('Stdin', None)
    s['io::stdin'] = s['stdin']
    s['io::stdout'] = lambda e, ci, a, sp: Opaque('Stdout', None)
    s['stdout'] = s['io::stdout']
    s['Write::flush'] = lambda e, ci, a, sp: ok(UNIT)
    s['io::_eprint'] = lambda e, ci, a, sp: UNIT
    s['_eprint'] = s['io::_eprint']
    s['io::_print'] = lambda e, ci, a, sp: (e.world.out.append(('print', list(format_arguments(e, a[0])))), UNIT)[1]
    s['_print'] = s['io::_print']
    s['dimensions_stderr'] = lambda e, ci, a, sp: none()
    s['term_size::dimensions_stderr'] = s['dimensions_stderr']
    s['AsRawFd::as_raw_fd'] = lambda e, ci, a, sp: 9
    s['drop fs::File'] = lambda e, v: None
    s['drop Rc<LockManager>'] = lambda e, v: None
    eng.stubs['tty_width'] = lambda e, ci, a, sp: 70
    eng.stubs['log::tty_width'] = eng.stubs['tty_width']

    def logs_write(e, ci, a, sp):
        e.world.out.append(('write', list(deref_all(a[0]).items)))
        return UNIT

    def logs_meta(e, ci, a, sp):
        e.world.out.append(('meta', bytes(deref_all(a[0]).items).decode(), list(deref_all(a[1]).items)))
        return UNIT
    for k in ('logs::write', 'write'):
        eng.stubs[k] = logs_write
    for k in ('logs::meta', 'meta'):
        eng.stubs[k] = logs_meta
    eng.stubs['logs::set_depth'] = lambda e, ci, a, sp: UNIT
    eng.stubs['set_depth'] = eng.stubs['logs::set_depth']
    eng.stubs['logs::reduce_depth'] = lambda e, ci, a, sp: 0
    eng.stubs['reduce_depth'] = eng.stubs['logs::reduce_depth']


def splits(line, maxparts):
    """every way of cutting `line` (a list of byte terms ending in 10) into 1..maxparts non-empty pieces"""
    n = len(line)
    out = []
    for k in range(1, maxparts + 1):
        for cuts in itertools.combinations(range(1, n), k - 1):
            b = [0] + list(cuts) + [n]
            out.append([line[b[i]:b[i + 1]] for i in range(k)])
    return out


def follower_facts(chk):
    eng = chk.eng
    install(eng)
    name = [n for n in eng.bodies if n.endswith('::catlog')]
    if len(name) != 1:
        chk.inconclusive.append('LogState::catlog not identified in the bin MIR (%r)' % (name,))
        return
    LL = 3 if chk.thorough() else 2
    NL = 2
    MAXP = 3
    chk.bounds['follower'] = {'lines_per_log': NL, 'bytes_per_line': LL, 'fragments_per_line': '1..%d (every cut)' % MAXP,
                              'nested_targets': 1, 'alphabet': 'symbolic ASCII without newline, "@" and white space',
                              'options': '--follow --recursive (as the live viewer runs it), --no-status'}
    chk.assumptions += [
        'follower: one writer per log file, appending; BufRead::read_line returns the unread bytes up to and including the first newline, '
        'or all unread bytes if there is none yet, or nothing',
        'follower: the builder keeps the target\'s lock until the script has exited (C06); is_locked() probes that lock',
        'follower: the text of plain lines contains no "@" (so it is not a record), no white space (clean_line is the identity); record '
        'parsing and clean_line are decided separately (codec obligations)',
    ]
    st = {}

    def sym_line(tag):
        bs = [z3.BitVec('%s%d' % (tag, i), 8) for i in range(LL)]
        for b in bs:
            eng.assume(z3.And(z3.UGT(b, 32), z3.ULT(b, 0x7f), b != 64))
        return bs + [10]

    def run():
        # 0: plain lines only; 1: a `do` record for a nested target; 2: an `unchanged` record for it first (another dependent found it
        # up to date - without --unchanged the viewer ignores such records), then the `do` record
        nested = eng.choose(3, 'a nested target')
        w = LogWorld(eng, 10, {'follow': True, 'recursive': True, 'no-status': True})
        eng.world = w
        w.add_file(X_ID, b'x', is_generated=True, stamp=tuple(S1), changed_runid=5)
        w.add_file(SUB_ID, b'sub', is_generated=True, stamp=tuple(S1), changed_runid=5)
        lines = [sym_line('x%d_' % i) for i in range(NL)]
        pieces = []
        frag = []
        for i, ln in enumerate(lines):
            sp = splits(ln, MAXP)
            k = eng.choose(len(sp), 'fragmentation of line %d' % i)
            frag.append([len(p) for p in sp[k]])
            pieces.extend(sp[k])
        expect = [('write', ln) for ln in lines]
        sublines = []
        if nested:
            # "@@REDO:do:<pid>:<time>@@ sub" after the first line; sub's log is complete or still growing
            rec = list(b'@@REDO:do:77:1.5@@ sub\n')
            cut = eng.choose(3, 'fragmentation of the record')
            recp = [rec] if cut == 0 else ([rec[:9], rec[9:]] if cut == 1 else [rec[:-1], rec[-1:]])
            n0 = frag[0]
            pos = len(n0)
            if nested == 2:
                recp = [list(b'@@REDO:unchanged:76:1.4@@ sub\n')] + recp
            pieces[pos:pos] = recp
            sublines = [sym_line('s%d_' % i) for i in range(2)]
            sp = splits(sublines[0], MAXP)
            k = eng.choose(len(sp), 'fragmentation of the nested line')
            w.add_log(SUB_ID, sp[k] + [sublines[1]], mode=('all', 'piece')[eng.choose(2, 'nested log still growing')])
            expect = [('write', lines[0]), ('meta', 'do')] + [('write', l) for l in sublines] + [('write', l) for l in lines[1:]]
        w.add_log(X_ID, pieces, mode=('all', 'piece', 'piece-idle')[eng.choose(3, 'writer timing')])
        st.update(w=w, lines=lines, frag=frag, expect=expect, nested=nested, sublines=sublines)
        ps = dbmodel.make_process_state(eng, dbmodel.make_env(eng, 10, log=1))
        ls = dbmodel.mk(eng, 'LogState', already=Map('HashSet'), depth=Vec([], 'Vec<String>'), total_lines=0,
                        status=Vec([], 'String'), start_time=Struct('Instant', [0]))
        t = Struct('RedoPathBuf', [Vec(list(b'x'), 'String')])
        r = eng.run_body(eng.body(name[0]), [new_cell(ls), new_cell(ps), new_cell(Opaque('ArgMatches', None)), False, new_cell(t)])
        return r

    def judge(outcome, val, path):
        w = st['w']
        wit = {'op': 'follower', 'fragments': st['frag'], 'nested': bool(st['nested']), 'nested_kind': st['nested'],
               'reads': [(d['fid'], d['n'], d['newline']) for k, d in w.log if k == 'read_line']}
        if outcome == 'panic':
            return {'role': 'follower:panic', 'kind': 'follower', 'witness': wit, 'what': 'the log follower aborts: %s' % val.msg}
        if outcome != 'ok':
            return None
        if val.var != 'Ok':
            return {'role': 'follower:error', 'kind': 'follower', 'witness': wit, 'what': 'catlog fails: %r' % (val,)}
        got = [o for o in w.out if o[0] in ('write', 'print') or (o[0] == 'meta' and o[1] == 'do')]
        exp = st['expect']
        chk.goal('follower: a line arrives in three fragments', any(len(f) == 3 for f in st['frag']))
        chk.goal('follower: a read returns nothing while the writer is alive', any(k == 'read_line' and d['n'] == 0 for k, d in w.log) and
                 any(k == 'is_locked' and d['busy'] for k, d in w.log))
        chk.goal('follower: a nested target is followed', bool(st['nested']))
        chk.goal('follower: an `unchanged` record precedes the `do` record of the same target', st['nested'] == 2)
        bad = None
        if len(got) != len(exp):
            bad = 'it emits %d lines / records, %d were written' % (len(got), len(exp))
        else:
            for i, (g, e) in enumerate(zip(got, exp)):
                if e[0] == 'meta':
                    if g[0] != 'meta':
                        bad = 'item %d should be the "do" record of the nested target' % i
                        break
                    continue
                if g[0] != 'write':
                    bad = 'item %d is %s, expected a line' % (i, g[0])
                    break
                a, b = g[1], e[1]
                if len(a) != len(b):
                    bad = 'line %d has %d bytes, %d were written' % (i, len(a), len(b))
                    break
                diff = [to_bv(x, 8) != to_bv(y, 8) for x, y in zip(a, b) if not (isinstance(x, int) and isinstance(y, int) and x == y)]
                if any(isinstance(x, int) and isinstance(y, int) and x != y for x, y in zip(a, b)) or (diff and eng.check(z3.Or(diff))):
                    bad = 'line %d differs from what was written' % i
                    break
        if bad:
            return {'role': 'follower:lines-' + ('lost-or-duplicated' if 'emits' in bad else 'altered'), 'kind': 'follower', 'witness': wit,
                    'what': 'log follower (--follow --recursive): %s; line fragments %r, nested=%s' % (bad, st['frag'], bool(st['nested']))}
        return None

    def sample(outcome, val, path):
        w = st['w']
        return {'fragments': st['frag'], 'nested': bool(st['nested']), 'reads': len([1 for k, d in w.log if k == 'read_line'])}

    chk.explore('log follower: LogState::catlog over a log that is being written', run, judge, sample)


FOLLOW_FILES = {
    'sub.do': 'printf "one " >&2\nsleep 1\nprintf "two " >&2\nsleep 1\nprintf "three\\n" >&2\necho sub\n',
    'all.do': 'echo before >&2\nredo-ifchange sub\necho after >&2\n',
}
FOLLOW_SCRIPT = ('redo --no-status --no-color --no-pretty -j1 all >live.out 2>live.err; rc=$?; cat live.err | tail -12; '
                 'n=$(grep -c "one two three" live.err); m=$(redo-log --no-pretty --no-color -r all 2>&1 | grep -c "one two three"); '
                 'if [ "$n" -ne 1 ] || [ "$m" -ne 1 ]; then echo "REPRODUCED: a stderr line written in three pieces appears $n time(s) '
                 'in the live output and $m time(s) in redo-log -r (expected once each), exit $rc"; else echo "line intact in both"; fi')


FOLLOW2_FILES = {
    # b (followed first) finds c already built by a: its log gets an `unchanged c` record before the viewer has seen c's own `do`
    'c.do': 'echo c-line-1 >&2\necho c-line-2 >&2\necho c\n',
    'a.do': 'redo-ifchange c\n: > a.done\nsleep 1\necho a\n',
    'b.do': 'n=0; while [ ! -e a.done ] && [ $n -lt 100 ]; do sleep 0.1; n=$((n+1)); done\nredo-ifchange c\necho b\n',
    'all.do': 'redo-ifchange b a\n',
}
FOLLOW2_SCRIPT = ('timeout 60 redo --no-status --no-color --no-pretty -j3 all >live.out 2>live.err; rc=$?; tail -8 live.err | cut -c1-120; '
                  'n=$(grep -c "c-line-1" live.err); m=$(redo-log --no-pretty --no-color -r all 2>&1 | grep -c "c-line-1"); '
                  'if [ "$n" -ne 1 ] || [ "$m" -ne 1 ]; then echo "REPRODUCED: the stderr line of c.do appears $n time(s) in the live output '
                  'and $m time(s) in redo-log -r all (expected once each), exit $rc"; else echo "line shown once in both"; fi')


def replay(scn, c):
    w = c.get('witness') or {}
    files, script = (FOLLOW2_FILES, FOLLOW2_SCRIPT) if w.get('nested_kind') == 2 and 'lost-or-duplicated' in c.get('role', '') else \
        (FOLLOW_FILES, FOLLOW_SCRIPT)
    rc, out = scn.run(files, script, timeout=120)
    c['native_scenario'] = {'files': files, 'script': script}
    return 'REPRODUCED' in out, 'real binaries: ' + out.strip()[-500:]
