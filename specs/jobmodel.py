"""Shared by C08 / C09: environment model (pipes, children, clock, select) for the jobserver, construction of a JobServer in a
given state, and the bounded most-general client that drives the real `JobServer::block_on` with the call patterns of
`builder::run`.
"""
import z3
from mirsym.values import *
from mirsym.engine import PyCallable
from mirsym.summaries.core import some, none, ok, err, deref_all
from mirsym.summaries.env import World
from mirsym.summaries.sysenv import errno

TOKEN_R, TOKEN_W, CHEAT_R, CHEAT_W = 100, 101, 102, 103


class Hang(Exception):
    """the process blocks in select() forever: nothing it waits for can ever become ready"""


class JobWorld(World):
    def __init__(self, eng, pipe_tokens, others, adv_budget=1, allow_steal=True, max_wakeups=8, status_values=(0, 1),
                 max_timeouts=1):
        self.eng = eng
        self.P = pipe_tokens          # bytes in the token pipe
        self.X = 0                    # bytes in the cheat pipe
        self.others = others          # tokens currently held by other processes of the same jobserver (adversary)
        self.adv_budget = adv_budget  # how many spontaneous adversary moves may happen on one path
        self.allow_steal = allow_steal
        self.children = []
        self.next_fd = 50
        self.next_pid = 1000
        self.clock = 0
        self.nclock = 0
        self.wakeups = 0
        self.max_wakeups = max_wakeups
        self.max_timeouts = max_timeouts
        self.timeouts = 0
        self.cheater_children = True
        self.status_values = status_values
        self.last_pipe = None
        self.select_budget = 0
        # ghost ledger
        self.reaped = 0
        self.eaten = 0
        self.started = 0
        self.token_reads = 0
        self.max_running = 0
        self.log = []

    # ---- helpers
    def running(self):
        return [c for c in self.children if c['state'] == 'running']

    def ev(self, ev_kind, **kw):
        self.log.append((ev_kind, kw))
        self.eng.event(ev_kind, **kw)

    def adversary(self, where):
        """other processes sharing the jobserver may put a token back or take one, at any time"""
        if self.adv_budget <= 0:
            return
        opts = ['none']
        if self.others > 0:
            opts.append('release')
        if self.P > 0 and self.allow_steal:
            opts.append('take')
        if len(opts) == 1:
            return
        k = self.eng.choose(len(opts), 'adversary@' + where)
        if opts[k] == 'release':
            self.others -= 1
            self.P += 1
            self.adv_budget -= 1
            self.ev('adv-release')
        elif opts[k] == 'take':
            self.others += 1
            self.P -= 1
            self.adv_budget -= 1
            self.ev('adv-take')

    # ---- time
    def now(self, eng):
        # time advances only while the process is blocked (select / thread::sleep): computation between two blocking calls
        # is assumed to take less than the shortest timer (10 ms)
        return Struct('Instant', [self.clock])

    def advance(self, eng, at_least):
        from mirsym.summaries.sysenv import tval
        self.nclock += 1
        t = z3.Int('clock!%d' % self.nclock)
        eng.assume(t >= self.clock + tval(at_least))
        self.clock = t

    def sleep(self, eng, d, sp):
        # block_on sleeps (instead of selecting) only when it believes there is no I/O to wait for.  If a token is readable the
        # whole time and the process keeps sleeping, it never makes progress: a livelock, reported as a hang
        self.idle_sleeps = self.__dict__.get('idle_sleeps', 0) + 1
        self.ev('thread::sleep')
        waiting = True
        ss = self.__dict__.get('server_state')
        if ss is not None:
            try:
                tw = state_fields(eng, ss)['token_wakers']
                waiting = len(getattr(tw, 'items', [1])) > 0       # somebody in this process is waiting for a token
            except Exception:
                waiting = True
        if self.idle_sleeps > 4 and self.P > 0 and waiting:
            raise Hang('thread::sleep %d times in a row without ever selecting on the token pipe, which holds %d token(s)' % (
                self.idle_sleeps, self.P))
        self.advance(eng, d.f[0])

    # ---- syscalls
    def select(self, eng, rset, timeout, sp):
        self.idle_sleeps = 0
        self.wakeups += 1
        if self.wakeups > self.max_wakeups:
            from mirsym.engine import BoundExceeded
            raise BoundExceeded('more than %d wake-ups' % self.max_wakeups)
        fds = list(rset.f[0]) if rset is not None else []
        self.adversary('select')
        # children whose pipe we watch may have exited since the last wake-up.  Children are indistinguishable in this model,
        # so instead of every subset we explore every *number* of exits (lowest descriptors first).
        watched = [c for c in self.running() if c['fd'] in fds]
        if watched:
            # "none of them yet" is a distinct case only if something else can end this select(): a readable token, an exited child not
            # yet reaped, or a timeout; otherwise it is the same as "the first one exits" (the forced case below)
            other = (TOKEN_R in fds and self.P > 0) or (timeout is not None and self.timeouts < self.max_timeouts) or \
                any(c['state'] == 'exited' and c['fd'] in fds for c in self.children)
            lo = 0 if other else 1
            k = lo + eng.choose(len(watched) + 1 - lo, 'how many children exited')
            for c in watched[:k]:
                self.child_exit(c)
        ready = [c['fd'] for c in self.children if c['state'] == 'exited' and c['fd'] in fds]
        if TOKEN_R in fds and self.P > 0:
            ready.append(TOKEN_R)
        if not ready:
            if timeout is not None and self.timeouts < self.max_timeouts:
                self.timeouts += 1
                d = timeout.data.f[0] if isinstance(timeout, Opaque) else 0
                self.advance(eng, d)
                self.ev('select-timeout')
                rset.f[0] = []
                return ok(0)
            # blocking select: something must eventually happen
            cands = [c for c in self.running() if c['fd'] in fds]
            if cands:
                self.child_exit(cands[0], forced=True)
                ready = [cands[0]['fd']]
            elif TOKEN_R in fds and self.others > 0:
                self.others -= 1
                self.P += 1
                self.ev('adv-release', forced=True)
                ready = [TOKEN_R]
            else:
                raise Hang('select() on %r with no timeout: no child is running and no other process holds a token' % (fds,))
        else:
            self.advance(eng, 0)
        rset.f[0] = sorted(ready)
        self.ev('select', ready=sorted(ready))
        return ok(len(ready))

    def child_exit(self, c, forced=False):
        c['state'] = 'exited'
        kind = 'proper'
        if self.cheater_children and self.eng.choose(2, 'child kind') == 1:
            # a child that gave its own token back to the pipe and ran on a borrowed slot: it leaves a cheat byte
            kind = 'cheater'
            self.P += 1
            self.X += 1
        c['kind'] = kind
        self.ev('child-exit', pid=c['pid'], kind=kind, forced=forced)

    def fork(self, eng, sp):
        pid = self.next_pid
        self.next_pid += 1
        fd = self.last_pipe[0] if self.last_pipe else -1
        self.children.append({'pid': pid, 'fd': fd, 'state': 'running', 'status': None})
        self.started += 1
        self.max_running = max(self.max_running, len(self.running()))
        self.ev('fork', pid=pid, fd=fd)
        return ok(Enum('ForkResult', 'Parent', [Struct('Pid', [pid])]))

    def close(self, eng, fd, sp):
        return ok(UNIT)

    def waitpid(self, eng, pid, opts, sp):
        p = pid.f[0].f[0] if isinstance(pid, Enum) and pid.var == 'Some' else None
        for c in self.children:
            if c['pid'] == p:
                if c['state'] == 'running':
                    raise Unsupported('waitpid on a running child would block')
                c['state'] = 'reaped'
                st = eng.fresh('status', 'i32')
                eng.assume(z3.Or([st == v for v in self.status_values]))
                c['status'] = st
                self.reaped += 1
                self.ev('waitpid', pid=p)
                return ok(Enum('WaitStatus', 'Exited', [Struct('Pid', [p]), st]))
        raise Unsupported('waitpid on unknown pid %r' % (p,))

    def write(self, eng, fd, buf, sp):
        n = len(deref_all(buf).items)
        fd = eng.concrete(fd, 'fd')
        if fd == TOKEN_W:
            self.P += n
        elif fd == CHEAT_W:
            self.X += n
        else:
            raise Unsupported('write to fd %d' % fd)
        self.ev('write', fd=fd, n=n)
        return ok(n)

    # ---- stubs for in-crate thin syscall wrappers
    def try_read(self, eng, fd, buf):
        fd = eng.concrete(fd, 'fd')
        cap = len(deref_all(buf).items)
        if fd == TOKEN_R:
            if self.P == 0:
                return ok(none())
            if self.allow_steal and self.adv_budget > 0 and eng.choose(2, 'token stolen before read?') == 1:
                self.P -= 1
                self.others += 1
                self.adv_budget -= 1
                self.ev('adv-steal')
                return ok(none())
            n = min(cap, self.P)
            self.P -= n
            self.token_reads += n
            self.ev('read-token', n=n)
            return ok(some(n))
        if fd == CHEAT_R:
            if self.X == 0:
                return ok(none())
            n = min(cap, self.X)
            self.X -= n
            self.eaten += n
            self.ev('read-cheat', n=n)
            return ok(some(n))
        if fd in (TOKEN_W, CHEAT_W):
            # the write end of a pipe never becomes readable: select() reports nothing, try_read answers None
            self.ev('read-on-write-end', fd=fd)
            return ok(none())
        raise Unsupported('try_read on fd %d' % fd)

    def write_tokens(self, eng, fd, n):
        fd = eng.concrete(fd, 'fd')
        n = eng.concrete(n, 'n')
        if fd == TOKEN_W:
            self.P += n
        elif fd == CHEAT_W:
            self.X += n
        else:
            raise Unsupported('write_tokens to fd %d' % fd)
        self.ev('write-tokens', fd=fd, n=n)
        return ok(UNIT)

    def make_pipe(self, eng, startfd):
        r, w = self.next_fd, self.next_fd + 1
        self.next_fd += 2
        self.last_pipe = (r, w)
        return ok(Struct('()', [r, w]))


def install_stubs(eng):
    """in-crate functions that are nothing but syscall sequences are replaced by the world model (listed in evidence)"""
    eng.stubs['try_read'] = lambda e, ci, a, sp: e.world.try_read(e, a[0], a[1])
    eng.stubs['write_tokens'] = lambda e, ci, a, sp: e.world.write_tokens(e, a[0], a[1])
    eng.stubs['make_pipe'] = lambda e, ci, a, sp: e.world.make_pipe(e, a[0])
    eng.stubs['close_on_exec'] = lambda e, ci, a, sp: ok(UNIT)
    eng.stubs['helpers::close_on_exec'] = eng.stubs['close_on_exec']
    eng.stubs['timeval_from_duration'] = lambda e, ci, a, sp: Opaque('TimeVal', a[0])
    eng.stubs['helpers::timeval_from_duration'] = eng.stubs['timeval_from_duration']
    eng.stubs['debug_level'] = lambda e, ci, a, sp: 0
    eng.stubs['logs::debug_level'] = eng.stubs['debug_level']
    eng.stubs['meta'] = lambda e, ci, a, sp: (e.event('log-meta', kind=repr(a[0])), UNIT)[1]
    eng.stubs['logs::meta'] = eng.stubs['meta']
    eng.stubs['logs::write'] = lambda e, ci, a, sp: UNIT
    eng.summaries['<TimeVal as From>::from'] = lambda e, ci, a, sp: a[0]
    eng.summaries['<Opaque as Into>::into'] = lambda e, ci, a, sp: a[0]


def mk(eng, name, **fields):
    order = eng.src.structs[name]
    assert set(order) == set(fields), (order, fields)
    return Struct(name, [fields[f] for f in order])


def make_server(eng, my_tokens=1, cheats=0, top_level=0):
    state = mk(eng, 'ServerState', my_tokens=my_tokens, cheats=cheats, wait_fds=Map('HashMap'), next_token_stream_id=0,
               token_wakers=Deque(), timers=Deque())
    params = mk(eng, 'ServerParams', token_fds=Struct('()', [TOKEN_R, TOKEN_W]), cheat_fds=Struct('()', [CHEAT_R, CHEAT_W]),
                top_level=top_level)
    cell = Struct('RefCell', [state, 0])
    server = mk(eng, 'JobServer', params=new_cell(params), state=new_cell(cell), dropped=False)
    return server, state, params


def state_fields(eng, state):
    o = eng.src.structs['ServerState']
    return {f: state.f[i] for i, f in enumerate(o)}


# ------------------------------------------------------------------------------------------------ client
class Client:
    """A root future for JobServer::block_on that performs a script of jobserver API calls in the patterns used by
    builder::run (ensure_token_or_cheat -> start; wait_all; release_mine -> ensure_token_or_cheat; sleep), polling the
    job futures in the background the way `wait_for` does."""

    def __init__(self, eng, handle_ref, script, cheat_answers):
        self.eng = eng
        self.h = handle_ref
        self.script = list(script)
        self.pc = 0
        self.cur = None            # current awaited future value
        self.bg = []               # Job futures not yet finished
        self.cheat_answers = list(cheat_answers)
        self.rvs = []
        self.done_ops = []
        self.marked = -1

    def cheat_closure(self):
        def cheat(eng, args):
            a = self.cheat_answers.pop(0) if self.cheat_answers else 0
            eng.event('cheat_func', answer=a)
            return ok(a)
        return new_cell(PyCallable(cheat, 'cheat'))

    def poll_bg(self, cx):
        eng = self.eng
        for j in list(self.bg):
            r = eng.call('<Job as Future>::poll', [Struct('Pin', [j]), cx], None, None)
            if r.var == 'Ready':
                self.rvs.append(r.f[0])
                self.bg.remove(j)

    def poll(self, eng, cx):
        while True:
            if self.pc >= len(self.script):
                return Enum('Poll', 'Ready', [ok(UNIT)])
            op = self.script[self.pc]
            if self.marked != self.pc:
                self.marked = self.pc
                eng.world.ev('op', name=op)
            if op == 'ensure-if-builder-does':
                if not builder_ensures_before_first_try_lock(eng):
                    self.done_ops.append(op)
                    self.pc += 1
                    continue
                op = 'ensure'
            if op == 'ensure':
                if self.cur is None:
                    fut = eng.call('JobServerHandle::ensure_token_or_cheat',
                                   [self.h, Bytes(b't', 'str'), self.cheat_closure()], None, None)
                    self.cur = new_cell(fut)
                r = eng.call('<X as Future>::poll', [Struct('Pin', [self.cur]), cx], None, None)
                if r.var == 'Pending':
                    self.poll_bg(cx)
                    return Enum('Poll', 'Pending')
                eng.drop_value(self.cur.get())
                self.cur = None
                res = r.f[0]
                if res.var == 'Err':
                    return Enum('Poll', 'Ready', [res])
            elif op == 'start':
                job = eng.call('JobServerHandle::start', [self.h, Vec(b'job', 'String'), new_cell(PyCallable(lambda e, a: 0, 'job_func'))],
                               None, None)
                if job.var == 'Err':
                    return Enum('Poll', 'Ready', [job])
                self.bg.append(new_cell(job.f[0]))
            elif op == 'wait_all':
                if self.cur is None:
                    self.cur = new_cell(eng.call('JobServerHandle::wait_all', [self.h], None, None))
                r = eng.call('<AllJobsDone as Future>::poll', [Struct('Pin', [self.cur]), cx], None, None)
                if r.var == 'Pending':
                    self.poll_bg(cx)
                    return Enum('Poll', 'Pending')
                self.cur = None
                res = r.f[0]
                if res.var == 'Err':
                    return Enum('Poll', 'Ready', [res])
            elif op == 'release_mine':
                # builder::run gives up its own token before blocking on another builder's lock; whether it first asks
                # has_token() is read from the source text of builder.rs (builder::run itself is not executed)
                if builder_guards_release_mine(eng) and not eng.call('JobServerHandle::has_token', [self.h], None, None):
                    eng.world.ev('release_mine-skipped')
                else:
                    r = eng.call('JobServerHandle::release_mine', [self.h], None, None)
                    if r.var == 'Err':
                        return Enum('Poll', 'Ready', [r])
            elif op == 'sleep':
                if self.cur is None:
                    self.cur = new_cell(eng.call('JobServerHandle::sleep', [self.h, Struct('Duration', [50 * 1000000])], None, None))
                r = eng.call('<Sleep as Future>::poll', [Struct('Pin', [self.cur]), cx], None, None)
                if r.var == 'Pending':
                    self.poll_bg(cx)
                    return Enum('Poll', 'Pending')
                self.cur = None
            elif op == 'fail':
                # builder::run gives up with an error (e.g. a target that already failed in this run) while jobs it started are
                # still running: `?` leaves the root future, block_on returns, force_return_tokens runs with children alive
                e = eng.call('RedoError::new::<&str>', [Bytes(list(b'boom'), 'str')], None, None)
                return Enum('Poll', 'Ready', [err(e)])
            elif op == 'drain':
                # `job_futures.fold(...)` at the end of builder::run: wait for every remaining job future
                self.poll_bg(cx)
                if self.bg:
                    return Enum('Poll', 'Pending')
            else:
                raise Unsupported('client op %r' % op)
            self.done_ops.append(op)
            self.pc += 1


_GUARD = {}


def builder_ensures_before_first_try_lock(eng):
    """second loop of builder::run (`while !locked.is_empty() || server.is_running()`): is there an
    `ensure_token_or_cheat(...)` between `new_lock(fid)` and the first `lock.try_lock()`?  (read from the source text)"""
    if 'ens' not in _GUARD:
        import os
        import re
        src = open(os.path.join(eng.src.root, 'src/builder.rs')).read()
        i = src.find('while !locked.is_empty() || server.is_running()')
        v = False
        if i >= 0:
            body = re.sub(r'//[^\n]*', '', src[i:])
            j = body.find('new_lock(fid)')
            k = body.find('lock.try_lock()', j)
            if j >= 0 and k >= 0:
                v = 'ensure_token_or_cheat(' in body[j:k]
        _GUARD['ens'] = v
    return _GUARD['ens']


def builder_guards_release_mine(eng):
    if 'v' not in _GUARD:
        import os
        import re
        src = open(os.path.join(eng.src.root, 'src/builder.rs')).read()
        lines = [l.strip() for l in src.split('\n')]
        v = False
        for i, l in enumerate(lines):
            if re.match(r'server\.release_mine\(\)\?;', l):
                j = i - 1
                while j >= 0 and (lines[j].startswith('//') or not lines[j]):
                    j -= 1
                v = bool(re.match(r'if server\.has_token\(\)\s*\{', lines[j]))
        _GUARD['v'] = v
    return _GUARD['v']
